"""
Hierarchical log-likelihood / log-posterior cases: chi objects + reference
model built from the same Leaf description (C02, C03, C17, C18, C19).
"""
import numpy as np
import pints

from harness.bootstrap import load_chi
from harness import gen_loglik as GL
from harness import gen_pop as GP
from harness.oracle.hierarchy import Hierarchy
from harness.oracle import densities as D

chi = load_chi()


class HierCase(object):
    """
    leaves      list of oracle Leaf specs (total dimension = number of free
                parameters of each individual likelihood)
    n_ids       number of individuals
    Individual likelihoods: toy model with n_out outputs; error parameters
    are free (then they are population dimensions as well) or fixed.
    """

    def __init__(self, rng, leaves, n_ids, n_out, fix_sigma, reduced=False,
                 posterior=False, em_names=None, id_style='default', nest=None):
        self.leaves = leaves
        self.n_ids = n_ids
        self.n_out = n_out
        self.fix_sigma = fix_sigma
        self.cases = [GL.LLCase(rng, n_out=n_out, allow_empty=False)
                      for _ in range(n_ids)]
        # all individuals must be structurally identical
        if em_names is None:
            em_names = list(self.cases[0].em_names)
        em_true = [rng.uniform(0.1, 0.5, size=D.ERROR_MODELS[e][0])
                   for e in em_names]
        for c in self.cases:
            c.em_names = list(em_names)
            c.em_true = [p.copy() for p in em_true]
            c.n_full = c.n_mech + sum(len(p) for p in em_true)
            c.free = np.ones(c.n_full, dtype=bool)
        for c in self.cases:
            _regen_obs(c, rng)
        c0 = self.cases[0]
        self.n_mech = c0.n_mech
        self.full_names = c0.full_names()
        self.sigma_values = np.concatenate(c0.em_true)
        if fix_sigma:
            self.dim_names = self.full_names[:self.n_mech]
        else:
            self.dim_names = list(self.full_names)
        self.n_dim = len(self.dim_names)
        self.h = Hierarchy(leaves, n_ids)
        assert self.h.n_dim == self.n_dim, (self.h.n_dim, self.n_dim)
        self.reduced = reduced
        self.posterior = posterior
        self.id_style = id_style
        self.nest = nest
        self.free_top = np.ones(self.h.n_top, dtype=bool)
        self.x_full = None
        self.cov = None

    # ---------------------------------------------------------------- build
    def build(self, rng, tap=False):
        lls = []
        for i, c in enumerate(self.cases):
            ll = c.build()
            if self.fix_sigma:
                names = self.full_names[self.n_mech:]
                ll.fix_parameters(dict(zip(names, self.sigma_values)))
            if self.id_style == 'int':
                ll.set_id(1 + i)
            elif self.id_style == 'str':
                ll.set_id('patient-%s' % 'abcdefghijklmnopqrst'[i])
            elif self.id_style == 'unsorted':
                # order of the individuals differs from the sort order of
                # their labels
                ll.set_id((['mouse 7', 'mouse 10', 'B', 'a', '2', '11'] + [
                    str(30 - j) for j in range(20)])[i])
            if tap:
                ll.get_submodels()['Mechanistic model'].tap = True
            lls.append(ll)
        self.lls = lls
        pm = GP.build_chi(self.leaves, self.n_ids, nest=self.nest)
        pm.set_dim_names(self.dim_names)
        self.h, self.x_full, self.cov = GP.hierarchy_vector(
            rng, self.leaves, self.n_ids)
        self.top_names_full = pm.get_parameter_names()
        n_top = self.h.n_top
        self.free_top = np.ones(n_top, dtype=bool)
        self.sub_model_fixed = False
        if self.reduced and self.nest is None and len(self.leaves) > 1 \
                and rng.random() < 0.4:
            # the fixing happens inside ONE sub-model (a reduced sub-model
            # with some or all of its population parameters fixed), not
            # around the whole population model
            models = [GP.build_chi_leaf(l, self.n_ids) for l in self.leaves]
            j = int(rng.integers(len(self.leaves)))
            off = sum(l.n_top(self.n_ids) for l in self.leaves[:j])
            nt = self.leaves[j].n_top(self.n_ids)
            sub_names = models[j].get_parameter_names()
            pick = np.arange(nt) if rng.random() < 0.5 else \
                rng.permutation(nt)[:int(rng.integers(1, nt + 1))]
            if len(set(sub_names)) == len(sub_names) == nt:
                top = self.x_full[self.h.n_bottom:]
                sub = chi.ReducedPopulationModel(models[j])
                self._zero_some(rng, top, off + np.asarray(pick))
                sub.fix_parameters({
                    sub_names[i]: float(top[off + i]) for i in pick})
                models[j] = sub
                self.free_top[off + np.asarray(pick)] = False
                pm = chi.ComposedPopulationModel(models)
                pm.set_n_ids(self.n_ids)
                pm.set_dim_names(self.dim_names)
                self.sub_model_fixed = True
        if self.reduced and not self.sub_model_fixed:
            pm = chi.ReducedPopulationModel(pm)
            k = int(rng.integers(0, max(1, n_top // 2) + 1))
            idx = rng.permutation(n_top)[:k]
            names = self.top_names_full
            if len(set(names)) == len(names) and len(idx):
                top = self.x_full[self.h.n_bottom:]
                self._zero_some(rng, top, idx)
                pm.fix_parameters({names[i]: float(top[i]) for i in idx})
                self.free_top[idx] = False
        self.pm = pm
        cov_arg = self.cov
        self.unneeded_covariates = False
        if self.h.n_cov == 0 and rng.random() < 0.25:
            # covariates are an optional argument: a model that needs none
            # ignores them (array, nested list or one row per individual)
            cov_arg = rng.uniform(0.5, 2, size=(self.n_ids, int(
                rng.integers(1, 3))))
            if rng.random() < 0.5:
                cov_arg = cov_arg.tolist()
            self.unneeded_covariates = True
        self.hl = chi.HierarchicalLogLikelihood(
            lls, pm, covariates=cov_arg)
        self.obj = self.hl
        self.prior = None
        if self.posterior:
            n_free_top = int(np.sum(self.free_top))
            self.prior = pints.ComposedLogPrior(*[
                pints.GaussianLogPrior(0.3, 2.0) for _ in range(n_free_top)])
            self.obj = chi.HierarchicalLogPosterior(self.hl, self.prior)
        return self.obj

    def _zero_some(self, rng, top, idx):
        """some of the values to be fixed are exactly zero (a log-mean of 0
        is a median of 1, a coefficient of 0 is 'no effect')"""
        self.fixed_at_zero = 0
        if rng.random() < 0.4:
            ok = GP.zeroable_mask(self.leaves, self.n_ids)
            for i in np.atleast_1d(idx):
                if ok[i] and rng.random() < 0.6:
                    top[i] = 0.0
                    self.fixed_at_zero += 1

    # ------------------------------------------------------------ reference
    def free_mask(self):
        return np.concatenate(
            [np.ones(self.h.n_bottom, dtype=bool), self.free_top])

    def x_free(self):
        return self.x_full[self.free_mask()]

    def _indiv_fn(self, case):
        if self.fix_sigma:
            sig = self.sigma_values

            def f(psi):
                return case.ref_total(np.concatenate([psi, sig]))
            return f
        return case.ref_total

    def ref_value(self, x_free):
        """complex-safe reference value at the free vector"""
        z = np.array(self.x_full, dtype=complex)
        z[self.free_mask()] = x_free
        fs = [self._indiv_fn(c) for c in self.cases]
        s = self.h.score(z, fs, self.cov)
        if self.prior is not None:
            top_free = z[self.h.n_bottom:][self.free_top]
            s = s + np.sum(D.norm_logpdf(top_free, 0.3, 2.0))
        return s

    def ref_grad(self, x_free):
        return D.cstep_grad(self.ref_value, np.asarray(x_free, dtype=float))

    def ref_psi(self, x_free):
        z = np.array(self.x_full, dtype=complex)
        z[self.free_mask()] = x_free
        _, psi = self.h.split(z, self.cov)
        return np.real(psi)

    def separated_posterior(self):
        """posterior with a tight prior around well separated dimensions
        (GP.separated_top); returns (posterior, locations)"""
        top, sd, loc = GP.separated_top(self.leaves, self.n_ids)
        priors = [pints.GaussianLogPrior(float(m), float(s_))
                  for m, s_, free in zip(top, sd, self.free_top) if free]
        post = chi.HierarchicalLogPosterior(
            self.hl, pints.ComposedLogPrior(*priors))
        return post, loc

    def sampling_posterior(self):
        """posterior whose prior keeps every population parameter inside the
        support (scales positive, small covariate effects): used wherever
        initial points / prior draws are sampled"""
        desc = self.h.describe()[self.h.n_bottom:]
        priors = []
        for (level, _, li, loc), free in zip(desc, self.free_top):
            if not free:
                continue
            leaf = self.leaves[li]
            if loc >= leaf.n_base(self.n_ids):
                priors.append(pints.GaussianLogPrior(0.0, 0.02))
            else:
                priors.append(pints.LogNormalLogPrior(np.log(0.4), 0.2))
        return chi.HierarchicalLogPosterior(
            self.hl, pints.ComposedLogPrior(*priors))

    # ---------------------------------------------------------------- misc
    def tap_psis(self):
        """last mechanistic parameter vector every individual's model saw"""
        out = []
        for ll in self.lls:
            m = ll.get_submodels()['Mechanistic model']
            out.append(m.calls[-1][0] if m.calls else None)
        return out

    def clear_taps(self):
        for ll in self.lls:
            ll.get_submodels()['Mechanistic model'].calls = []

    def signature(self):
        return ('+'.join(GP.leaf_code(l) for l in self.leaves), self.n_ids,
                self.n_out, self.fix_sigma, self.reduced, self.posterior)

    def nontrivial(self):
        return any(l.kind in 'PH' or l.cov or
                   (l.kind in 'GL' and not l.centered) or l.n_dim > 1
                   for l in self.leaves) or len(self.leaves) > 1

    def describe(self):
        return {'population': [GP.leaf_code(l) for l in self.leaves],
                'n_ids': self.n_ids, 'n_outputs': self.n_out,
                'error_models': self.cases[0].em_names,
                'sigma_fixed': self.fix_sigma, 'reduced': self.reduced,
                'fixed_top_mask': (~self.free_top).tolist()
                if self.x_full is not None else None,
                'posterior': self.posterior, 'id_style': self.id_style,
                'sub_model_fixed': getattr(self, 'sub_model_fixed', False),
                'nested_wrappers': self.nest is not None,
                'x': self.x_full, 'covariates': self.cov}

    def features(self):
        return {'leaves': [GP.leaf_code(l) for l in self.leaves],
                'kinds': sorted(set(l.kind for l in self.leaves)),
                'has_cov': any(bool(l.cov) for l in self.leaves),
                'cov_on': sorted(set(l.kind for l in self.leaves if l.cov)),
                'n_leaves': len(self.leaves), 'n_ids': self.n_ids,
                'reduced': self.reduced, 'posterior': self.posterior,
                'bare': len(self.leaves) == 1,
                'nested_wrappers': self.nest is not None,
                'id_style': self.id_style,
                'unneeded_covariates': getattr(
                    self, 'unneeded_covariates', False),
                'fixed_top': bool(np.any(~self.free_top))}


def _regen_obs(case, rng):
    from harness import toys
    n = case.n_out
    case.true = toys.toy_multi_params(rng, n)
    case.obs = []
    for o in range(n):
        t = case.times[o]
        ybar = np.real(toys.toy_multi_ref(case.true, t, o, n))
        case.obs.append(ybar * np.exp(0.2 * rng.normal(size=len(t))))


def n_dims_for(n_out, fix_sigma, em_names):
    n = n_out + 2
    if not fix_sigma:
        n += sum(D.ERROR_MODELS[e][0] for e in em_names)
    return n


def flag_combinations_agree(obj):
    """the optional flags of get_parameter_names commute: the top-level part
    (exclude_bottom_level) of the names with / without IDs is what the full
    lists hold at the positions whose ID is None; returns a list of
    problems"""
    ids = obj.get_id()
    plain = list(obj.get_parameter_names())
    with_ids = list(obj.get_parameter_names(include_ids=True))
    top = list(obj.get_parameter_names(exclude_bottom_level=True))
    top_ids = list(obj.get_parameter_names(
        exclude_bottom_level=True, include_ids=True))
    prob = []
    if len(ids) != len(plain) or len(plain) != len(with_ids):
        return ['ids %d, names %d, names with ids %d' % (
            len(ids), len(plain), len(with_ids))]
    want_top = [n for n, i in zip(plain, ids) if i is None]
    want_top_ids = [n for n, i in zip(with_ids, ids) if i is None]
    if top != want_top:
        prob.append('exclude_bottom_level: %r, population-level entries of '
                    'the full list: %r' % (top[:6], want_top[:6]))
    if top_ids != want_top_ids:
        prob.append('exclude_bottom_level + include_ids: %r, expected %r' % (
            top_ids[:6], want_top_ids[:6]))
    if len(top) != obj.n_parameters(exclude_bottom_level=True):
        prob.append('%d top-level names, n_parameters(exclude_bottom_level)'
                    ' = %d' % (len(top), obj.n_parameters(
                        exclude_bottom_level=True)))
    return prob
