"""
Reference for dosing regimens: the dose events implied by
(dose, start, duration, period, num) up to a final time, and the cumulative
input function.  Convention at the final time: an event whose start equals
the final time is listed (the repository's own tests assert this).
"""
import numpy as np


def events(dose, start, duration, period, num, final_time):
    """[(start, duration, amount)] of all events with start <= final_time"""
    if period is None or period == 0:
        ev = [(start, duration, dose)]
    else:
        ev = []
        k = 0
        # (num = None: indefinitely; num = 0 doses: no dose)
        while (num is None or k < num):
            t = start + k * period
            if t > final_time:
                break
            ev.append((t, duration, dose))
            k += 1
            if k > 100000:
                raise RuntimeError('unbounded regimen')
    return [e for e in ev if e[0] <= final_time]


def cumulative_input(ev, t):
    """amount delivered up to time t at rate amount/duration per interval"""
    return sum(a * min(max(t - s, 0.0), d) / d for s, d, a in ev)


def rate(ev, t):
    return sum(a / d for s, d, a in ev if s <= t < s + d)


def breakpoints(ev, t_max):
    pts = set()
    for s, d, a in ev:
        pts.add(s)
        pts.add(s + d)
    return sorted(p for p in pts if 0 < p < t_max)
