"""
Reference densities written from the documentation (class docstrings and the
property statements), independent of chi.  Every function is complex-safe so
that exact derivatives are obtained by complex steps.
"""
import numpy as np
from scipy.special import erf

LOG2PI = np.log(2 * np.pi)


def re(x):
    return np.real(x)


def norm_logpdf(x, mu, sd):
    return -0.5 * LOG2PI - np.log(sd) - (x - mu) ** 2 / (2 * sd ** 2)


def lognorm_logpdf(x, mu_log, sd_log):
    return -np.log(x) - 0.5 * LOG2PI - np.log(sd_log) \
        - (np.log(x) - mu_log) ** 2 / (2 * sd_log ** 2)


def truncnorm0_logpdf(x, mu, sd):
    """Gaussian(mu, sd) truncated to x > 0."""
    phi = 0.5 * (1 + erf(mu / sd / np.sqrt(2)))
    return norm_logpdf(x, mu, sd) - np.log(phi)


# ------------------------------------------------------------ error models
# name -> (n_parameters, pointwise log density(y | ybar, params))
def em_gaussian(y, ybar, p):
    return norm_logpdf(y, ybar, p[0])


def em_multiplicative(y, ybar, p):
    return norm_logpdf(y, ybar, p[0] * ybar)


def em_constant_and_multiplicative(y, ybar, p):
    return norm_logpdf(y, ybar, p[0] + p[1] * ybar)


def em_lognormal(y, ybar, p):
    # log-normal whose *mean* equals the model output
    return lognorm_logpdf(y, np.log(ybar) - p[0] ** 2 / 2, p[0])


ERROR_MODELS = {
    'GaussianErrorModel': (1, em_gaussian),
    'MultiplicativeGaussianErrorModel': (1, em_multiplicative),
    'ConstantAndMultiplicativeGaussianErrorModel':
        (2, em_constant_and_multiplicative),
    'LogNormalErrorModel': (1, em_lognormal),
}


def cstep_grad(f, x, h=1e-30):
    """exact gradient of a complex-safe scalar function"""
    x = np.asarray(x, dtype=float)
    g = np.empty(x.shape)
    for k in np.ndindex(*x.shape):
        z = x.astype(complex)
        z[k] += 1j * h
        g[k] = np.imag(f(z)) / h
    return g
