"""
Prototype reference model for hierarchical objects (C02/C03/C05/C13/C17).
Independent of chi: built from the documented layout and densities.
All functions are complex-safe so that gradients come from complex steps.
"""
import numpy as np
from scipy.special import erf, erfc     # noqa

LOG2PI = np.log(2 * np.pi)


def _re(x):
    return np.real(x)


# ---------------------------------------------------------------- densities
def lognorm_pdf_gauss(x, mu, sd):
    return -0.5 * LOG2PI - np.log(sd) - (x - mu) ** 2 / (2 * sd ** 2)


def logpdf_lognormal(x, mu, sd):
    return -np.log(x) - 0.5 * LOG2PI - np.log(sd) \
        - (np.log(x) - mu) ** 2 / (2 * sd ** 2)


def logpdf_truncgauss(x, mu, sd):
    # Gaussian truncated to x > 0
    # 1 - Phi(-mu/sd) = erfc(-mu/sd/sqrt(2)) / 2: no cancellation in the
    # lower tail (mu/sd << 0); erfc is complex-safe
    phi = 0.5 * erfc(-mu / sd / np.sqrt(2))
    return lognorm_pdf_gauss(x, mu, sd) - np.log(phi)


# ---------------------------------------------------------------- leaf spec
class Leaf(object):
    """
    kind: 'G','L','T','P','H'; n_dim; centered (G/L only)
    cov: None or dict(n_cov=int, sel=[(p,d),...] sorted unique by (p,d))
    """
    def __init__(self, kind, n_dim=1, centered=True, cov=None):
        self.kind = kind
        self.n_dim = n_dim
        self.centered = centered
        self.cov = cov

    def n_base(self, n_ids):
        if self.kind in 'GLT':
            return 2 * self.n_dim
        if self.kind == 'P':
            return self.n_dim
        return n_ids * self.n_dim

    def n_top(self, n_ids):
        n = self.n_base(n_ids)
        if self.cov:
            n += len(self.cov['sel']) * self.cov['n_cov']
        return n

    def n_hdim(self):
        return self.n_dim if self.kind in 'GLT' else 0

    def n_cov(self):
        return self.cov['n_cov'] if self.cov else 0

    def is_special(self):
        return self.kind in 'PH'

    def vartheta(self, top, cov, n_ids):
        """per-individual parameters, shape (n_ids, n_per_dim, n_dim)"""
        nb = self.n_base(n_ids)
        base = np.asarray(top[:nb])
        n_per = nb // self.n_dim
        th = np.broadcast_to(
            base.reshape(n_per, self.n_dim)[None], (n_ids, n_per, self.n_dim)
        ).astype(complex).copy()
        if self.cov:
            beta = np.asarray(top[nb:]).reshape(
                len(self.cov['sel']), self.cov['n_cov'])
            for k, (p, d) in enumerate(self.cov['sel']):
                th[:, p, d] = th[:, p, d] + cov @ beta[k]
        return th

    def psi(self, th, eta, n_ids):
        """individual parameters (n_ids, n_dim) from vartheta and eta"""
        if self.kind == 'P':
            return th[:, 0, :]
        if self.kind == 'H':
            # individual i owns row i
            return np.array([th[i, i, :] for i in range(n_ids)])
        if self.centered or self.kind == 'T':
            return eta
        mu, sd = th[:, 0, :], th[:, 1, :]
        if self.kind == 'G':
            return mu + sd * eta
        return np.exp(mu + sd * eta)

    def logp(self, th, eta):
        """population score of eta (or psi when centred); complex-safe"""
        if self.kind in 'PH':
            return 0.0
        mu, sd = th[:, 0, :], th[:, 1, :]
        if np.any(_re(sd) <= 0):
            return -np.inf
        if self.kind == 'T':
            if np.any(_re(eta) < 0):
                return -np.inf
            return np.sum(logpdf_truncgauss(eta, mu, sd))
        if not self.centered:
            return np.sum(lognorm_pdf_gauss(eta, 0.0, 1.0))
        if self.kind == 'G':
            return np.sum(lognorm_pdf_gauss(eta, mu, sd))
        if np.any(_re(eta) <= 0):
            return -np.inf
        return np.sum(logpdf_lognormal(eta, mu, sd))


class Hierarchy(object):
    def __init__(self, leaves, n_ids):
        self.leaves = leaves
        self.n_ids = n_ids
        self.n_dim = sum(l.n_dim for l in leaves)
        self.n_hdim = sum(l.n_hdim() for l in leaves)
        self.n_top = sum(l.n_top(n_ids) for l in leaves)
        self.n_bottom = n_ids * self.n_hdim
        self.n = self.n_bottom + self.n_top
        self.n_cov = sum(l.n_cov() for l in leaves)

    def split(self, x, covariates=None):
        """returns per-leaf (vartheta, eta) and psi (n_ids, n_dim)"""
        x = np.asarray(x, dtype=complex)
        bottom = x[:self.n_bottom].reshape(self.n_ids, self.n_hdim)
        top = x[self.n_bottom:]
        out = []
        psi = np.empty((self.n_ids, self.n_dim), dtype=complex)
        ib = it = ic = idim = 0
        for l in self.leaves:
            nt = l.n_top(self.n_ids)
            cov = None
            if l.cov:
                cov = np.asarray(covariates)[:, ic:ic + l.n_cov()]
                ic += l.n_cov()
            th = l.vartheta(top[it:it + nt], cov, self.n_ids)
            eta = bottom[:, ib:ib + l.n_hdim()] if l.n_hdim() else None
            psi[:, idim:idim + l.n_dim] = l.psi(th, eta, self.n_ids)
            out.append((l, th, eta))
            ib += l.n_hdim()
            it += nt
            idim += l.n_dim
        return out, psi

    def pop_score(self, x, covariates=None):
        parts, psi = self.split(x, covariates)
        s = 0.0
        for l, th, eta in parts:
            s = s + l.logp(th, eta)
        return s, psi

    def score(self, x, indiv_scores, covariates=None):
        """indiv_scores: list of callables psi_i -> complex"""
        s, psi = self.pop_score(x, covariates)
        if not np.isfinite(_re(s)):
            return s
        for i, f in enumerate(indiv_scores):
            s = s + f(psi[i])
        return s

    def grad(self, x, indiv_scores, covariates=None, h=1e-30):
        x = np.asarray(x, dtype=float)
        g = np.empty(len(x))
        for k in range(len(x)):
            xc = x.astype(complex)
            xc[k] += 1j * h
            g[k] = np.imag(self.score(xc, indiv_scores, covariates)) / h
        return g

    # who controls what: for names/ids
    def describe(self):
        """list of (level, individual or None, leaf index, dim or param info)"""
        d = []
        for i in range(self.n_ids):
            for li, l in enumerate(self.leaves):
                for k in range(l.n_hdim()):
                    d.append(('bottom', i, li, k))
        for li, l in enumerate(self.leaves):
            for k in range(l.n_top(self.n_ids)):
                d.append(('top', None, li, k))
        return d


# ------------------------------------------------------- toy mechanistic
def toy_loglik(times, obs):
    """Gaussian error around y0*exp(g t); parameters (y0, g, sigma)."""
    times = np.asarray(times, float)
    obs = np.asarray(obs, float)

    def f(psi):
        y0, g, sigma = psi
        if np.real(sigma) <= 0:
            return -np.inf
        y = y0 * np.exp(g * times)
        return np.sum(lognorm_pdf_gauss(obs, y, sigma))
    return f
