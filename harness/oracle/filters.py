"""Prototype reference for population filters (C12): explicit loops, NaN-skipping, complex-safe."""
import numpy as np
L2PI = np.log(2*np.pi)
def _lse(a):
    m = np.max(np.real(a)); return m + np.log(np.sum(np.exp(a - m)))
def _var(x):  # ddof=1, complex-safe
    n = len(x); mu = np.sum(x)/n; return np.sum((x-mu)**2)/(n-1), mu
def gauss(obs, sim):
    s = 0.0
    n_ids, n_o, n_t = obs.shape
    for r in range(n_o):
        for j in range(n_t):
            v, mu = _var(sim[:, r, j])
            for i in range(n_ids):
                y = obs[i, r, j]
                if np.isnan(y): continue
                s = s - 0.5*L2PI - 0.5*np.log(v) - (y-mu)**2/(2*v)
    return s
def lognormal(obs, sim):
    s = 0.0
    n_ids, n_o, n_t = obs.shape
    for r in range(n_o):
        for j in range(n_t):
            v, mu = _var(np.log(sim[:, r, j]))
            for i in range(n_ids):
                y = obs[i, r, j]
                if np.isnan(y): continue
                s = s - np.log(y) - 0.5*L2PI - 0.5*np.log(v) - (np.log(y)-mu)**2/(2*v)
    return s
def gauss_kde(obs, sim):
    s = 0.0
    n_ids, n_o, n_t = obs.shape; n_s = sim.shape[0]
    for r in range(n_o):
        for j in range(n_t):
            v, _ = _var(sim[:, r, j]); bw2 = (4/3/n_s)**0.4 * v
            for i in range(n_ids):
                y = obs[i, r, j]
                if np.isnan(y): continue
                s = s + _lse(-(y - sim[:, r, j])**2/(2*bw2)) - np.log(n_s) - 0.5*L2PI - 0.5*np.log(bw2)
    return s
def lognormal_kde(obs, sim):
    s = 0.0
    n_ids, n_o, n_t = obs.shape; n_s = sim.shape[0]
    for r in range(n_o):
        for j in range(n_t):
            ls = np.log(sim[:, r, j]); v, _ = _var(ls); bw2 = (4/3/n_s)**0.4 * v
            for i in range(n_ids):
                y = obs[i, r, j]
                if np.isnan(y): continue
                s = s - np.log(y) + _lse(-(np.log(y) - ls)**2/(2*bw2)) - np.log(n_s) - 0.5*L2PI - 0.5*np.log(bw2)
    return s
def gauss_mixture(obs, sim, k):
    s = 0.0
    n_ids, n_o, n_t = obs.shape; n_s = sim.shape[0]; m = n_s//k
    for r in range(n_o):
        for j in range(n_t):
            stats = [_var(sim[q*m:(q+1)*m, r, j]) for q in range(k)]
            for i in range(n_ids):
                y = obs[i, r, j]
                if np.isnan(y): continue
                a = np.array([-0.5*np.log(v) - (y-mu)**2/(2*v) for v, mu in stats])
                s = s + _lse(a) - np.log(k) - 0.5*L2PI
    return s
def grad(f, sim, h=1e-30):
    g = np.empty(sim.shape)
    for idx in np.ndindex(*sim.shape):
        z = sim.astype(complex); z[idx] += 1j*h
        g[idx] = np.imag(f(z))/h
    return g
