"""
Distribution-free statistical monitors: PIT -> Kolmogorov-Smirnov, rank
correlation, duplicate streams.  Thresholds are explicit; every test counts
towards a Bonferroni bound reported in the evidence.
"""
import numpy as np
from scipy import stats

ALPHA_RUN = 1e-9          # family-wise false-alarm bound per run
N_TESTS_BOUND = 2e5       # generous upper bound on tests per run
ALPHA_TEST = ALPHA_RUN / N_TESTS_BOUND


def ks_uniform(u):
    u = np.sort(np.asarray(u, dtype=float))
    n = len(u)
    return float(max(np.max(np.arange(1, n + 1) / n - u),
                     np.max(u - np.arange(0, n) / n)))


def ks_crit(n, alpha=ALPHA_TEST):
    """two-sided DKW bound: P(D > d) <= 2 exp(-2 n d^2)"""
    return float(np.sqrt(-np.log(alpha / 2) / (2 * n)))


def corr_crit(n, alpha=ALPHA_TEST):
    """|spearman r| threshold via normal approximation of r*sqrt(n-1)"""
    z = stats.norm.isf(alpha / 2)
    return float(z / np.sqrt(n - 1))


def spearman(a, b):
    ra = stats.rankdata(a)
    rb = stats.rankdata(b)
    ra = ra - ra.mean()
    rb = rb - rb.mean()
    d = np.sqrt(np.sum(ra ** 2) * np.sum(rb ** 2))
    return float(np.sum(ra * rb) / d) if d > 0 else 1.0


def binom_tail_ok(k, n, p, alpha=ALPHA_TEST):
    """two-sided exact binomial test passes?"""
    lo = stats.binom.cdf(k, n, p)
    hi = stats.binom.sf(k - 1, n, p)
    return bool(min(lo, hi) * 2 > alpha)
