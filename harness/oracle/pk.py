"""
Abstract compartmental-model descriptions from which both an SBML document
and an independent solution are produced (C09, C10, C11).

The oracle only ever sees a {published parameter name: value} dictionary, so
any permutation slip between chi's vector positions and names shows up as a
numerical disagreement.
"""
import numpy as np
from scipy.integrate import solve_ivp
from scipy.linalg import expm

MATH = 'http://www.w3.org/1998/Math/MathML'
COMP_IDS = ['zeta', 'alpha', 'mid', 'beta', 'omega', 'central', 'peri']


class AbstractModel(object):
    """
    comps      list of (compartment id, species id)
    trans      list of dicts {src, dst (or None), kind 'lin'|'mm',
               with_size bool, k / vmax+km parameter ids}
    extra      None or dict(id, decay id, gain id, source comp index):
               rate rule  dx/dt = -decay * x + gain * conc(source)
    assign     None or dict(id, scale id, source comp index):
               assignment rule  eff = scale * conc(source)
    """

    def __init__(self, comps, trans, extra=None, assign=None):
        self.comps = comps
        self.trans = trans
        self.extra = extra
        self.assign = assign

    # ---------------------------------------------------------- published
    def state_names(self):
        names = ['%s.%s_amount' % (c, s) for c, s in self.comps]
        if self.extra:
            names.append('global.' + self.extra['id'])
        return sorted(names)

    def const_names(self):
        # (two species may live in one compartment: one size)
        names = ['%s.size' % c for c in dict.fromkeys(
            c for c, _ in self.comps)]
        for t in self.trans:
            if t['kind'] == 'lin':
                names.append('global.' + t['k'])
            else:
                names += ['global.' + t['vmax'], 'global.' + t['km']]
        if self.extra:
            names += ['global.' + self.extra['decay'],
                      'global.' + self.extra['gain']]
        if self.assign:
            names.append('global.' + self.assign['scale'])
        return sorted(names)

    def parameter_names(self):
        return self.state_names() + self.const_names()

    def output_candidates(self):
        out = []
        for c, s in self.comps:
            out += ['%s.%s_amount' % (c, s), '%s.%s_concentration' % (c, s)]
        if self.extra:
            out.append('global.' + self.extra['id'])
        if self.assign:
            out.append('global.' + self.assign['id'])
            # (a derived constant is no output candidate: outputs have to
            # be states or intermediary variables)
        return out

    def is_linear(self):
        return all(t['kind'] == 'lin' for t in self.trans)

    # --------------------------------------------------------------- SBML
    def sbml(self):
        x = ['<?xml version="1.0" encoding="UTF-8"?>',
             '<sbml xmlns="http://www.sbml.org/sbml/level3/version2/core" '
             'level="3" version="2">',
             '<model id="generated" timeUnits="day">',
             '<listOfUnitDefinitions><unitDefinition id="day"><listOfUnits>'
             '<unit kind="second" exponent="1" scale="0" multiplier="86400"/>'
             '</listOfUnits></unitDefinition></listOfUnitDefinitions>',
             '<listOfCompartments>']
        x += ['<compartment id="%s" size="1" constant="true"/>' % c
              for c in dict.fromkeys(c for c, _ in self.comps)]
        x += ['</listOfCompartments>', '<listOfSpecies>']
        x += ['<species id="%s" compartment="%s" initialAmount="0" '
              'hasSubstanceUnits="false"/>' % (s, c) for c, s in self.comps]
        x += ['</listOfSpecies>', '<listOfParameters>']
        for t in self.trans:
            ids = [t['k']] if t['kind'] == 'lin' else [t['vmax'], t['km']]
            x += ['<parameter id="%s" value="1" constant="true"/>' % i
                  for i in ids]
        if self.extra:
            x.append('<parameter id="%s" value="1" constant="false"/>'
                     % self.extra['id'])
            x += ['<parameter id="%s" value="1" constant="true"/>'
                  % self.extra[k] for k in ('decay', 'gain')]
        if self.assign:
            x.append('<parameter id="%s" value="0" constant="false"/>'
                     % self.assign['id'])
            x.append('<parameter id="%s" value="1" constant="true"/>'
                     % self.assign['scale'])
            if self.assign.get('derived'):
                # a constant derived from another constant (not a parameter)
                x.append('<parameter id="%s" value="0" constant="false"/>'
                         % self.assign['derived'][0])
        x.append('</listOfParameters>')
        rules = []
        if self.extra:
            e = self.extra
            src = self.comps[e['source']][1]
            rules.append(
                '<rateRule variable="%s"><math xmlns="%s"><apply><plus/>'
                '<apply><times/><apply><minus/><ci> %s </ci></apply>'
                '<ci> %s </ci></apply>'
                '<apply><times/><ci> %s </ci><ci> %s </ci></apply>'
                '</apply></math></rateRule>' % (
                    e['id'], MATH, e['decay'], e['id'], e['gain'], src))
        if self.assign:
            a = self.assign
            src = self.comps[a['source']][1]
            scale = a['scale']
            if a.get('derived'):
                did, fac = a['derived']
                rules.append(
                    '<assignmentRule variable="%s"><math xmlns="%s"><apply>'
                    '<times/><cn> %r </cn><ci> %s </ci></apply></math>'
                    '</assignmentRule>' % (did, MATH, fac, a['scale']))
                scale = did
            rules.append(
                '<assignmentRule variable="%s"><math xmlns="%s"><apply>'
                '<times/><ci> %s </ci><ci> %s </ci></apply></math>'
                '</assignmentRule>' % (a['id'], MATH, scale, src))
        if rules:
            x += ['<listOfRules>'] + rules + ['</listOfRules>']
        x.append('<listOfReactions>')
        for r, t in enumerate(self.trans):
            c_src, s_src = self.comps[t['src']]
            size = '<ci> %s </ci>' % c_src if t['with_size'] else ''
            if t['kind'] == 'lin':
                law = '<apply><times/>%s<ci> %s </ci><ci> %s </ci></apply>' \
                    % (size, t['k'], s_src)
            else:
                law = ('<apply><divide/><apply><times/>%s<ci> %s </ci>'
                       '<ci> %s </ci></apply><apply><plus/><ci> %s </ci>'
                       '<ci> %s </ci></apply></apply>') % (
                           size, t['vmax'], s_src, t['km'], s_src)
            prod = ''
            if t['dst'] is not None:
                prod = ('<listOfProducts><speciesReference species="%s"/>'
                        '</listOfProducts>') % self.comps[t['dst']][1]
            x.append(
                '<reaction id="r%d" reversible="false"><listOfReactants>'
                '<speciesReference species="%s"/></listOfReactants>%s'
                '<kineticLaw><math xmlns="%s">%s</math></kineticLaw>'
                '</reaction>' % (r, s_src, prod, MATH, law))
        x += ['</listOfReactions>', '</model>', '</sbml>']
        return '\n'.join(x)

    # ------------------------------------------------------------- oracle
    def _rhs(self, vals):
        nc = len(self.comps)
        size = [vals['%s.size' % c] for c, _ in self.comps]

        cplx = any(np.iscomplexobj(v) for v in vals.values())

        def f(t, y, rate_in=None):
            dy = np.zeros(len(y), dtype=complex
                          if (cplx or np.iscomplexobj(y)) else float)
            for tr in self.trans:
                i = tr['src']
                conc = y[i] / size[i]
                fac = size[i] if tr['with_size'] else 1.0
                if tr['kind'] == 'lin':
                    rate = fac * vals['global.' + tr['k']] * conc
                else:
                    rate = fac * vals['global.' + tr['vmax']] * conc / (
                        vals['global.' + tr['km']] + conc)
                dy[i] -= rate
                if tr['dst'] is not None:
                    dy[tr['dst']] += rate
            if self.extra:
                e = self.extra
                j = e['source']
                dy[nc] = -vals['global.' + e['decay']] * y[nc] + \
                    vals['global.' + e['gain']] * y[j] / size[j]
            if rate_in is not None:
                dy[rate_in[0]] += rate_in[1]
            return dy
        return f

    def _y0(self, vals):
        y0 = [vals['%s.%s_amount' % (c, s)] for c, s in self.comps]
        if self.extra:
            y0.append(vals['global.' + self.extra['id']])
        return np.array(y0)

    def _outputs(self, vals, Y, outs):
        """Y: (n_state, n_times) -> (n_out, n_times)"""
        size = [vals['%s.size' % c] for c, _ in self.comps]
        idx = {'%s.%s_amount' % (c, s): i
               for i, (c, s) in enumerate(self.comps)}
        rows = []
        for o in outs:
            if o in idx:
                rows.append(Y[idx[o]])
            elif o.endswith('_concentration'):
                i = idx[o.replace('_concentration', '_amount')]
                rows.append(Y[i] / size[i])
            elif self.extra and o == 'global.' + self.extra['id']:
                rows.append(Y[len(self.comps)])
            elif self.assign and o == 'global.' + self.assign['id']:
                j = self.assign['source']
                fac = self.assign['derived'][1] if self.assign.get(
                    'derived') else 1.0
                rows.append(fac * vals['global.' + self.assign['scale']]
                            * Y[j] / size[j])
            elif self.assign and self.assign.get('derived') and \
                    o == 'global.' + self.assign['derived'][0]:
                rows.append(self.assign['derived'][1] * vals[
                    'global.' + self.assign['scale']] + 0 * Y[0])
            else:
                raise KeyError(o)
        return np.array(rows)

    def solve(self, vals, times, outs, method='auto'):
        """independent solution; vals maps published names to values"""
        times = np.asarray(times, dtype=float)
        y0 = self._y0(vals)
        if method == 'auto':
            method = 'expm' if self.is_linear() else 'ode'
        if method == 'expm':
            n = len(y0)
            K = np.zeros((n, n), dtype=complex)
            f = self._rhs(vals)
            for j in range(n):
                e = np.zeros(n, dtype=complex)
                e[j] = 1.0
                K[:, j] = f(0.0, e)
            Y = np.array([expm(K * t) @ y0 for t in times]).T
            return self._outputs(vals, Y, outs)
        vr = {k: float(np.real(v)) for k, v in vals.items()}
        f = self._rhs(vr)
        t_eval = np.unique(times)
        sol = solve_ivp(f, (0.0, float(times[-1]) + 1e-9), np.real(y0),
                        method='DOP853', rtol=1e-12, atol=1e-14,
                        t_eval=t_eval)
        if not sol.success:
            raise ArithmeticError(sol.message)
        lookup = {t: sol.y[:, i] for i, t in enumerate(t_eval)}
        Y = np.array([lookup[t] for t in times]).T
        return self._outputs(vr, Y, outs)

    def sensitivities(self, vals, times, outs, names):
        """(n_times, n_out, n_names) derivative of outputs w.r.t. names"""
        S = np.empty((len(times), len(outs), len(names)))
        if self.is_linear():
            for k, nm in enumerate(names):
                v2 = dict(vals)
                v2[nm] = complex(vals[nm], 1e-30)
                S[:, :, k] = (np.imag(self.solve(v2, times, outs)) / 1e-30).T
            return S, 1e-9
        for k, nm in enumerate(names):
            h = 1e-5 * max(abs(vals[nm]), 0.1)
            vp, vm = dict(vals), dict(vals)
            vp[nm] += h
            vm[nm] -= h
            S[:, :, k] = ((np.real(self.solve(vp, times, outs))
                           - np.real(self.solve(vm, times, outs)))
                          / (2 * h)).T
        return S, 1e-5

    def describe(self):
        return {'compartments': self.comps, 'transfers': self.trans,
                'extra_state': self.extra, 'assignment': self.assign}


def random_model(rng, allow_nonlinear=True):
    nc = int(rng.integers(1, 4))
    comps_ids = list(rng.permutation(COMP_IDS)[:nc])
    if nc >= 2 and rng.random() < 0.3:
        # a second species in the first compartment (parent drug and
        # metabolite): same size, another amount variable
        comps_ids[1] = comps_ids[0]
    comps = [(c, 'd%s%d' % (c[0], i)) for i, c in enumerate(comps_ids)]
    trans = []
    k = 0
    letters = list('xqabzm')

    def pid(prefix):
        nonlocal k
        k += 1
        return '%s%s_%d' % (prefix, letters[int(rng.integers(len(letters)))],
                            k)
    for i in range(nc):
        for j in range(nc):
            if i != j and rng.random() < 0.6:
                trans.append(_trans(rng, i, j, pid, allow_nonlinear))
        if rng.random() < 0.7:
            trans.append(_trans(rng, i, None, pid, allow_nonlinear))
    involved = set([t['src'] for t in trans] +
                   [t['dst'] for t in trans if t['dst'] is not None])
    for i in range(nc):
        if i not in involved:
            # a species without any reaction is imported as a constant
            trans.append(_trans(rng, i, None, pid, False))
    extra = assign = None
    if rng.random() < 0.35:
        extra = {'id': pid('s'), 'decay': pid('kd'), 'gain': pid('kg'),
                 'source': int(rng.integers(nc))}
    if rng.random() < 0.35:
        assign = {'id': pid('eff'), 'scale': pid('sc'),
                  'source': int(rng.integers(nc))}
        if rng.random() < 0.4:
            assign['derived'] = (pid('dc'), float(np.round(
                rng.uniform(0.5, 3.0), 3)))
    return AbstractModel(comps, trans, extra, assign)


def _trans(rng, i, j, pid, allow_nonlinear):
    if allow_nonlinear and rng.random() < 0.25:
        return {'src': i, 'dst': j, 'kind': 'mm', 'vmax': pid('v'),
                'km': pid('m'), 'with_size': bool(rng.integers(2))}
    return {'src': i, 'dst': j, 'kind': 'lin', 'k': pid('k'),
            'with_size': bool(rng.integers(2))}
