"""
Shard-side runtime of the monitoring framework: case loop, counters,
violation records, comparison helpers, the anchor-reach tracer.

A check module (checks/cXX.py) declares

    PROP        = 'C04'
    FAMILIES    = [Family('name', fn, quick=N, thorough=M), ...]
    REQUIRED    = {'counter': minimum}      deciding monitors (else inconclusive)
    ANCHORS     = ['chi._error_models.GaussianErrorModel.compute_sensitivities', ...]
    RULE        = '...'
    ASSUMPTIONS = [...]

and every `fn(ctx, rng, idx)` runs one case against the real chi, reports what
it saw through `ctx.case(...)`, `ctx.count(...)` and `ctx.violation(...)`.
A case is a pure function of (VERIF_SEED, property, family, idx), which is
what makes replay files tiny.
"""
import collections
import hashlib
import json
import os
import sys
import time
import traceback
import zlib

import numpy as np

from harness import bootstrap


class Family(object):
    def __init__(self, name, fn, quick, thorough, poison=False):
        self.name = name
        self.fn = fn
        self.quick = int(quick)
        self.thorough = int(thorough)
        self.poison = poison

    def n(self, tier):
        return self.quick if tier == 'quick' else self.thorough


class Rejected(Exception):
    """Raised by a check when chi refused a generated input (documented)."""


def _jsonable(x, depth=0):
    if depth > 8:
        return repr(x)[:200]
    if isinstance(x, dict):
        return {str(k): _jsonable(v, depth + 1) for k, v in x.items()}
    if isinstance(x, (list, tuple, set, frozenset)):
        return [_jsonable(v, depth + 1) for v in x]
    if isinstance(x, np.ndarray):
        if x.size > 64:
            return {'shape': list(x.shape),
                    'head': _jsonable(x.ravel()[:16].tolist(), depth + 1)}
        return _jsonable(x.tolist(), depth + 1)
    if isinstance(x, (np.floating, float)):
        x = float(x)
        if x != x or x in (float('inf'), float('-inf')):
            return repr(x)
        return x
    if isinstance(x, (np.integer,)):
        return int(x)
    if isinstance(x, (np.bool_, bool)):
        return bool(x)
    if isinstance(x, complex):
        return repr(x)
    if x is None or isinstance(x, (int, str)):
        return x
    return repr(x)[:300]


def chi_frames(tb):
    """[(file basename, function, line)] of the chi frames in a traceback."""
    out = []
    root = os.path.realpath(bootstrap.CHI_REPO)
    for fr in traceback.extract_tb(tb):
        fn = os.path.realpath(fr.filename)
        if fn.startswith(root + os.sep):
            out.append((os.path.relpath(fn, root), fr.name, fr.lineno))
    return out


def exc_signature(exc):
    """Mechanism string for an exception: type + innermost chi function."""
    frames = chi_frames(exc.__traceback__)
    where = '%s:%s' % (frames[-1][0], frames[-1][1]) if frames else 'harness'
    return '%s@%s' % (type(exc).__name__, where)


class Ctx(object):
    MAX_SAMPLES = 5
    MAX_VIOLATIONS = 400

    def __init__(self, prop, tier, seed, shard, n_shards, budget_s):
        self.prop = prop
        self.propnum = int(prop[1:])
        self.tier = tier
        self.seed = seed
        self.shard = shard
        self.n_shards = n_shards
        self.budget_s = budget_s
        self.t0 = time.time()
        self.counters = collections.Counter()
        self.sigs = {}
        self.samples = []
        self.violations = []
        self.rejected = collections.Counter()
        self.evaluations = 0
        self.truncated = False
        self.family = None
        self.idx = None
        self.harness_errors = []
        self.maxima = {}

    # ------------------------------------------------------------ case api
    def rng(self, family, idx):
        key = zlib.crc32(family.encode())
        return np.random.default_rng(
            np.random.SeedSequence([self.seed, self.propnum, key, idx]))

    def case(self, sig, nontrivial=True, sample=None):
        """Register one explored case with its configuration signature."""
        self.evaluations += 1
        sig = str(sig)
        if len(sig) > 160:
            sig = hashlib.sha1(sig.encode()).hexdigest()[:20]
        sig = self.family + '|' + sig
        prev = self.sigs.get(sig)
        self.sigs[sig] = bool(nontrivial) or bool(prev)
        if sample is not None and len(self.samples) < self.MAX_SAMPLES \
                and nontrivial:
            fams = [s['family'] for s in self.samples]
            if fams.count(self.family) < 2:
                self.samples.append({
                    'family': self.family, 'idx': self.idx,
                    'case': _jsonable(sample)})

    def count(self, name, n=1):
        self.counters[name] += n

    def maximum(self, name, value):
        """Track the largest observed discrepancy of a kind (evidence)."""
        try:
            value = float(value)
        except (TypeError, ValueError):
            return
        if value != value:
            return
        if value > self.maxima.get(name, -1.0):
            self.maxima[name] = value

    def reject(self, reason):
        self.rejected[str(reason)[:80]] += 1

    def violation(self, monitor, mechanism, detail=None, features=None):
        """
        monitor   : which oracle/contract fired
        mechanism : short signature that identifies *how* it fails (used for
                    de-duplication and by the known-finding classifiers)
        features  : configuration features for classifiers (jsonable)
        """
        self.counters['violations_raw'] += 1
        if len(self.violations) >= self.MAX_VIOLATIONS:
            return
        self.violations.append({
            'property': self.prop, 'monitor': monitor,
            'mechanism': str(mechanism)[:200],
            'family': self.family, 'idx': self.idx, 'tier': self.tier,
            'seed': self.seed, 'features': _jsonable(features or {}),
            'detail': _jsonable(detail or {})})

    def violation_exc(self, monitor, exc, detail=None, features=None):
        d = dict(detail or {})
        d['exception'] = '%s: %s' % (type(exc).__name__, str(exc)[:300])
        d['chi_frames'] = chi_frames(exc.__traceback__)[-4:]
        self.violation(monitor, exc_signature(exc), d, features)

    def expired(self):
        return time.time() - self.t0 > self.budget_s

    # ------------------------------------------------------ comparisons
    def close(self, a, b, rtol=1e-9, scale=None, atol=0.0):
        """
        True if arrays agree within rtol * max(scale, |a|, |b|) + atol,
        treating matching infinities / NaNs as equal.
        """
        a = np.asarray(a, dtype=float)
        b = np.asarray(b, dtype=float)
        if a.shape != b.shape:
            return False
        fa, fb = np.isfinite(a), np.isfinite(b)
        if np.any(fa != fb):
            return False
        nf_a, nf_b = a[~fa], b[~fb]
        ok_nf = np.all((nf_a == nf_b) | (np.isnan(nf_a) & np.isnan(nf_b)))
        if not ok_nf:
            return False
        if scale is not None:
            scale = np.broadcast_to(
                np.abs(np.asarray(scale, dtype=float)), fa.shape)[fa]
        a, b = a[fa], b[fb]
        if a.size == 0:
            return True
        s = np.maximum(np.abs(a), np.abs(b))
        if scale is not None:
            s = np.maximum(s, scale)
        return bool(np.all(np.abs(a - b) <= rtol * s + atol))

    def relerr(self, a, b, scale=None):
        a = np.asarray(a, dtype=float)
        b = np.asarray(b, dtype=float)
        if a.shape != b.shape:
            return np.inf
        m = np.isfinite(a) & np.isfinite(b)
        if not np.any(m):
            return 0.0
        s = np.maximum(np.abs(a[m]), np.abs(b[m]))
        if scale is not None:
            s = np.maximum(s, np.broadcast_to(
                np.abs(np.asarray(scale, dtype=float)), m.shape)[m])
        s = np.maximum(s, 1e-300)
        return float(np.max(np.abs(a[m] - b[m]) / s))


# ---------------------------------------------------------------- tracer
class Tracer(object):
    """sys.monitoring LINE events on chi files; each location fires once."""

    def __init__(self):
        self.lines = set()
        self.on = False
        self.root = os.path.realpath(os.path.join(bootstrap.CHI_REPO, 'chi'))

    def start(self):
        mon = getattr(sys, 'monitoring', None)
        if mon is None:
            return
        tid = mon.COVERAGE_ID
        try:
            mon.use_tool_id(tid, 'chi-verif')
        except ValueError:
            return
        root = self.root
        lines = self.lines
        cache = {}

        def cb(code, line):
            fn = code.co_filename
            ok = cache.get(fn)
            if ok is None:
                ok = os.path.realpath(fn).startswith(root)
                cache[fn] = ok
            if ok:
                lines.add((fn, line))
            return mon.DISABLE

        mon.register_callback(tid, mon.events.LINE, cb)
        mon.set_events(tid, mon.events.LINE)
        self.on = True

    def reached(self, dotted):
        """
        number of body lines executed of a function named by dotted path
        (e.g. chi._population_models.GaussianModel.compute_sensitivities);
        None if the path does not resolve (renamed / removed).
        """
        parts = dotted.split('.')
        try:
            obj = sys.modules[parts[0]]
            for p in parts[1:]:
                obj = getattr(obj, p)
        except (KeyError, AttributeError):
            return None
        obj = getattr(obj, '__func__', obj)
        obj = getattr(obj, '__wrapped__', obj)
        code = getattr(obj, '__code__', None)
        if code is None:
            return None
        body = set(ln for (_, _, ln) in code.co_lines() if ln is not None)
        body.discard(code.co_firstlineno)
        fn = code.co_filename
        return sum(1 for ln in body if (fn, ln) in self.lines)


# ----------------------------------------------------------- shard driver
def run_shard(module, tier, seed, shard, n_shards, budget_s, only=None):
    """
    Runs the shard's slice of every family. `only` = (family, idx) replays
    one case.
    """
    ctx = Ctx(module.PROP, tier, seed, shard, n_shards, budget_s)
    tracer = Tracer()
    if os.environ.get('CHI_VERIF_TRACE', '1') == '1':
        tracer.start()
    setup = getattr(module, 'setup', None)
    if setup is not None:
        setup(ctx)
    for fam in module.FAMILIES:
        if only is not None and fam.name != only[0]:
            continue
        ctx.family = fam.name
        n = fam.n(tier)
        indices = range(shard, n, n_shards) if only is None else [only[1]]
        for idx in indices:
            if only is None and ctx.expired():
                ctx.truncated = True
                ctx.counters['skipped_by_watchdog|' + fam.name] += 1
                continue
            ctx.idx = idx
            rng = ctx.rng(fam.name, idx)
            try:
                fam.fn(ctx, rng, idx)
            except Rejected as e:
                ctx.reject(str(e))
            except Exception as e:        # noqa
                frames = chi_frames(e.__traceback__)
                if frames:
                    # an exception out of chi that the check did not
                    # anticipate: a violation candidate (the object was
                    # constructed and an evaluation raised)
                    ctx.violation_exc('unanticipated_exception', e)
                else:
                    ctx.harness_errors.append({
                        'family': fam.name, 'idx': idx,
                        'error': traceback.format_exc()[-1500:]})
    anchors = {}
    for dotted in getattr(module, 'ANCHORS', []):
        anchors[dotted] = tracer.reached(dotted) if tracer.on else None
    if os.environ.get('CHI_VERIF_ARGDUMP'):
        from harness import argdump
        argdump.dump(os.environ['CHI_VERIF_ARGDUMP'],
                     '%s_%d' % (ctx.prop, shard))
    dump = os.environ.get('CHI_VERIF_LINEDUMP')
    if dump and tracer.on:
        # (diagnostic: which statements of chi this shard executed; read by
        # tools/uncovered.py)
        os.makedirs(dump, exist_ok=True)
        root = os.path.dirname(tracer.root)
        with open(os.path.join(dump, '%s_%d.json' % (ctx.prop, shard)),
                  'w') as f:
            json.dump(sorted((os.path.relpath(os.path.realpath(fn), root), ln)
                             for fn, ln in tracer.lines), f)
    nontrivial = sorted(k for k, v in ctx.sigs.items() if v)
    return {
        'prop': ctx.prop, 'tier': tier, 'seed': seed, 'shard': shard,
        'n_shards': n_shards, 'evaluations': ctx.evaluations,
        'sigs_nontrivial': nontrivial,
        'n_sigs': len(ctx.sigs),
        'samples': ctx.samples, 'violations': ctx.violations,
        'counters': dict(ctx.counters), 'rejected': dict(ctx.rejected),
        'maxima': ctx.maxima,
        'truncated': ctx.truncated, 'harness_errors': ctx.harness_errors,
        'anchors': anchors, 'wall_s': time.time() - ctx.t0,
        'chi_lines_executed': len(tracer.lines),
    }


def main(argv):
    import importlib
    prop, tier, seed, shard, n_shards, budget, out = argv[:7]
    only = None
    if len(argv) > 7:
        only = (argv[7], int(argv[8]))
    bootstrap.load_chi()
    module = importlib.import_module('checks.' + prop.lower())
    res = run_shard(module, tier, int(seed), int(shard), int(n_shards),
                    float(budget), only)
    with open(out, 'w') as f:
        json.dump(res, f)


if __name__ == '__main__':
    main(sys.argv[1:])
