"""
Import-time set-up shared by every shard process.

* puts the repository under test (env CHI_REPO, default /repo) first on
  sys.path so that *its current working tree* is what `import chi` finds;
* installs the reference numerical core behind the real `myokit.Simulation`
  (sundials is absent in this sandbox) before chi is imported;
* optionally replaces the name `np` inside the chi modules with a proxy whose
  `empty`/`empty_like` return NaN-filled arrays (uninitialised-memory poison).

Nothing in /repo is modified; everything is attached from here.
"""
import os
import sys
import warnings

CHI_REPO = os.environ.get('CHI_REPO', '/repo')
VERIF = os.path.dirname(os.path.dirname(os.path.abspath(__file__)))

_chi = None


def load_chi(poison=False, refsim=True):
    """Import chi from CHI_REPO with the harness attached. Idempotent."""
    global _chi
    if _chi is not None:
        return _chi
    if VERIF not in sys.path:
        sys.path.insert(0, VERIF)
    # the repository under test wins over the editable install
    sys.path.insert(0, CHI_REPO)
    warnings.simplefilter('ignore')
    os.environ.setdefault('CHI_VERIF', '1')
    if refsim:
        from harness import refsim as _refsim
        _refsim.install()
    import chi
    got = os.path.realpath(os.path.dirname(os.path.dirname(chi.__file__)))
    want = os.path.realpath(CHI_REPO)
    if got != want:
        raise RuntimeError(
            'chi was imported from %s, expected %s' % (got, want))
    if poison or os.environ.get('CHI_VERIF_POISON') == '1':
        from harness import poison as _poison
        _poison.install(chi)
    if os.environ.get('CHI_VERIF_ARGDUMP'):
        from harness import argdump as _argdump
        _argdump.install(chi)
    _chi = chi
    return chi
