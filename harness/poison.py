"""
Uninitialised-memory poisoning (the MemorySanitizer analogue for numpy code).

The name `np` inside the chi modules is replaced by a proxy module whose
`empty` / `empty_like` return NaN-filled arrays while `ON` is true.  A result
that is finite without poison and changes with it depends on memory that was
never written.
"""
import sys
import types

import numpy as _np

STATE = {'on': False, 'allocations': 0}


class _NpProxy(types.ModuleType):
    def __getattr__(self, name):
        return getattr(_np, name)

    def empty(self, shape, dtype=float, *a, **k):
        arr = _np.empty(shape, dtype, *a, **k)
        if STATE['on'] and arr.dtype.kind == 'f':
            STATE['allocations'] += 1
            arr.fill(_np.nan)
        return arr

    def empty_like(self, prototype, *a, **k):
        arr = _np.empty_like(prototype, *a, **k)
        if STATE['on'] and arr.dtype.kind == 'f':
            STATE['allocations'] += 1
            arr.fill(_np.nan)
        return arr


PROXY = _NpProxy('numpy_poison_proxy')


def install(chi_module=None):
    n = 0
    for name, mod in list(sys.modules.items()):
        if (name == 'chi' or name.startswith('chi.')) and mod is not None \
                and getattr(mod, 'np', None) is _np:
            setattr(mod, 'np', PROXY)
            n += 1
    return n


def set_on(flag):
    STATE['on'] = bool(flag)
