"""
Input-form classes.  The same numbers handed over in another container or
dtype must give the same result (the properties quantify over inputs, not over
numpy dtypes): python lists, integer dtypes (for integer-valued data),
read-only arrays, non-contiguous views, Fortran order.
"""
import numpy as np

FORMS = ['list', 'readonly', 'strided', 'fortran', 'int64', 'int32',
         'pyint', 'float32', 'series']


def integer_valued(a):
    a = np.asarray(a, dtype=float)
    return bool(a.size) and bool(np.all(np.isfinite(a))) and \
        bool(np.all(a == np.round(a))) and bool(np.all(np.abs(a) < 2 ** 30))


def variant(a, form):
    """returns the array `a` in the given form, or None if not applicable"""
    a = np.asarray(a, dtype=float)
    if form == 'list':
        return a.tolist()
    if form == 'readonly':
        b = a.copy()
        b.setflags(write=False)
        return b
    if form == 'strided':
        if a.ndim == 0 or a.size == 0:
            return None
        b = np.repeat(a, 2, axis=-1)[..., ::2]
        return b
    if form == 'fortran':
        if a.ndim < 2:
            return None
        return np.asfortranarray(a)
    if form == 'float32':
        # single-precision storage of numbers that are exactly representable
        # in it (e.g. posterior draws kept as float32): the same numbers
        b = a.astype(np.float32)
        if not np.array_equal(b.astype(float), a, equal_nan=True):
            return None
        return b
    if form == 'series':
        # pandas Series whose labels are not 0..n-1 (array-like arguments)
        import pandas as pd
        if a.ndim != 1 or a.size == 0:
            return None
        # (integer labels in another order than the positions: a row
        # selection of a results table)
        return pd.Series(a, index=list(range(a.size))[::-1])
    if form in ('int64', 'int32', 'pyint'):
        if not integer_valued(a):
            return None
        if form == 'pyint':
            return a.astype(np.int64).tolist()
        return a.astype(np.int64 if form == 'int64' else np.int32)
    raise ValueError(form)


def round32(a):
    """the float64 array of the float32-rounded numbers"""
    return np.asarray(a, dtype=float).astype(np.float32).astype(float)


def pick(rng, applicable=None):
    forms = applicable or FORMS
    return forms[int(rng.integers(len(forms)))]


def intify(x, positive=True):
    """integer-valued neighbour of x (>= 1 in magnitude when positive)"""
    x = np.asarray(x, dtype=float)
    r = np.round(x)
    if positive:
        r = np.where(np.abs(r) < 1, np.where(x < 0, -1.0, 1.0), r)
    return r


def same(a, b, rtol=1e-12):
    """exact up to rtol; tuples / arrays / scalars; nan == nan, inf == inf"""
    if isinstance(a, tuple) or isinstance(b, tuple):
        return len(a) == len(b) and all(same(x, y, rtol)
                                        for x, y in zip(a, b))
    a = np.asarray(a, dtype=float)
    b = np.asarray(b, dtype=float)
    if a.shape != b.shape:
        return False
    fin = np.isfinite(a) & np.isfinite(b)
    if not np.array_equal(a[~fin], b[~fin], equal_nan=True):
        return False
    sc = np.max(np.abs(b[fin])) if np.any(fin) else 1.0
    return bool(np.all(np.abs(a[fin] - b[fin]) <= rtol * (sc + 1.0)))
