"""
Analytic toy mechanistic models (closed-form outputs and sensitivities).
They make likelihood-level oracles independent of any integrator.  The
reference functions are complex-safe.
"""
import numpy as np

from harness.bootstrap import load_chi

chi = load_chi()


class ToyMulti(chi.MechanisticModel):
    """
    n_out outputs  y_o(t) = a_o * exp(-k t) + b * t * (o + 1)
    parameters     a_1 .. a_n, k, b      (all outputs positive for a, b > 0)
    """

    def __init__(self, n_out=2, out_names=None):
        super(ToyMulti, self).__init__()
        self._n = int(n_out)
        self._out_names = None if out_names is None else list(out_names)
        self._s = False
        self._sel = None         # indices of parameters with sensitivities
        self.calls = []          # tap: (parameters, times, with_sens)
        self.tap = False
        self.share_calls = False  # copies append to the same tap list
        # {output index: (times, value)}: the output is `value` (inf, -inf,
        # NaN) at those times, e.g. a log-concentration before the dose
        self.singular = {}

    def copy(self):
        m = ToyMulti(self._n, self._out_names)
        m.singular = dict(self.singular)
        m._s = self._s
        m._sel = None if self._sel is None else list(self._sel)
        m.tap = self.tap
        m.share_calls = self.share_calls
        if self.share_calls:
            m.calls = self.calls
        return m

    def enable_sensitivities(self, enabled, parameter_names=None):
        self._s = bool(enabled)
        self._sel = None
        if self._s and parameter_names is not None:
            names = self.parameters()
            self._sel = [i for i, n in enumerate(names)
                         if n in list(parameter_names)]

    def has_sensitivities(self):
        return self._s

    def n_outputs(self):
        return self._n

    def n_parameters(self):
        return self._n + 2

    def outputs(self):
        if self._out_names is not None:
            return list(self._out_names)
        return ['Out %d' % (i + 1) for i in range(self._n)]

    def parameters(self):
        return ['a%d' % (i + 1) for i in range(self._n)] + ['k', 'b']

    def simulate(self, parameters, times):
        p = np.array(parameters, dtype=float)
        t = np.array(times, dtype=float)
        if self.tap:
            self.calls.append((p.copy(), t.copy(), self._s))
        n = self._n
        a, k, b = p[:n], p[n], p[n + 1]
        e = np.exp(-k * t)
        y = np.array([a[o] * e + b * t * (o + 1) for o in range(n)])
        sing = [(o, np.isin(t, ts_), v) for o, (ts_, v) in
                self.singular.items()]
        for o, mask, v in sing:
            y[o, mask] = v
        if not self._s:
            return y
        s = np.zeros((len(t), n, n + 2))
        for o in range(n):
            s[:, o, o] = e
            s[:, o, n] = -t * a[o] * e
            s[:, o, n + 1] = t * (o + 1)
        for o, mask, v in sing:
            s[mask, o, :] = np.nan
        if self._sel is not None:
            s = s[:, :, self._sel]
        return y, s


def toy_multi_ref(p, t, o, n):
    """reference output o at time t for parameter vector p (complex-safe)"""
    return p[o] * np.exp(-p[n] * t) + p[n + 1] * t * (o + 1)


def toy_multi_params(rng, n):
    """positive, well-conditioned parameter vector"""
    a = rng.uniform(0.5, 5.0, size=n)
    k = rng.uniform(0.05, 0.6)
    b = rng.uniform(0.05, 1.0)
    return np.concatenate([a, [k, b]])
