"""
Mechanism classifiers for open known findings (known_findings.json).

Each classifier is a predicate over a violation record (monitor, mechanism,
configuration features, failure detail) - never over case numbers, hashes or
random values.  A record that does not match is reported as a new VIOLATION.
"""


def _has_cov_special_leaf(v):
    leaves = v.get('features', {}).get('leaves', []) or []
    return any(str(l).startswith('Cov') and ('(P' in l or '(H' in l)
               for l in leaves)


def c13_cov_special(v):
    """
    PopulationFilterLogPosterior + CovariatePopulationModel around a pooled /
    heterogeneous model: the posterior identifies special dimensions by
    isinstance checks on the sub-models, so the covariate-wrapped ones are
    treated as regular dimensions: evaluation raises in
    _reshape_bottom_parameters, or the population density is -inf at every
    point.  Only those two signatures are attributed.
    """
    if not _has_cov_special_leaf(v):
        return False
    m = v['mechanism']
    if m.startswith('ValueError@chi/_log_pdfs.py:_reshape_bottom_parameters'):
        return True
    if m == 'nonfinite_offset':
        vals = v.get('detail', {}).get('values', [])
        return bool(vals) and all(str(x) == '-inf' for x in vals)
    return False


def c06_cam_sampler(v):
    """
    ConstantAndMultiplicativeGaussianErrorModel.sample adds two independent
    Gaussians (sd sqrt(sb^2 + (sr*y)^2)) while the density uses sd sb + sr*y.
    Attributed only if the samples PASS the PIT test against that wrong model
    (a sampler wrong in any other way is a new violation).
    """
    if v['monitor'] != 'pit_ks':
        return False
    if v['mechanism'] != \
            'ks_reject:ConstantAndMultiplicativeGaussianErrorModel':
        return False
    return bool(v.get('detail', {}).get('matches_quadrature_model'))


def c17_dim_names_reset(v):
    """
    ComposedPopulationModel.set_dim_names(None) resets every sub-model to its
    own 'Dim. 1', ... so parameter names of a composite whose defaults
    collide are duplicated again (the constructor enumerates the dimensions
    in that case).  A stable repository test pins the reset behaviour.
    Attributed only if the sole problem is the duplicate-name one, the model
    is a composite and a reset of the dimension names is still in effect.
    """
    if v['mechanism'] != 'hierarchical_counts':
        return False
    d, f = v.get('detail', {}), v.get('features', {})
    if d.get('problems') != ['duplicate names with ids under default naming']:
        return False
    return bool(f.get('dim_names_reset_pending')) and f.get('n_leaves', 0) > 1


def c15_cam_sampler(v):
    """same defect as KF-C06-cam-sampler, observed through PredictiveModel"""
    if v['monitor'] != 'pit_ks':
        return False
    if not v['mechanism'].startswith(
            'ks_reject:ConstantAndMultiplicativeGaussianErrorModel'):
        return False
    return bool(v.get('detail', {}).get('matches_quadrature_model'))


def c15_heterogeneous_predictive(v):
    """
    PopulationPredictiveModel with a heterogeneous part:
    HeterogeneousModel.compute_individual_parameters returns its n_ids
    parameter rows instead of the sampled individuals, so sampling a number of
    patients different from the number of rows raises a broadcast error.
    """
    f = v.get('features', {})
    if 'H' not in (f.get('kinds') or []):
        return False
    if f.get('n_samples') == f.get('n_heterogeneous_rows'):
        return False
    return v['mechanism'].startswith(
        'ValueError@chi/_population_models.py:compute_individual_parameters')


def c05_composed_matrix_layout(v):
    """
    ComposedPopulationModel documents the (n_param_per_dim, n_dim) matrix and
    the per-individual tensor layout, but every method slices the parameters
    along the first axis as if they were flat: a matrix / tensor of the same
    values raises (IndexError / broadcast ValueError) or, for one individual,
    silently scores another value.  Attributed only to composed models with a
    non-flat layout and only to those two signatures in compute_log_likelihood.
    """
    f = v.get('features', {})
    if not f.get('composed') or f.get('layout') not in ('matrix', 'tensor'):
        return False
    m = v['mechanism']
    if v['monitor'] == 'layout_invariance':
        return m.startswith('layout_value_differs:composed:')
    if v['monitor'] == 'composed_layout_raises':
        return m.startswith(('IndexError@chi/_population_models.py',
                             'ValueError@chi/_population_models.py'))
    return False


def c12_lognormal_nonpositive(v):
    """
    LogNormalFilter / LogNormalKDEFilter with a non-positive simulated value,
    or any filter with a zero sample variance at a time point (all simulated
    individuals share one value): log() / the division give NaN scores on
    plain arrays, while masked-array arithmetic
    (measurements with NaN) masks the invalid cells and returns a finite score
    without them.  Attributed only to the dedicated non-positive-simulation
    monitor, only for the two log-normal filters, and only when the plain
    scores are not finite and the padded ones are finite (the pinned
    behaviour); any other disagreement is a new violation.
    """
    if v['monitor'] != 'invariance':
        return False
    if not v['mechanism'].startswith(
            ('nonpositive_simulation_scores_differ:LogNormalFilter',
             'nonpositive_simulation_scores_differ:LogNormalKDEFilter',
             # same mechanism, other trigger: a zero sample variance at a
             # time point (division by zero is masked by np.ma as well)
             'zero_variance_simulation_scores_differ:GaussianFilter',
             'zero_variance_simulation_scores_differ:GaussianKDEFilter',
             'zero_variance_simulation_scores_differ:GaussianMixtureFilter',
             'zero_variance_simulation_scores_differ:LogNormalFilter',
             'zero_variance_simulation_scores_differ:LogNormalKDEFilter')):
        return False
    sc = v.get('detail', {}).get('scores', {})

    def fin(x):
        try:
            return abs(float(x)) < float('inf')
        except (TypeError, ValueError):
            return False
    # (the padded score is finite, or -inf when every cell got masked)
    return (not fin(sc.get('plain'))) and (not fin(sc.get('plain:s1'))) \
        and str(sc.get('nan_padding')) not in ('nan', 'inf') \
        and sc.get('nan_padding') == sc.get('nan_padding:s1')


def c10_explicit_protocol_overlap(v):
    """
    PKPDModel.set_dosing_regimen(myokit.Protocol) hands the protocol to the
    simulator unchanged, and a myokit protocol applies one dose rate at a
    time: an event that starts while another one is active deactivates the
    older one for good.  With overlapping events less drug is delivered than
    the protocol schedules (and than the regimen table lists).  Attributed
    only to explicit protocols with overlapping events in the cumulative-input
    monitor, and only when the observed input equals what this pre-emption
    rule delivers; any other amount is a new violation.
    """
    f = v.get('features', {})
    if f.get('regimen') != 'protocol_overlap':
        return False
    if v['mechanism'] != 'cumulative_input_mismatch:protocol_overlap':
        return False
    d = v.get('detail', {})
    try:
        ev = sorted((float(s), float(dd), float(a))
                    for s, dd, a in d['events'])
        probes = [float(t) for t in d['probes']]
        obs = [float(x) for x in d['observed_all']]
    except (KeyError, TypeError, ValueError):
        return False

    def delivered(t):
        total = 0.0
        for i, (s, dd, a) in enumerate(ev):
            end = s + dd
            # deactivated by the next event that starts while it is active
            for s2, _, _ in ev[i + 1:]:
                if s < s2 < end:
                    end = s2
                    break
            total += a / dd * min(max(t - s, 0.0), end - s)
        return total
    want = [delivered(t) - delivered(probes[0]) for t in probes]
    got = [x - obs[0] for x in obs]
    scale = 1.0 + max(abs(w) for w in want)
    return all(abs(g - w) <= 1e-5 * scale for g, w in zip(got, want))
