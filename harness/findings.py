"""
Mechanism classifiers for open known findings (known_findings.json).

Each classifier is a predicate over a violation record (monitor, mechanism,
configuration features, failure detail) - never over case numbers, hashes or
random values.  A record that does not match is reported as a new VIOLATION.
"""
