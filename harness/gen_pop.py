"""
Seeded generators of population-model configurations: every configuration is
described by oracle `Leaf` specs (harness/oracle/hierarchy.py) from which both
the chi object and the reference model are built.
"""
import itertools

import numpy as np

from harness.bootstrap import load_chi
from harness.oracle.hierarchy import Leaf, Hierarchy

chi = load_chi()


def leaf_code(leaf):
    c = leaf.kind
    if leaf.kind in 'GL' and not leaf.centered:
        c += 'n'
    if leaf.n_dim > 1:
        c += str(leaf.n_dim)
    if leaf.cov:
        c = 'Cov%d%s(%s)' % (leaf.cov['n_cov'],
                             '' if leaf.cov.get('full') else 'p', c)
    return c


def n_per_dim(leaf, n_ids):
    if leaf.kind in 'GLT':
        return 2
    if leaf.kind == 'P':
        return 1
    return n_ids


def make_leaf(kind, n_dim=1, centered=True, n_cov=0, sel=None, n_ids=1,
              late_ids=False):
    """late_ids (heterogeneous leaves): the chi model is created for one
    individual and learns the number of individuals through set_n_ids only
    after it has been wrapped (call-order class)"""
    cov = None
    if n_cov:
        npd = 2 if kind in 'GLT' else (1 if kind == 'P' else n_ids)
        full = [(p, d) for p in range(npd) for d in range(n_dim)]
        if sel is None:
            sel_sorted, is_full = full, True
        else:
            sel_sorted = sorted(set((int(p), int(d)) for p, d in sel))
            is_full = sel_sorted == full
        cov = {'n_cov': n_cov, 'sel': sel_sorted, 'full': is_full,
               'sel_as_given': sel}
    leaf = Leaf(kind, n_dim, centered, cov)
    leaf.late_ids = bool(late_ids) and kind == 'H' and (
        cov is None or (cov['full'] and sel is None))
    return leaf


def build_chi_leaf(leaf, n_ids):
    k = leaf.kind
    if k == 'G':
        m = chi.GaussianModel(n_dim=leaf.n_dim, centered=leaf.centered)
    elif k == 'L':
        m = chi.LogNormalModel(n_dim=leaf.n_dim, centered=leaf.centered)
    elif k == 'T':
        m = chi.TruncatedGaussianModel(n_dim=leaf.n_dim)
    elif k == 'P':
        m = chi.PooledModel(n_dim=leaf.n_dim)
    elif k == 'H':
        late = getattr(leaf, 'late_ids', False)
        m = chi.HeterogeneousModel(n_dim=leaf.n_dim) if late else \
            chi.HeterogeneousModel(n_dim=leaf.n_dim, n_ids=n_ids)
    else:
        raise ValueError(k)
    if leaf.cov:
        m = chi.CovariatePopulationModel(
            m, chi.LinearCovariateModel(n_cov=leaf.cov['n_cov']))
        if not leaf.cov['full'] or leaf.cov.get('sel_as_given') is not None:
            given = leaf.cov.get('sel_as_given')
            if given is None:
                given = [list(s) for s in leaf.cov['sel']]
            m.set_population_parameters(given)
    if getattr(leaf, 'late_ids', False):
        m.set_n_ids(n_ids)
    return m


def random_nest(rng):
    """
    returns a function that restructures a list of sub-models without
    changing their order: a contiguous block becomes a nested
    ComposedPopulationModel and / or single sub-models are wrapped in a
    ReducedPopulationModel (nothing fixed).  The flat parameter layout of
    the resulting composite is the same as that of the flat list.
    """
    mode = int(rng.integers(4))
    a = rng.random()
    b = rng.random()
    pick = rng.random(16)

    def nest(models):
        models = list(models)
        n = len(models)
        if mode in (1, 3):
            for i in range(n):
                if pick[i % 16] < 0.4 and not isinstance(
                        models[i], chi.ReducedPopulationModel):
                    models[i] = chi.ReducedPopulationModel(models[i])
        if mode in (2, 3) and n >= 2:
            i = int(a * (n - 1))
            j = i + 1 + int(b * (n - i - 1))
            j = min(max(j, i + 1), n)
            if j - i >= 1 and not (i == 0 and j == n):
                block = chi.ComposedPopulationModel(models[i:j])
                models = models[:i] + [block] + models[j:]
        return models
    return nest


def build_chi(leaves, n_ids, force_composed=False, nest=None):
    models = [build_chi_leaf(l, n_ids) for l in leaves]
    if nest is not None:
        models = nest(models)
        force_composed = True
    if len(models) == 1 and not force_composed:
        m = models[0]
    else:
        m = chi.ComposedPopulationModel(models)
    m.set_n_ids(n_ids)
    return m


# ------------------------------------------------------------ parameters
def leaf_top(rng, leaf, n_ids, strong_cov=False):
    """well-conditioned top-level vector for one leaf (flat, chi order)"""
    d = leaf.n_dim
    k = leaf.kind
    if k == 'G':
        base = np.concatenate([rng.uniform(0.2, 0.6, d),
                               rng.uniform(0.3, 0.6, d)])
    elif k == 'L':
        base = np.concatenate([rng.uniform(-0.6, 0.0, d),
                               rng.uniform(0.3, 0.6, d)])
    elif k == 'T':
        base = np.concatenate([rng.uniform(0.2, 0.8, d),
                               rng.uniform(0.3, 0.6, d)])
        if rng.random() < 0.1:
            # truncation far in the upper tail of the untruncated Gaussian:
            # any real mean is in the support
            base[:d] = -base[d:] * rng.uniform(4, 9, d)
        elif rng.random() < 0.25:
            # regimes differ between the dimensions: some means lie far
            # above zero (truncation irrelevant there), others close to it
            far = rng.random(d) < 0.5
            base[:d] = np.where(far, base[d:] * rng.uniform(10, 40, d),
                                base[:d])
    elif k == 'P':
        base = rng.uniform(0.3, 0.8, d)
    else:
        base = rng.uniform(0.3, 0.8, n_ids * d)
    if leaf.cov:
        n_cov = leaf.cov['n_cov']
        beta = rng.uniform(-0.05, 0.05, len(leaf.cov['sel']) * n_cov)
        if strong_cov:
            # visible covariate effects on the location parameters (scales
            # keep their small effects and stay positive)
            for s_i, (p, dd) in enumerate(leaf.cov['sel']):
                if p == 0 or k in 'PH':
                    beta[s_i * n_cov:(s_i + 1) * n_cov] = \
                        rng.uniform(0.3, 0.6, n_cov) * rng.choice(
                            [-1, 1], n_cov)
        base = np.concatenate([base, beta])
    return base


def leaf_bottom(rng, leaf, n_ids):
    """(n_ids, n_dim) bottom-level entries (eta or psi) for regular leaves"""
    d = leaf.n_dim
    if leaf.kind == 'L' and not leaf.centered:
        return rng.normal(0, 0.7, size=(n_ids, d))
    if leaf.kind == 'G' and not leaf.centered:
        # keeps psi = mu + sigma * eta positive for the ranges of leaf_top
        return rng.uniform(-0.1, 1.0, size=(n_ids, d))
    if leaf.kind == 'G':
        return rng.uniform(0.05, 0.9, size=(n_ids, d))
    return rng.uniform(0.3, 0.8, size=(n_ids, d))


def random_leaf(rng, n_ids, kinds='GLTPH', max_dim=3, p_cov=0.3,
                cov_kinds='GLT', p_partial=0.5):
    kind = kinds[int(rng.integers(len(kinds)))]
    n_dim = int(rng.integers(1, max_dim + 1))
    centered = bool(rng.integers(2))
    n_cov, sel = 0, None
    if kind in cov_kinds and rng.random() < p_cov:
        n_cov = int(rng.integers(1, 3))
        npd = 2 if kind in 'GLT' else (1 if kind == 'P' else n_ids)
        full = [(p, d) for p in range(npd) for d in range(n_dim)]
        if rng.random() < p_partial:
            k = int(rng.integers(1, len(full) + 1))
            sel = [list(full[i]) for i in rng.permutation(len(full))[:k]]
    late = kind == 'H' and rng.random() < 0.4
    return make_leaf(kind, n_dim, centered, n_cov, sel, n_ids, late_ids=late)


def random_composition(rng, n_ids, total_dim=None, max_parts=4, max_dim=3,
                       **kw):
    """list of leaves; if total_dim is given the dimensions sum to it"""
    if total_dim is None:
        n_parts = int(rng.integers(1, max_parts + 1))
        return [random_leaf(rng, n_ids, max_dim=max_dim, **kw)
                for _ in range(n_parts)]
    leaves, left = [], total_dim
    while left > 0:
        l = random_leaf(rng, n_ids, max_dim=min(left, max_dim), **kw)
        leaves.append(l)
        left -= l.n_dim
    return leaves


ALPHABET = [
    ('G', 1, True, 0), ('G', 1, False, 0), ('L', 1, True, 0),
    ('L', 1, False, 0), ('T', 1, True, 0), ('P', 1, True, 0),
    ('H', 1, True, 0), ('G', 2, True, 0), ('L', 2, False, 0),
    ('P', 2, True, 0), ('H', 2, True, 0), ('T', 2, True, 0),
    ('G', 1, True, 1), ('L', 1, False, 2), ('G', 2, False, 1),
    ('P', 1, True, 1), ('T', 1, True, 1),
]


def enumerate_compositions(total_dim):
    """all sequences over ALPHABET whose dimensions sum to total_dim"""
    out = []

    def rec(prefix, left):
        if left == 0:
            out.append(list(prefix))
            return
        for a in ALPHABET:
            if a[1] <= left:
                rec(prefix + [a], left - a[1])
    rec([], total_dim)
    return out


def leaves_from_alphabet(seq, n_ids):
    return [make_leaf(k, d, c, nc, None, n_ids) for (k, d, c, nc) in seq]


def zeroable_mask(leaves, n_ids):
    """top-level entries whose value may be exactly zero without leaving
    the support: means of centred Gaussian models, log-means of log-normal
    models, covariate coefficients"""
    out = []
    for l in leaves:
        nt = l.n_top(n_ids)
        m = np.zeros(nt, dtype=bool)
        base = n_per_dim(l, n_ids) * l.n_dim
        if l.kind == 'L' or (l.kind == 'G' and l.centered):
            m[:l.n_dim] = True
        m[base:] = True
        out.append(m)
    return np.concatenate(out) if out else np.zeros(0, dtype=bool)


def hierarchy_vector(rng, leaves, n_ids):
    """flat (bottom, top) vector in chi's published order + covariates"""
    h = Hierarchy(leaves, n_ids)
    bottoms = [leaf_bottom(rng, l, n_ids) for l in leaves if l.n_hdim()]
    bottom = np.hstack(bottoms).ravel() if bottoms else np.array([])
    top = np.concatenate([leaf_top(rng, l, n_ids) for l in leaves])
    cov = rng.uniform(-1, 1, size=(n_ids, h.n_cov)) if h.n_cov else None
    return h, np.concatenate([bottom, top]), cov


def separated_top(leaves, n_ids):
    """
    top-level vector whose dimensions are far apart (location 3*(dim+1) on
    the natural scale of each model, scale 0.05, no covariate effect), and
    the (prior mean, prior sd) to sample it tightly.  Used to check that
    sampled individual-level entries belong to *their* dimension.
    returns (top, prior_sd, locations) with locations[global dim] =
    (kind, centered, location)
    """
    top, sd, loc = [], [], {}
    gd = 0
    for l in leaves:
        d = l.n_dim
        k = l.kind
        if k in 'GLT':
            means = [(g + 1.0) if k == 'L' else 3.0 * (g + 1)
                     for g in range(gd, gd + d)]
            top += means + [0.05] * d
            sd += [0.01] * d + [0.002] * d
        elif k == 'P':
            means = [3.0 * (g + 1) + 0.5 for g in range(gd, gd + d)]
            top += means
            sd += [0.01] * d
        else:
            means = [3.0 * (g + 1) for g in range(gd, gd + d)]
            for i in range(n_ids):
                top += [m + 0.1 * i for m in means]
            sd += [0.01] * (n_ids * d)
        for j in range(d):
            loc[gd + j] = (k, l.centered, means[j])
        if l.cov:
            nb = len(l.cov['sel']) * l.cov['n_cov']
            top += [0.0] * nb
            sd += [1e-5] * nb
        gd += d
    return np.array(top), np.array(sd), loc
