"""
Pure-Python numerical core behind the *real* myokit.Simulation class
(DESIGN.md section 2.2).

myokit.Simulation keeps all its Python-level logic (model cloning, CModel
parsing of sensitivities, literal/parameter bookkeeping, prepare_log,
map_to_state, protocol cloning, state/default-state handling, pickling).
Only `_create_simulation` (which compiles C against sundials) is overridden
to install a Python object with the C module's call contract.
"""
import numpy as np
import myokit
import myokit.formats.python as mpy
from scipy.integrate import solve_ivp

_REAL = myokit.Simulation


def _key(lhs):
    if isinstance(lhs, myokit.Derivative):
        return 'dot(' + lhs.var().qname() + ')'
    return lhs.var().qname()


class _Core(object):
    def __init__(self, sim):
        self._sim = sim
        model = sim._model
        self._model = model
        self._states = [v.qname() for v in model.states()]
        self._n = len(self._states)
        self._lit = [v.qname() for v in sim._literals]
        self._par = [v.qname() for v in sim._parameters]
        self._time = model.time().qname()
        self._bound = {}
        for label, var in model.bindings():
            self._bound[var.qname()] = label
        # Generate evaluation code: V is a dict name -> value
        w = mpy.NumPyExpressionWriter()
        w.set_lhs_function(lambda lhs: 'V[%r]' % _key(lhs))
        lines = ['def _eval(V, np=np):']
        order = model.solvable_order()
        skip = set(self._lit) | set(self._par) | set(self._bound)
        for comp, eqs in order.items():
            for eq in eqs:
                k = _key(eq.lhs)
                if k in skip:
                    continue
                lines.append('    ' + w.eq(eq))
        lines.append('    return V')
        env = {'np': np, 'numpy': np}
        exec('\n'.join(lines), env)
        self._eval = env['_eval']
        self._src = '\n'.join(lines)
        self._rtol = 1e-10
        self._atol = 1e-12
        self._nsteps = 0
        self._nevals = 0

    # --- C-module API -------------------------------------------------
    def set_tolerance(self, a, r):
        pass  # reference integrator uses its own (much tighter) tolerance

    def set_max_step_size(self, dt):
        pass

    def set_min_step_size(self, dt):
        pass

    def number_of_steps(self):
        return self._nsteps

    def number_of_evaluations(self):
        return self._nevals

    def sim_clean(self):
        self._args = None

    def sim_init(self, tmin, tmax, state, s_state, bound, literals,
                 parameters, protocols, log, log_interval, log_times,
                 sens_list, root_index, root_threshold, root_list, bench,
                 log_realtime):
        self._args = (tmin, tmax, state, s_state, bound, literals,
                      parameters, protocols, log, log_interval, log_times,
                      sens_list)

    def _values(self, t, y, pace, consts, dtype=float):
        V = dict(consts)
        for k, label in self._bound.items():
            if label == 'time':
                V[k] = t
            elif label == 'pace':
                V[k] = pace
            else:
                V[k] = 0.0
        for i, s in enumerate(self._states):
            V[s] = y[i]
        self._nevals += 1
        return self._eval(V)

    def _rhs(self, t, y, pace, consts):
        V = self._values(t, y, pace, consts)
        return np.array([V['dot(' + s + ')'] for s in self._states])

    def sim_step(self):
        (tmin, tmax, state, s_state, bound, literals, parameters, protocols,
         log, log_interval, log_times, sens_list) = self._args
        consts = dict(zip(self._lit, literals))
        consts.update(dict(zip(self._par, parameters)))
        n = self._n
        sens = self._sim._sensitivities
        has_s = sens is not None
        if has_s:
            deps, indeps = sens
            n_p = len(indeps)
            # independent: ('init', state index) or ('const', qname)
            ind = []
            for e in indeps:
                if isinstance(e, myokit.InitialValue):
                    ind.append(('init', e.var().index()))
                else:
                    ind.append(('const', e.var().qname()))
            dep_keys = [_key(e) for e in deps]

        # Pacing (only label 'pace' is supported, like chi uses it)
        protocol = protocols[0] if protocols else None
        if protocol is not None and not isinstance(protocol, myokit.Protocol):
            raise NotImplementedError('Only event protocols supported')
        ps = myokit.PacingSystem(protocol, initial_time=tmin) \
            if protocol is not None else None

        # Log times
        if log_times is None:
            raise NotImplementedError(
                'reference core only supports log_times logging')
        lt = [float(x) for x in log_times]
        for a, b in zip(lt[:-1], lt[1:]):
            if b < a:
                raise ValueError('Values in log_times must be non-decreasing.')
        lt = [x for x in lt if x >= tmin and x < tmax]

        h = 1e-30

        def jac_terms(t, y, pace):
            # complex-step derivatives of all model variables
            cols = []
            for j in range(n):
                yc = np.array(y, dtype=complex)
                yc[j] += 1j * h
                cols.append(self._values(t, yc, pace, consts))
            pcols = []
            for kind, ref in ind:
                if kind == 'init':
                    pcols.append(None)
                else:
                    c = dict(consts)
                    c[ref] = complex(c[ref], h)
                    pcols.append(self._values(
                        t, np.array(y, dtype=complex), pace, c))
            return cols, pcols

        def f_aug(t, z, pace):
            y = z[:n]
            dy = self._rhs(t, y, pace, consts)
            if not has_s:
                return dy
            S = z[n:].reshape(n_p, n)   # S[k, i] = dy_i / dp_k
            cols, pcols = jac_terms(t, y, pace)
            J = np.empty((n, n))
            for j in range(n):
                for i, s in enumerate(self._states):
                    J[i, j] = np.imag(cols[j]['dot(' + s + ')']) / h
            dS = S @ J.T
            for k, pc in enumerate(pcols):
                if pc is not None:
                    for i, s in enumerate(self._states):
                        dS[k, i] += np.imag(pc['dot(' + s + ')']) / h
            return np.concatenate([dy, dS.ravel()])

        def record(t, z, pace):
            y = z[:n]
            V = self._values(t, y, pace, consts)
            for key in log.keys():
                log[key].append(float(np.real(V[key])))
            if has_s:
                S = z[n:].reshape(n_p, n)
                cols, pcols = jac_terms(t, y, pace)
                M = np.zeros((len(dep_keys), n_p))
                for d, dk in enumerate(dep_keys):
                    gy = np.array(
                        [np.imag(cols[j][dk]) / h for j in range(n)])
                    for k in range(n_p):
                        M[d, k] = gy @ S[k]
                        if pcols[k] is not None:
                            M[d, k] += np.imag(pcols[k][dk]) / h
                sens_list.append(M)

        z = np.array(state, dtype=float)
        if has_s:
            z = np.concatenate([z, np.array(s_state, dtype=float).ravel()])
        t = tmin
        il = 0
        while t < tmax:
            pace = ps.pace() if ps is not None else 0.0
            tn = tmax
            if ps is not None:
                tn = min(tmax, ps.next_time())
            # log points exactly at segment start
            seg_times = []
            while il < len(lt) and lt[il] < tn:
                seg_times.append(lt[il])
                il += 1
            if tn > t:
                pts = [x for x in seg_times if x > t]
                for x in seg_times:
                    if x <= t:
                        record(x, z, pace)
                uniq = sorted(set(pts))
                sol = None
                # (LSODA occasionally gives up on segments of a few ulps
                # between a log point and a dosing event: other integrators
                # of the same tolerances take over)
                for method_ in ('LSODA', 'DOP853', 'Radau'):
                    sol = solve_ivp(
                        lambda tt, zz: f_aug(tt, zz, pace), (t, tn), z,
                        method=method_, rtol=self._rtol, atol=self._atol,
                        t_eval=uniq + [tn], dense_output=False)
                    if sol.success and sol.y.shape[1] == len(uniq) + 1:
                        break
                if not sol.success:
                    raise ArithmeticError(sol.message)
                if sol.y.shape[1] != len(uniq) + 1:
                    raise ArithmeticError('reference core: missing t_eval')
                self._nsteps += int(sol.nfev)
                lookup = {x: sol.y[:, i] for i, x in enumerate(uniq)}
                for x in pts:
                    record(x, lookup[x], pace)
                z = sol.y[:, -1]
            t = tn
            if ps is not None:
                ps.advance(t)
        # write back
        for i in range(n):
            state[i] = float(z[i])
        if has_s:
            S = z[n:].reshape(n_p, n)
            for k in range(n_p):
                for i in range(n):
                    s_state[k][i] = float(S[k, i])
        bound[0] = tmax
        return tmax


class RefSimulation(_REAL):
    def _create_simulation(self, cmodel_code, path):
        self._sim = _Core(self)

    def __reduce__(self):
        return _REAL.__reduce__(self)


def install():
    myokit.Simulation = RefSimulation
