"""
Loaded automatically when this directory is on PYTHONPATH and
CHI_VERIF_REFSIM=1: installs the reference numerical core behind
myokit.Simulation so that the repository's solver-dependent tests can run in
this sandbox (used by tools/refsim_selftest.py only).
"""
import os
import sys

if os.environ.get('CHI_VERIF_REFSIM') == '1':
    here = os.path.dirname(os.path.dirname(os.path.dirname(
        os.path.abspath(__file__))))
    if here not in sys.path:
        sys.path.append(here)
    try:
        from harness import refsim
        refsim.install()
    except Exception as e:      # noqa
        sys.stderr.write('refsim not installed: %r\n' % (e,))
