"""
Seeded generator of individual log-likelihood configurations on the analytic
multi-output toy model, with a brute-force reference (C01, C03, C08, C02...).
"""
import numpy as np

from harness.bootstrap import load_chi
from harness import toys
from harness.oracle import densities as D

chi = load_chi()

EM_CLASSES = sorted(D.ERROR_MODELS)
ARRANGEMENTS = ['identical', 'disjoint', 'nested', 'overlapping',
                'interleaved', 'length1', 'tied', 'random', 'empty']
POOL = np.array([0.0, 0.25, 0.5, 1.0, 1.5, 2.0, 3.0, 4.5, 6.0, 8.0])


def gen_grids(rng, n_out, arrangement):
    """list of non-decreasing time arrays, one per output"""
    pool = np.sort(rng.choice(POOL, size=int(rng.integers(4, 8)),
                              replace=False))
    m = len(pool)
    if n_out == 1 and arrangement in (
            'disjoint', 'nested', 'overlapping', 'interleaved', 'empty'):
        arrangement = 'random'
    if arrangement == 'identical':
        k = int(rng.integers(2, m + 1))
        g = np.sort(rng.choice(pool, size=k, replace=False))
        grids = [g.copy() for _ in range(n_out)]
    elif arrangement == 'disjoint':
        perm = rng.permutation(m)
        cuts = np.array_split(perm, n_out)
        grids = [np.sort(pool[c]) for c in cuts]
    elif arrangement == 'nested':
        grids = [pool.copy()]
        cur = pool
        for _ in range(n_out - 1):
            k = max(1, len(cur) - int(rng.integers(1, 3)))
            cur = np.sort(rng.choice(cur, size=k, replace=False))
            grids.append(cur.copy())
        grids = [grids[i] for i in rng.permutation(n_out)]
    elif arrangement == 'overlapping':
        grids = []
        for o in range(n_out):
            lo = int(rng.integers(0, m - 2))
            hi = int(rng.integers(lo + 2, m + 1))
            grids.append(pool[lo:hi].copy())
    elif arrangement == 'interleaved':
        grids = [pool[o::n_out].copy() for o in range(n_out)]
    elif arrangement == 'length1':
        grids = [np.array([rng.choice(pool)]) for _ in range(n_out)]
        if n_out > 1 and rng.random() < 0.5:
            j = int(rng.integers(n_out))
            grids[j] = np.sort(rng.choice(pool, size=3, replace=False))
    elif arrangement == 'tied':
        grids = []
        for o in range(n_out):
            k = int(rng.integers(2, m + 1))
            g = np.sort(rng.choice(pool, size=k, replace=False))
            if o == 0 or rng.random() < 0.5:
                reps = rng.choice(g, size=int(rng.integers(1, 3)))
                g = np.sort(np.concatenate([g, reps]))
            grids.append(g)
    elif arrangement == 'empty':
        grids = []
        for o in range(n_out):
            k = int(rng.integers(1, m + 1))
            grids.append(np.sort(rng.choice(pool, size=k, replace=False)))
        grids[int(rng.integers(n_out))] = np.array([])
    else:
        grids = []
        for o in range(n_out):
            k = int(rng.integers(1, m + 1))
            grids.append(np.sort(rng.choice(pool, size=k, replace=False)))
    return grids


def overlap_signature(grids):
    """canonical description of how the grids relate (for distinctness)"""
    allt = sorted(set(np.concatenate([g for g in grids]).tolist())) \
        if any(len(g) for g in grids) else []
    rows = []
    for g in grids:
        cnt = [int(np.sum(g == t)) for t in allt]
        rows.append(''.join(str(min(c, 9)) for c in cnt))
    return '/'.join(rows)


class LLCase(object):
    """one generated individual-likelihood configuration"""

    def __init__(self, rng, n_out=None, arrangement=None, allow_fix=True,
                 em_classes=None, allow_empty=True):
        self.n_out = int(n_out or rng.integers(1, 4))
        if n_out is None and rng.random() < 0.06:
            # (more outputs than any example uses)
            self.n_out = int(rng.integers(4, 7))
        arrs = ARRANGEMENTS if allow_empty else ARRANGEMENTS[:-1]
        self.arrangement = arrangement or arrs[int(rng.integers(len(arrs)))]
        self.em_names = [
            (em_classes or EM_CLASSES)[int(rng.integers(
                len(em_classes or EM_CLASSES)))]
            for _ in range(self.n_out)]
        self.times = gen_grids(rng, self.n_out, self.arrangement)
        n = self.n_out
        self.true = toys.toy_multi_params(rng, n)
        self.n_mech = n + 2
        # error parameters (true) per output
        self.em_true = []
        for name in self.em_names:
            npar = D.ERROR_MODELS[name][0]
            self.em_true.append(rng.uniform(0.1, 0.5, size=npar))
        # observations
        self.obs = []
        for o in range(n):
            t = self.times[o]
            ybar = np.real(toys.toy_multi_ref(self.true, t, o, n))
            name, p = self.em_names[o], self.em_true[o]
            z = rng.normal(size=len(t))
            if name == 'LogNormalErrorModel':
                y = ybar * np.exp(p[0] * z)
            elif name == 'GaussianErrorModel':
                y = ybar + p[0] * z
            elif name == 'MultiplicativeGaussianErrorModel':
                y = ybar * (1 + p[0] * z)
            else:
                y = ybar + (p[0] + p[1] * ybar) * z
            self.obs.append(y)
        self.n_full = self.n_mech + sum(len(p) for p in self.em_true)
        # fixed parameters
        self.fixed = {}
        self.fix_history = []
        self.free = np.ones(self.n_full, dtype=bool)
        self.allow_fix = allow_fix
        self.form = ['arrays', 'lists'][int(rng.integers(2))]
        self.flat_single = bool(rng.integers(2))
        self._rng_fix = rng
        # the user's model may arrive with sensitivities switched on - for
        # all parameters or for a subset (the documented signature is
        # enable_sensitivities(enabled, parameter_names))
        self.pre_sens = None
        u = rng.random()
        if u < 0.15:
            self.pre_sens = 'all'
        elif u < 0.3:
            mech = ['a%d' % (i + 1) for i in range(n)] + ['k', 'b']
            k = int(rng.integers(1, len(mech)))
            self.pre_sens = tuple(
                mech[i] for i in sorted(rng.permutation(len(mech))[:k]))

    # ------------------------------------------------------------- build
    def full_names(self):
        n = self.n_out
        names = ['a%d' % (i + 1) for i in range(n)] + ['k', 'b']
        defaults = {
            'GaussianErrorModel': ['Sigma'],
            'MultiplicativeGaussianErrorModel': ['Sigma rel.'],
            'ConstantAndMultiplicativeGaussianErrorModel':
                ['Sigma base', 'Sigma rel.'],
            'LogNormalErrorModel': ['Sigma log']}
        for o, name in enumerate(self.em_names):
            for d in defaults[name]:
                names.append(('Out %d ' % (o + 1) + d) if n > 1 else d)
        return names

    mech_wrapper = 'none'

    def mechanistic_model(self):
        """the user's mechanistic model: bare, or already wrapped in a
        ReducedMechanisticModel with nothing fixed (never fixed / fixed and
        released again)"""
        model = toys.ToyMulti(self.n_out)
        if self.mech_wrapper != 'none':
            model = chi.ReducedMechanisticModel(model)
            if self.mech_wrapper == 'reduced_released':
                model.fix_parameters({'k': 0.3})
                model.fix_parameters({'k': None})
        if self.pre_sens == 'all':
            model.enable_sensitivities(True)
        elif self.pre_sens is not None:
            model.enable_sensitivities(True, list(self.pre_sens))
        return model

    def build(self):
        model = self.mechanistic_model()
        ems = [getattr(chi, name)() for name in self.em_names]
        times = [t.copy() for t in self.times]
        obs = [y.copy() for y in self.obs]
        if self.form == 'lists':
            times = [list(t) for t in times]
            obs = [list(y) for y in obs]
        if self.n_out == 1:
            if self.flat_single and len(times[0]) != 1:
                times, obs = times[0], obs[0]
            ems_arg = ems[0] if self.flat_single else ems
        else:
            ems_arg = ems
        ll = chi.LogLikelihood(model, ems_arg, obs, times)
        return ll

    def choose_fixed(self, rng, x_full, max_frac=0.6):
        """random subset of parameters fixed at the values in x_full"""
        names = self.full_names()
        k = int(rng.integers(0, max(1, int(max_frac * self.n_full)) + 1))
        idx = rng.permutation(self.n_full)[:k]
        self.fixed = {names[i]: float(x_full[i]) for i in idx}
        self.free = np.ones(self.n_full, dtype=bool)
        self.free[idx] = False
        return self.fixed

    # --------------------------------------------------------- reference
    def ref_pointwise(self, x_full):
        """list (per output) of reference pointwise values; complex-safe"""
        n = self.n_out
        x = np.asarray(x_full)
        out, start = [], self.n_mech
        for o in range(n):
            npar, f = D.ERROR_MODELS[self.em_names[o]]
            p = x[start:start + npar]
            start += npar
            t = self.times[o]
            ybar = toys.toy_multi_ref(x, t, o, n)
            out.append(f(self.obs[o], ybar, p))
        return out

    def ref_total(self, x_full):
        return sum(np.sum(v) for v in self.ref_pointwise(x_full))

    def ref_total_free(self, x_free, x_full):
        z = np.array(x_full, dtype=complex)
        z[self.free] = x_free
        return self.ref_total(z)

    def point(self, rng, spread=0.15):
        """a parameter vector near the truth, inside the support"""
        x = np.concatenate([self.true] + self.em_true)
        return x * np.exp(spread * rng.normal(size=len(x)))

    def signature(self):
        return (self.n_out, tuple(n[:3] for n in self.em_names),
                overlap_signature(self.times))

    def nontrivial(self):
        g = self.times
        if self.n_out >= 2 and any(
                not np.array_equal(g[0], h) for h in g[1:]):
            return True
        return any(len(np.unique(h)) != len(h) for h in g)

    def describe(self):
        return {'n_outputs': self.n_out, 'error_models': self.em_names,
                'arrangement': self.arrangement,
                'times': [t.tolist() for t in self.times],
                'observations': [np.round(y, 4).tolist() for y in self.obs],
                'form': self.form, 'fixed': self.fixed}
