"""
Diagnostic (not part of any check): which parameters of chi's public methods
ever received a non-default value from the workloads?

    CHI_VERIF_ARGDUMP=/verif/.scratch/args ./run.py all
    tools/unused_args.py /verif/.scratch/args

Every plain function defined in a class of the chi modules is wrapped by a
recorder that binds the call's arguments to the signature and notes, per
parameter with a default, whether a value other than the default was passed.
A keyword that no workload ever sets is a branch no monitor can observe.
"""
import functools
import inspect
import json
import os
import sys

SEEN = {}      # qualified name -> {param: [n_calls, n_non_default]}


def _record(qual, sig, args, kwargs):
    try:
        b = sig.bind(*args, **kwargs)
    except TypeError:
        return
    rec = SEEN.setdefault(qual, {})
    for name, p in sig.parameters.items():
        if p.default is inspect.Parameter.empty or name == 'self':
            continue
        r = rec.setdefault(name, [0, 0])
        r[0] += 1
        if name in b.arguments:
            v = b.arguments[name]
            try:
                same = v is p.default or bool(v == p.default)
            except Exception:       # noqa  (arrays etc.)
                same = False
            if not same:
                r[1] += 1


def install(chi):
    mods = [m for n, m in sys.modules.items()
            if n.startswith('chi.') and '.tests' not in n and m is not None]
    for mod in mods:
        for cname, cls in list(vars(mod).items()):
            if not inspect.isclass(cls) or cls.__module__ != mod.__name__:
                continue
            for fname, fn in list(vars(cls).items()):
                if not inspect.isfunction(fn) or fname.startswith('__') and \
                        fname not in ('__init__', '__call__'):
                    continue
                try:
                    sig = inspect.signature(fn)
                except (TypeError, ValueError):
                    continue
                if not any(p.default is not inspect.Parameter.empty
                           for p in sig.parameters.values()):
                    SEEN.setdefault('%s.%s.%s' % (
                        mod.__name__, cname, fname), {})
                    continue
                qual = '%s.%s.%s' % (mod.__name__, cname, fname)
                SEEN.setdefault(qual, {})

                def make(fn=fn, sig=sig, qual=qual):
                    @functools.wraps(fn)
                    def wrapper(*a, **k):
                        _record(qual, sig, a, k)
                        return fn(*a, **k)
                    return wrapper
                setattr(cls, fname, make())


def dump(directory, tag):
    os.makedirs(directory, exist_ok=True)
    with open(os.path.join(directory, '%s.json' % tag), 'w') as f:
        json.dump(SEEN, f)
