# PDPredictivePlot.add_data: default observable selection does not skip missing
# entries of the observable column (all sibling figures use .dropna()).
import sys
sys.path.insert(0, sys.argv[1])
import warnings
import numpy as np
import pandas as pd
import chi  # noqa
import chi.plots

warnings.simplefilter('ignore')


def traces(fig):
    out = []
    for t in fig._fig.data:
        x = [] if t.x is None else [float(v) for v in t.x]
        y = [] if t.y is None else [float(v) for v in t.y]
        out.append((t.name, x, y))
    return out


def expected(df):
    obs = df['Observable'].dropna().unique()[0]
    sub = df[df['Observable'] == obs]
    out = []
    for _id in sub['ID'].unique():
        s = sub[sub['ID'] == _id]
        out.append(('ID: %s' % str(_id), s['Time'].tolist(), s['Value'].tolist()))
    return out


bad = 0
# The first row of the frame has no observable / value (e.g. a baseline or
# covariate row, or a missed measurement).
for label, obs in [('string observables', [np.nan, 'A', 'A', 'B', 'A']),
                   ('numeric observables', [np.nan, 1., 1., 2., 1.])]:
    df = pd.DataFrame({
        'ID': [1, 1, 2, 2, 3],
        'Time': [0., 1., 0., 1., 2.],
        'Observable': obs,
        'Value': [np.nan, 2., 3., 4., 5.]})
    before = df.copy(deep=True)
    exp = expected(df)
    for cls in [chi.plots.PDTimeSeriesPlot, chi.plots.PDPredictivePlot]:
        fig = cls()
        try:
            fig.add_data(df)      # observable=None -> "first observable"
            got = traces(fig)
        except Exception as e:  # noqa
            got = 'raised %s: %s' % (type(e).__name__, e)
        ok = (got == exp)
        print('%-20s %-18s %s' % (label, cls.__name__, 'ok' if ok else 'WRONG'))
        if not ok:
            bad += 1
            print('    expected traces:', exp)
            print('    got            :', got)
    if not before.equals(df):
        bad += 1
        print('data frame was altered')

sys.exit(1 if bad else 0)
