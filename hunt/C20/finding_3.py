# Prediction bands: the polygon that is filled ('toself') is built from the
# time points in order of first appearance in the frame instead of from
# min to max and back. For frames whose rows are not sorted by time the filled
# shape is a self-intersecting zig-zag and not the region between the lower
# and the upper limits.
import sys
sys.path.insert(0, sys.argv[1])
import warnings
import numpy as np
import pandas as pd
import chi  # noqa
import chi.plots

warnings.simplefilter('ignore')

rng = np.random.default_rng(0)
n = 20


def frame(times, means):
    return pd.DataFrame({
        'ID': np.tile(np.arange(n), len(times)),
        'Time': np.repeat(times, n),
        'Observable': 'A',
        'Value': rng.normal(size=n * len(times)) + np.repeat(means, n),
        'Dose': np.nan, 'Duration': np.nan})


# Predictions for t = 0, 2, 4 and, appended later, for t = 1, 3
pred = pd.concat([
    frame([0., 2., 4.], [0., 5., 10.]),
    frame([1., 3.], [2.5, 7.5])], ignore_index=True)
before = pred.copy(deep=True)


def shoelace(x, y):
    x = np.asarray(x, dtype=float)
    y = np.asarray(y, dtype=float)
    return 0.5 * abs(np.dot(x, np.roll(y, -1)) - np.dot(y, np.roll(x, -1)))


bad = 0
p = 0.5
for cls in [chi.plots.PDPredictivePlot, chi.plots.PKPredictivePlot]:
    fig = cls()
    fig.add_prediction(pred, bulk_probs=[p])
    band = [t for t in fig._fig.data if t.fill == 'toself'][0]
    x, y = list(band.x), list(band.y)
    T = len(x) // 2

    # Limits per time as stored in the trace
    upper = dict(zip(x[:T], y[:T]))
    lower = dict(zip(x[T:], y[T:]))
    ts = sorted(upper)
    # They are fine per time point ...
    for t in ts:
        v = pred[pred['Time'] == t]['Value'].to_numpy()
        frac = np.mean((v >= lower[t]) & (v <= upper[t]))
        assert frac >= p, 'coverage'
    # ... so the band should be the region between the two limit curves
    width = np.array([upper[t] - lower[t] for t in ts])
    expected_area = np.sum(0.5 * (width[1:] + width[:-1]) * np.diff(ts))
    area = shoelace(x, y)
    monotone = all(a <= b for a, b in zip(x[:T - 1], x[1:T]))
    print(cls.__name__)
    print('   polygon x:', x)
    print('   upper-limit curve visits times in increasing order:', monotone)
    print('   area of filled polygon %.3f, area between limit curves %.3f' % (
        area, expected_area))
    if (not monotone) or abs(area - expected_area) > 1e-9:
        print('   WRONG: the filled shape is not the band')
        bad += 1

    # Same samples, rows sorted by time
    fig2 = cls()
    fig2.add_prediction(pred.sort_values('Time', kind='stable'),
                        bulk_probs=[p])
    band2 = [t for t in fig2._fig.data if t.fill == 'toself'][0]
    print('   (rows sorted by time: polygon x %s, area %.3f)' % (
        list(band2.x), shoelace(band2.x, band2.y)))

if not before.equals(pred):
    print('frame altered')
    bad += 1
sys.exit(1 if bad else 0)
