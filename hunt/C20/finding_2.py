# PKPredictivePlot.add_prediction(bulk_probs=None): the predicted observable
# samples are drawn into the dose panel (row 1, y-axis 'Dose'), and the dose
# rows of the frame are not drawn at all.
import sys
sys.path.insert(0, sys.argv[1])
import warnings
import numpy as np
import pandas as pd
import chi  # noqa
import chi.plots

warnings.simplefilter('ignore')

rng = np.random.default_rng(3)
n, times = 6, [0., 1., 2.]
pred = pd.DataFrame({
    'ID': np.tile(np.arange(n), len(times)),
    'Time': np.repeat(times, n),
    'Observable': 'central.drug_concentration',
    'Value': 100 + rng.normal(size=n * len(times)),
    'Dose': np.nan, 'Duration': np.nan})
regimen = pd.DataFrame({
    'ID': [np.nan, np.nan], 'Time': [0., 1.], 'Observable': [None, None],
    'Value': [np.nan, np.nan], 'Dose': [2., 2.], 'Duration': [0.01, 0.01]})
pred = pd.concat([pred, regimen], ignore_index=True)


def axis(t):
    return 'y' if t.yaxis is None else t.yaxis


# Reference: where do the observable values live in this figure class?
ref = chi.plots.PKPredictivePlot()
ref.add_prediction(pred, bulk_probs=[0.5])
band_axis = [axis(t) for t in ref._fig.data if t.fill == 'toself'][0]
dose_axis = [axis(t) for t in ref._fig.data if t.fill != 'toself'][0]
lay = ref._fig.layout
titles = {'y': lay.yaxis.title.text, 'y2': lay.yaxis2.title.text}
print('bands are drawn on axis %s (title %r); doses on axis %s (title %r)' % (
    band_axis, titles[band_axis], dose_axis, titles[dose_axis]))

fig = chi.plots.PKPredictivePlot()
fig.add_prediction(pred, bulk_probs=None)
bad = 0
sample_traces = [
    t for t in fig._fig.data
    if t.y is not None and len(t.y) == n * len(times)]
if len(sample_traces) != 1:
    print('no trace with the %d samples found' % (n * len(times)))
    bad += 1
else:
    t = sample_traces[0]
    sub = pred[pred['Observable'] == 'central.drug_concentration']
    same = (list(t.x) == sub['Time'].tolist()) and (
        list(t.y) == sub['Value'].tolist())
    print('sample trace holds the samples:', same)
    print('sample trace is drawn on axis %s (title %r)' % (
        axis(t), titles[axis(t)]))
    if not same:
        bad += 1
    if axis(t) != band_axis:
        print('WRONG: observable samples (values ~100) are rendered in the '
              'dose panel against the dose axis')
        bad += 1
dose_traces = [
    t for t in fig._fig.data
    if t.y is not None and list(t.y) == [2., 2.] and axis(t) == dose_axis]
if not dose_traces:
    print('WRONG: the dose rows of the frame are not rendered in the dose '
          'panel (they are when bulk_probs is a list)')
    bad += 1

sys.exit(1 if bad else 0)
