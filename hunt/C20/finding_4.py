# Prediction bands: a bulk probability that is listed twice (e.g.
# [0.5, 0.9, 0.9], or [0.5, '0.5']) yields one band trace whose y holds every
# limit twice while x holds every time once; the limits are therefore paired
# with the wrong times and the lower limits are dropped.
import sys
sys.path.insert(0, sys.argv[1])
import warnings
import numpy as np
import pandas as pd
import chi  # noqa
import chi.plots

warnings.simplefilter('ignore')

rng = np.random.default_rng(0)
n, times = 20, [0., 1., 2.]
pred = pd.DataFrame({
    'ID': np.tile(np.arange(n), len(times)),
    'Time': np.repeat(times, n),
    'Observable': 'A',
    'Value': rng.normal(size=n * len(times)) + np.repeat([0., 5., 10.], n),
    'Dose': np.nan, 'Duration': np.nan})

bad = 0
for cls in [chi.plots.PDPredictivePlot, chi.plots.PKPredictivePlot]:
    ref = cls()
    ref.add_prediction(pred, bulk_probs=[0.5])
    rband = [t for t in ref._fig.data if t.fill == 'toself'][0]

    fig = cls()
    fig.add_prediction(pred, bulk_probs=[0.5, 0.5])
    bands = [t for t in fig._fig.data if t.fill == 'toself']
    print(cls.__name__, '- number of band traces:', len(bands))
    for b in bands:
        x, y = list(b.x), list(b.y)
        print('   x (%d points): %s' % (len(x), x))
        print('   y (%d points): %s' % (len(y), [round(float(v), 2) for v in y]))
        if len(x) != len(y):
            print('   WRONG: x and y differ in length')
            bad += 1
        # what a renderer pairs up: (x_i, y_i) for i < min(len)
        m = min(len(x), len(y))
        T = len(times)
        for i in range(m):
            t = x[i]
            v = pred[pred['Time'] == t]['Value'].to_numpy()
            if float(y[i]) not in v:
                print('   WRONG: limit %.2f drawn at t=%s is not a sample of '
                      'that time point' % (y[i], t))
                bad += 1
                break
    print('   reference band for [0.5]: x=%s y=%s' % (
        list(rband.x), [round(float(v), 2) for v in rband.y]))

sys.exit(1 if bad else 0)
