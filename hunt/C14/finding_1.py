# C14 finding 1: an individual whose measurements of the mapped observable are
# all missing makes the whole posterior -inf for SBML / PKPD models.
#
# usage: python finding_1.py <repo>
import sys
import warnings
sys.path.insert(0, '/tmp/seedhelp')          # solver stand-in (no sundials)
sys.path.insert(0, sys.argv[1] if len(sys.argv) > 1 else '/repo')
import refsim; refsim.install()              # noqa: E401,E702
import numpy as np
import pandas as pd
import pints
import chi
from chi.library import ModelLibrary

warnings.simplefilter('ignore')
OBS = 'central.drug_concentration'


def model():
    m = ModelLibrary().one_compartment_pk_model()
    m.set_administration('central', direct=True)
    m.set_outputs([OBS])
    return m


# Individuals 1 and 2 are measured, individual 3 dropped out: its only
# measurement row has a missing value (it still has a dose row).
rows = [
    (1, 0.0, np.nan, np.nan, 2.0), (1, 0.5, OBS, 1.1, np.nan),
    (1, 1.0, OBS, 0.8, np.nan), (1, 2.0, OBS, 0.4, np.nan),
    (2, 0.0, np.nan, np.nan, 3.0), (2, 0.5, OBS, 1.6, np.nan),
    (2, 1.5, OBS, 0.9, np.nan),
    (3, 0.0, np.nan, np.nan, 2.5), (3, 0.5, OBS, np.nan, np.nan),
]
df = pd.DataFrame(rows, columns=['ID', 'Time', 'Observable', 'Value', 'Dose'])

problem = chi.ProblemModellingController(model(), [chi.GaussianErrorModel()])
problem.set_data(df, dose_duration_key=None)
problem.set_population_model(chi.ComposedPopulationModel([
    chi.PooledModel(), chi.PooledModel(), chi.LogNormalModel(),
    chi.PooledModel()]))
prior = pints.ComposedLogPrior(*[pints.GaussianLogPrior(1, 3)] * 5)
problem.set_log_prior(prior)
posterior = problem.get_log_posterior()

# Hand-assembled reference for whichever individuals the posterior models
ids = posterior.get_id(unique=True)
top = np.array([0.2, 1.5, -0.3, 0.4, 0.3])   # a0, V, log mean ke, log sd, sig
psi = np.array([0.7, 0.9, 0.8])[:len(ids)]   # individual elimination rates
ref = prior(top) + chi.LogNormalModel().compute_log_likelihood(
    top[2:4], psi[:, np.newaxis])
for k, _id in enumerate(ids):
    d = df[(df.ID.astype(str) == _id)]
    m = model()
    for _, r in d[d.Dose.notnull()].iterrows():
        m.set_dosing_regimen(r.Dose, start=r.Time, duration=0.01)
    d = d[(d.Observable == OBS) & d.Value.notnull()]
    if len(d) == 0:
        continue                              # no measurements: contributes 0
    ll = chi.LogLikelihood(
        m, chi.GaussianErrorModel(), d.Value.to_numpy(), d.Time.to_numpy())
    ref += ll([top[0], top[1], psi[k], top[4]])

got = posterior(np.concatenate([psi, top]))
print('individuals modelled      :', ids)
print('observations per individual:',
      posterior.get_log_likelihood().n_observations())
print('controller log-posterior  :', got)
print('hand-assembled            :', ref)
if not (np.isfinite(got) and np.isclose(got, ref, rtol=1e-9, atol=1e-9)):
    print('VIOLATION: missing measurements of one individual turn the whole '
          'log-posterior into', got)
    sys.exit(1)
sys.exit(0)
