# C14 finding 4: a hierarchical log-posterior handed out by the controller
# shares the controller's (reduced) population model.  Fixing parameters to
# another value afterwards silently changes the posterior returned earlier,
# e.g. when posteriors are collected for a scan over a fixed parameter.
#
# usage: python finding_4.py <repo>
import sys
import warnings
sys.path.insert(0, sys.argv[1] if len(sys.argv) > 1 else '/repo')
import numpy as np
import pandas as pd
import pints
import chi

warnings.simplefilter('ignore')


class Toy(chi.MechanisticModel):
    """Analytic model y(t) = a * exp(-b t)."""
    def n_outputs(self):
        return 1

    def n_parameters(self):
        return 2

    def outputs(self):
        return ['y']

    def parameters(self):
        return ['a', 'b']

    def has_sensitivities(self):
        return False

    def enable_sensitivities(self, enabled, parameter_names=None):
        pass

    def simulate(self, parameters, times):
        a, b = parameters
        return (a * np.exp(-b * np.asarray(times, dtype=float)))[np.newaxis]


rows = []
for i, scale in enumerate([1.0, 1.2, 0.9]):
    for t in [0.5, 1.0, 2.0]:
        rows.append((i, t, 'y', scale * 2 * np.exp(-0.5 * t) + 0.05 * i))
df = pd.DataFrame(rows, columns=['ID', 'Time', 'Observable', 'Value'])


def pop_model():
    return chi.ComposedPopulationModel(
        [chi.GaussianModel(), chi.PooledModel(), chi.PooledModel()])


def by_hand(sigma, x):
    """Posterior for 'Pooled Sigma' fixed at sigma, assembled by hand."""
    lls = []
    for i in range(3):
        d = df[df.ID == i]
        lls.append(chi.LogLikelihood(
            Toy(), chi.GaussianErrorModel(), d.Value.to_numpy(),
            d.Time.to_numpy()))
    hll = chi.HierarchicalLogLikelihood(lls, pop_model())
    return hll(list(x) + [sigma]) + prior(x[3:])


problem = chi.ProblemModellingController(Toy(), [chi.GaussianErrorModel()])
problem.set_data(df)
problem.set_population_model(pop_model())
prior = pints.ComposedLogPrior(*[pints.GaussianLogPrior(1, 3)] * 3)

# Scan over the fixed noise level, collect the posteriors, evaluate later
sigmas = [0.1, 0.5, 2.0]
posteriors = []
for sigma in sigmas:
    problem.fix_parameters({'Pooled Sigma': sigma})
    problem.set_log_prior(prior)
    posteriors.append(problem.get_log_posterior())

# [a_1, a_2, a_3, Mean a, Std. a, Pooled b]
x = np.array([2.0, 2.3, 1.9, 2.0, 0.3, 0.5])
status = 0
for sigma, posterior in zip(sigmas, posteriors):
    got = posterior(x)
    ref = by_hand(sigma, x)
    ok = np.isclose(got, ref, rtol=1e-10, atol=1e-10)
    print('Sigma fixed at %.1f: controller posterior %.6f, hand-assembled '
          '%.6f %s' % (sigma, got, ref, '' if ok else '<-- differs'))
    if not ok:
        status = 1

if status:
    print('VIOLATION: posteriors returned earlier changed when '
          'fix_parameters was called again (all use the last fixed value)')
sys.exit(status)
