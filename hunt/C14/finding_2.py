# C14 finding 2: the controller cannot build the posterior when the rows of an
# individual are not in chronological order (the dataset itself is valid).
#
# usage: python finding_2.py <repo>
import sys
import warnings
sys.path.insert(0, sys.argv[1] if len(sys.argv) > 1 else '/repo')
import numpy as np
import pandas as pd
import pints
import chi

warnings.simplefilter('ignore')


class Toy(chi.MechanisticModel):
    """Analytic model y(t) = a * exp(-b t)."""
    def n_outputs(self):
        return 1

    def n_parameters(self):
        return 2

    def outputs(self):
        return ['y']

    def parameters(self):
        return ['a', 'b']

    def has_sensitivities(self):
        return False

    def enable_sensitivities(self, enabled, parameter_names=None):
        pass

    def simulate(self, parameters, times):
        a, b = parameters
        return (a * np.exp(-b * np.asarray(times, dtype=float)))[np.newaxis]


# Long-format data: the late-phase samples of individual 'B' were appended
# before the early ones (e.g. two assay batches concatenated).
rows = [
    ('A', 0.5, 'y', 1.7), ('A', 1.0, 'y', 1.3), ('A', 2.0, 'y', 0.8),
    ('B', 4.0, 'y', 0.3), ('B', 6.0, 'y', 0.1),
    ('B', 0.5, 'y', 1.9), ('B', 1.0, 'y', 1.4),
]
df = pd.DataFrame(rows, columns=['ID', 'Time', 'Observable', 'Value'])

prior = pints.ComposedLogPrior(*[pints.GaussianLogPrior(1, 3)] * 3)
x = [2.0, 0.5, 0.2]
status = 0
for ind in ['A', 'B']:
    d = df[df.ID == ind].sort_values('Time')
    ref = chi.LogLikelihood(
        Toy(), chi.GaussianErrorModel(), d.Value.to_numpy(),
        d.Time.to_numpy())(x) + prior(x)
    problem = chi.ProblemModellingController(Toy(), [chi.GaussianErrorModel()])
    problem.set_data(df)
    problem.set_log_prior(prior)
    try:
        got = problem.get_log_posterior(ind)(x)
    except Exception as e:
        print('individual %s: hand-assembled %.6f, controller raises %r'
              % (ind, ref, e))
        status = 1
        continue
    print('individual %s: hand-assembled %.6f, controller %.6f'
          % (ind, ref, got))
    if not np.isclose(got, ref, rtol=1e-10, atol=1e-10):
        status = 1

# The same with a population model
problem = chi.ProblemModellingController(Toy(), [chi.GaussianErrorModel()])
problem.set_data(df)
problem.set_population_model(chi.ComposedPopulationModel(
    [chi.PooledModel(), chi.PooledModel(), chi.PooledModel()]))
problem.set_log_prior(prior)
try:
    got = problem.get_log_posterior()(x)
    ref = prior(x)
    for ind in ['A', 'B']:
        d = df[df.ID == ind].sort_values('Time')
        ref += chi.LogLikelihood(
            Toy(), chi.GaussianErrorModel(), d.Value.to_numpy(),
            d.Time.to_numpy())(x)
    print('pooled population: hand-assembled %.6f, controller %.6f'
          % (ref, got))
    if not np.isclose(got, ref, rtol=1e-10, atol=1e-10):
        status = 1
except Exception as e:
    print('pooled population: controller raises %r' % e)
    status = 1

if status:
    print('VIOLATION: the posterior depends on / fails with the row order of '
          'the dataset')
sys.exit(status)
