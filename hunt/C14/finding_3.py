# C14 finding 3: observables identified by integer codes (e.g. a DVID column)
# pass the mapping check but are silently matched to NO measurements.
#
# usage: python finding_3.py <repo>
import sys
import warnings
sys.path.insert(0, sys.argv[1] if len(sys.argv) > 1 else '/repo')
import numpy as np
import pandas as pd
import pints
import chi

warnings.simplefilter('ignore')


class Toy(chi.MechanisticModel):
    """Analytic model y1 = a exp(-b t), y2 = a + b t."""
    def __init__(self):
        super(Toy, self).__init__()
        self._outs = ['y1', 'y2']

    def n_outputs(self):
        return len(self._outs)

    def n_parameters(self):
        return 2

    def outputs(self):
        return list(self._outs)

    def parameters(self):
        return ['a', 'b']

    def set_outputs(self, outputs):
        self._outs = list(outputs)

    def has_sensitivities(self):
        return False

    def enable_sensitivities(self, enabled, parameter_names=None):
        pass

    def simulate(self, parameters, times):
        a, b = parameters
        t = np.asarray(times, dtype=float)
        out = {'y1': a * np.exp(-b * t), 'y2': a + b * t}
        return np.array([out[o] for o in self._outs])


# Observable column holds integer codes: 1 = plasma conc., 2 = biomarker
rows = [
    (1, 0.5, 1, 1.6), (1, 1.0, 1, 1.2), (1, 2.0, 1, 0.7),
    (1, 0.5, 2, 2.3), (1, 2.0, 2, 3.1),
    (2, 0.5, 1, 1.4), (2, 1.5, 1, 0.9), (2, 1.0, 2, 2.4),
]
df = pd.DataFrame(rows, columns=['ID', 'Time', 'Observable', 'Value'])
mapping = {'y1': 1, 'y2': 2}

errs = [chi.GaussianErrorModel(), chi.GaussianErrorModel()]
problem = chi.ProblemModellingController(Toy(), errs)
try:
    problem.set_data(df, output_observable_dict=mapping)   # accepted today
except Exception as e:
    print('VIOLATION: integer observable codes are rejected: %r' % e)
    sys.exit(1)
prior = pints.ComposedLogPrior(*[pints.GaussianLogPrior(1, 3)] * 4)
problem.set_log_prior(prior)

x = [2.0, 0.5, 0.3, 0.4]
status = 0
for ind in [1, 2]:
    posterior = problem.get_log_posterior(str(ind))
    obs, times = [], []
    for out in ['y1', 'y2']:
        d = df[(df.ID == ind) & (df.Observable == mapping[out])]
        obs.append(d.Value.to_numpy())
        times.append(d.Time.to_numpy())
    ref = chi.LogLikelihood(Toy(), errs, obs, times)(x) + prior(x)
    got = posterior(x)
    n_obs = posterior.get_log_likelihood().n_observations()
    print('individual %d: observations used %s (dataset has %s); '
          'controller %.6f, hand-assembled %.6f'
          % (ind, n_obs, [len(o) for o in obs], got, ref))
    if not np.isclose(got, ref, rtol=1e-10, atol=1e-10):
        status = 1

if status:
    print('VIOLATION: with integer observable codes the posterior silently '
          'ignores all measurements (it is just the prior)')
sys.exit(status)
