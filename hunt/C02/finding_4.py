"""
C02 finding 4: a HierarchicalLogLikelihood does not own what it was built
from.  It keeps (and re-configures / re-labels) the caller's objects, so
legitimate re-use of the same objects for a second hierarchical likelihood
breaks the property:

 (i)   the population model is stored by reference and its number of
       individuals is only set once in the constructor: building a second
       hierarchical log-likelihood for a cohort of another size with the SAME
       population model object breaks the first one;
 (ii)  the constructor writes position dependent default IDs
       ('Log-likelihood <k>') into the caller's LogLikelihood objects:
       overlapping subsets of the same log-likelihoods (cross-validation
       folds) cannot be turned into a hierarchical log-likelihood any more;
 (iii) the list of log-likelihoods and the covariate matrix are stored by
       reference / as a view: re-using the caller's containers silently
       changes the value of the existing hierarchical log-likelihood.
"""
import sys
sys.path.insert(0, sys.argv[1] if len(sys.argv) > 1 else '/repo')
import numpy as np
from scipy.stats import norm
import chi


class Toy(chi.MechanisticModel):
    """One-parameter analytic model y(t) = p * t."""
    def __init__(self):
        super().__init__()
        self._s = False

    def enable_sensitivities(self, enabled, parameter_names=None):
        self._s = bool(enabled)

    def has_sensitivities(self):
        return self._s

    def n_outputs(self):
        return 1

    def n_parameters(self):
        return 1

    def outputs(self):
        return ['y']

    def parameters(self):
        return ['p']

    def simulate(self, parameters, times):
        t = np.asarray(times, dtype=float)
        y = (parameters[0] * t)[np.newaxis, :]
        if self._s:
            return y, t[:, np.newaxis, np.newaxis]
        return y


times = [0.5, 1.0, 1.5]
data = [[0.4, 0.9, 1.7], [0.2, 0.8, 1.1], [0.6, 1.1, 1.4], [0.5, 1.2, 1.3]]


def make_lls(n):
    return [
        chi.LogLikelihood(Toy(), chi.GaussianErrorModel(), d, times)
        for d in data[:n]]


def reference(lls, psi, mean, std, sigma):
    score = np.sum(norm.logpdf(psi, mean, std))
    return score + sum(ll([p, sigma]) for ll, p in zip(lls, psi))


bad = False

# (i) one population model, two cohorts
pop = chi.ComposedPopulationModel([
    chi.GaussianModel(dim_names=['p']), chi.PooledModel(dim_names=['Sigma'])])
lls_a = make_lls(4)
hll_a = chi.HierarchicalLogLikelihood(lls_a, pop)
psi = np.array([0.9, 0.6, 1.1, 0.8])
vec = list(psi) + [1.0, 0.5, 0.8]
ref = reference(lls_a, psi, 1.0, 0.5, 0.8)
before = hll_a(vec)
hll_b = chi.HierarchicalLogLikelihood(make_lls(2), pop)   # second cohort
try:
    after = hll_a(vec)
except Exception as e:
    after = 'raises %s: %s' % (type(e).__name__, e)
ok = isinstance(after, float) and abs(after - ref) < 1e-9
print('(i) shared population model: reference=%.6f before=%.6f after '
      'building a 2nd likelihood=%s  %s' % (
          ref, before, after, 'ok' if ok else 'VIOLATION'))
bad = bad or not ok

# (ii) overlapping folds of the same log-likelihood objects
lls = make_lls(3)
pop = chi.ComposedPopulationModel([
    chi.GaussianModel(dim_names=['p']), chi.PooledModel(dim_names=['Sigma'])])
chi.HierarchicalLogLikelihood(lls[0:2], pop)
try:
    fold = chi.HierarchicalLogLikelihood(lls[1:3], pop)
    psi = np.array([0.6, 1.1])
    got = fold(list(psi) + [1.0, 0.5, 0.8])
    ref = reference(lls[1:3], psi, 1.0, 0.5, 0.8)
    ok = abs(got - ref) < 1e-9 and len(set(fold.get_id(unique=True))) == 2
except Exception as e:
    got = 'raises %s: %s' % (type(e).__name__, e)
    ok = False
print('(ii) fold [1:3] after fold [0:2] of the same objects: %s  %s' % (
    got, 'ok' if ok else 'VIOLATION'))
bad = bad or not ok

# (iii) caller re-uses its list / covariate array
lls = make_lls(3)
cov = np.array([[0.5], [-1.0], [2.0]])
cpm = chi.CovariatePopulationModel(
    chi.GaussianModel(), chi.LinearCovariateModel(), dim_names=['p'])
cpm.set_population_parameters([[0, 0]])
pop = chi.ComposedPopulationModel([cpm, chi.PooledModel(dim_names=['Sigma'])])
hll = chi.HierarchicalLogLikelihood(lls, pop, covariates=cov)
psi = np.array([0.9, 0.6, 1.1])
vec = list(psi) + [1.0, 0.5, 0.2, 0.8]
ref = np.sum(norm.logpdf(psi, 1.0 + 0.2 * cov[:, 0], 0.5))
ref += sum(ll([p, 0.8]) for ll, p in zip(lls, psi))
first = hll(vec)
cov[:] = 0            # caller recycles its array for something else
second = hll(vec)
lls.pop()             # caller recycles its list for a smaller cohort
try:
    third = hll(vec)
except Exception as e:
    third = 'raises %s: %s' % (type(e).__name__, e)
ok = all(
    isinstance(v, float) and abs(v - ref) < 1e-9
    for v in [first, second, third])
print('(iii) reference=%.6f first=%.6f after cov[:]=0: %s, after lls.pop(): '
      '%s  %s' % (ref, first, second, third, 'ok' if ok else 'VIOLATION'))
bad = bad or not ok

sys.exit(1 if bad else 0)
