"""
C02 finding 3: ComposedPopulationModel caches the parameter counts of its
sub-models (n_parameters, special dimensions, ...) and only refreshes them in
set_n_ids when the number of individuals CHANGES.  If a sub-model is configured
after it has been composed (CovariatePopulationModel.set_population_parameters,
ReducedPopulationModel.fix_parameters), or a sub-model reports a different
number of individuals than it really models (ReducedPopulationModel.n_ids() is
always 1), the hierarchical log-likelihood splits the vector with stale counts
whenever its number of individuals equals the one the composed model already
holds (e.g. one individual): the published names / n_parameters are right, but
evaluation fails.  With any other number of individuals the very same objects
work, because set_n_ids happens to refresh the cache.
"""
import sys
sys.path.insert(0, sys.argv[1] if len(sys.argv) > 1 else '/repo')
import numpy as np
from scipy.stats import norm
import chi


class Toy(chi.MechanisticModel):
    """One-parameter analytic model y(t) = p * t."""
    def __init__(self):
        super().__init__()
        self._s = False

    def enable_sensitivities(self, enabled, parameter_names=None):
        self._s = bool(enabled)

    def has_sensitivities(self):
        return self._s

    def n_outputs(self):
        return 1

    def n_parameters(self):
        return 1

    def outputs(self):
        return ['y']

    def parameters(self):
        return ['p']

    def simulate(self, parameters, times):
        t = np.asarray(times, dtype=float)
        y = (parameters[0] * t)[np.newaxis, :]
        if self._s:
            return y, t[:, np.newaxis, np.newaxis]
        return y


times = [0.5, 1.0, 1.5]
data = [[0.4, 0.9, 1.7], [0.2, 0.8, 1.1], [0.6, 1.1, 1.4]]
lls = [
    chi.LogLikelihood(Toy(), chi.GaussianErrorModel(), d, times) for d in data]
bad = False


def check(label, hll, vec, ref):
    global bad
    names = hll.get_parameter_names()
    try:
        got = hll(vec)
    except Exception as e:
        got = 'raises %s: %s' % (type(e).__name__, e)
    ok = isinstance(got, float) and abs(got - ref) < 1e-9
    print('%s\n   names=%s n_parameters=%d\n   reference=%.6f got=%s  %s' % (
        label, names, hll.n_parameters(), ref, got,
        'ok' if ok else 'VIOLATION'))
    bad = bad or not ok


# (a) covariate sub-model: select the transformed parameters after composing
for n_ids in [1, 2]:
    cpm = chi.CovariatePopulationModel(
        chi.GaussianModel(dim_names=['p']), chi.LinearCovariateModel())
    pop = chi.ComposedPopulationModel([cpm, chi.PooledModel(dim_names=['Sigma'])])
    cpm.set_population_parameters([[0, 0]])   # only the mean depends on cov.
    cov = np.array([[0.5], [-1.0]])[:n_ids]
    hll = chi.HierarchicalLogLikelihood(lls[:n_ids], pop, covariates=cov)
    psi = np.array([0.9, 0.6])[:n_ids]
    mean, std, beta, sigma = 1.0, 0.5, 0.2, 0.8
    vec = list(psi) + [mean, std, beta, sigma]
    ref = np.sum(norm.logpdf(psi, mean + beta * cov[:, 0], std))
    ref += sum(ll([p, sigma]) for ll, p in zip(lls, psi))
    check('(a) set_population_parameters after composing, n_ids=%d' % n_ids,
          hll, vec, ref)

# (b) reduced sub-model: fix a parameter after composing
for n_ids in [1, 2]:
    red = chi.ReducedPopulationModel(chi.GaussianModel(dim_names=['p']))
    pop = chi.ComposedPopulationModel([red, chi.PooledModel(dim_names=['Sigma'])])
    red.fix_parameters({'Std. p': 0.5})
    hll = chi.HierarchicalLogLikelihood(lls[:n_ids], pop)
    psi = np.array([0.9, 0.6])[:n_ids]
    mean, sigma = 1.0, 0.8
    vec = list(psi) + [mean, sigma]
    ref = np.sum(norm.logpdf(psi, mean, 0.5))
    ref += sum(ll([p, sigma]) for ll, p in zip(lls, psi))
    check('(b) fix_parameters after composing, n_ids=%d' % n_ids,
          hll, vec, ref)

# (c) nothing is configured late: a reduced heterogeneous sub-model that was
# built for 3 individuals is used for 1 individual (works for 2, and works
# without the ReducedPopulationModel wrapper)
for n_ids in [1, 2]:
    red = chi.ReducedPopulationModel(
        chi.HeterogeneousModel(dim_names=['Sigma'], n_ids=3))
    pop = chi.ComposedPopulationModel([chi.GaussianModel(dim_names=['p']), red])
    hll = chi.HierarchicalLogLikelihood(lls[:n_ids], pop)
    psi = np.array([0.9, 0.6])[:n_ids]
    sigmas = np.array([0.8, 1.1])[:n_ids]
    mean, std = 1.0, 0.5
    vec = list(psi) + [mean, std] + list(sigmas)
    ref = np.sum(norm.logpdf(psi, mean, std))
    ref += sum(ll([p, s]) for ll, p, s in zip(lls, psi, sigmas))
    check('(c) Reduced(Heterogeneous(n_ids=3)) sub-model, n_ids=%d' % n_ids,
          hll, vec, ref)

sys.exit(1 if bad else 0)
