"""
C02 finding 1: TruncatedGaussianModel population density blows up to +inf
(and loses accuracy before that) for valid parameters with mu / sigma << 0,
so the hierarchical log-likelihood is +inf instead of the finite sum
"individual log-likelihoods + population log-density".
"""
import sys
sys.path.insert(0, sys.argv[1] if len(sys.argv) > 1 else '/repo')
import numpy as np
from scipy.stats import norm
import chi


class Toy(chi.MechanisticModel):
    """One-parameter analytic model y(t) = p * t."""
    def __init__(self):
        super().__init__()
        self._s = False

    def enable_sensitivities(self, enabled, parameter_names=None):
        self._s = bool(enabled)

    def has_sensitivities(self):
        return self._s

    def n_outputs(self):
        return 1

    def n_parameters(self):
        return 1

    def outputs(self):
        return ['y']

    def parameters(self):
        return ['p']

    def simulate(self, parameters, times):
        t = np.asarray(times, dtype=float)
        y = (parameters[0] * t)[np.newaxis, :]
        if self._s:
            return y, t[:, np.newaxis, np.newaxis]
        return y


times = [0.5, 1.0, 1.5]
data = [[0.4, 0.9, 1.7], [0.2, 0.8, 1.1]]
lls = [
    chi.LogLikelihood(Toy(), chi.GaussianErrorModel(), d, times) for d in data]
pop = chi.ComposedPopulationModel([
    chi.TruncatedGaussianModel(dim_names=['p']),
    chi.PooledModel(dim_names=['Sigma'])])
hll = chi.HierarchicalLogLikelihood(lls, pop)
# parameters: psi_1, psi_2, Mu p, Sigma p, Pooled Sigma
print(hll.get_parameter_names())

bad = False
for mu, sigma in [(-6.0, 1.0), (-7.5, 1.0), (-9.0, 1.0), (-4.5, 0.5)]:
    psi = np.array([0.5, 0.7])
    err_sigma = 1.0
    vec = [psi[0], psi[1], mu, sigma, err_sigma]
    got = hll(vec)
    # Reference: individual likelihoods + truncated Gaussian log-density
    # log N(psi|mu, sigma) - log Phi(mu / sigma)   (psi > 0)
    ref = sum(ll([p, err_sigma]) for ll, p in zip(lls, psi))
    ref += np.sum(norm.logpdf(psi, mu, sigma) - norm.logcdf(mu / sigma))
    ok = np.isfinite(got) and abs(got - ref) <= 1e-6 * max(1, abs(ref))
    print('mu=%5.1f sigma=%.1f  hierarchical=%r  reference=%r  %s' % (
        mu, sigma, got, ref, 'ok' if ok else 'VIOLATION'))
    bad = bad or not ok

sys.exit(1 if bad else 0)
