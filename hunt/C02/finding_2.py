"""
C02 finding 2: HierarchicalLogLikelihood hands its covariates positionally to
PopulationModel.compute_individual_parameters, where the third positional
argument of the non-covariate models is ``return_eta``.  With a non-centred
Gaussian / log-normal population model (plain or wrapped in a
ReducedPopulationModel) and a (superfluous, but accepted) covariate matrix the
non-centred transform psi = mu + sigma * eta is silently skipped for one
individual, and evaluation raises for more than one individual.
ComposedPopulationModel documents that covariates are ignored by models
that do not use them.
"""
import sys
sys.path.insert(0, sys.argv[1] if len(sys.argv) > 1 else '/repo')
import numpy as np
from scipy.stats import norm
import chi


class Toy(chi.MechanisticModel):
    """One-parameter analytic model y(t) = p * t."""
    def __init__(self):
        super().__init__()
        self._s = False

    def enable_sensitivities(self, enabled, parameter_names=None):
        self._s = bool(enabled)

    def has_sensitivities(self):
        return self._s

    def n_outputs(self):
        return 1

    def n_parameters(self):
        return 1

    def outputs(self):
        return ['y']

    def parameters(self):
        return ['p']

    def simulate(self, parameters, times):
        t = np.asarray(times, dtype=float)
        y = (parameters[0] * t)[np.newaxis, :]
        if self._s:
            return y, t[:, np.newaxis, np.newaxis]
        return y


times = [0.5, 1.0, 1.5]
data = [[0.4, 0.9, 1.7], [0.2, 0.8, 1.1]]
all_lls = [
    chi.LogLikelihood(Toy(), chi.GaussianErrorModel(), d, times) for d in data]

bad = False
mu = np.array([1.0, 0.8])
sd = np.array([0.5, 0.3])


def reference(lls, eta, transform):
    score = np.sum(norm.logpdf(eta))
    for ll, e in zip(lls, eta):
        score += ll(transform(mu + sd * e))
    return score


cases = [
    ('GaussianModel(centered=False)',
        lambda: chi.GaussianModel(n_dim=2, centered=False), lambda x: x),
    ('LogNormalModel(centered=False)',
        lambda: chi.LogNormalModel(n_dim=2, centered=False), np.exp),
    ('ReducedPopulationModel(GaussianModel(centered=False))',
        lambda: chi.ReducedPopulationModel(
            chi.GaussianModel(n_dim=2, centered=False)), lambda x: x),
]
for label, make, transform in cases:
    for n_ids in [1, 2]:
        lls = all_lls[:n_ids]
        eta = np.array([[0.3, 0.2], [-0.4, 0.6]])[:n_ids]
        vec = list(eta.flatten()) + list(mu) + list(sd)
        ref = reference(lls, eta, transform)

        plain = chi.HierarchicalLogLikelihood(lls, make())(vec)
        covariates = np.arange(1, n_ids + 1, dtype=float).reshape(n_ids, 1)
        for kind, cov in [
                ('array', covariates), ('nested list', covariates.tolist())]:
            try:
                hll = chi.HierarchicalLogLikelihood(
                    lls, make(), covariates=cov)
                got = hll(vec)
                s1 = hll.evaluateS1(np.array(vec))[0]
            except Exception as e:
                got = 'raises %r' % e
                s1 = None
            ok = isinstance(got, float) and abs(got - ref) < 1e-9
            print('%s, n_ids=%d, covariates as %s:\n   reference=%.6f '
                  'no-covariates=%.6f with-covariates=%s '
                  '(evaluateS1 score: %s)  %s' % (
                      label, n_ids, kind, ref, plain, got, s1,
                      'ok' if ok else 'VIOLATION'))
            bad = bad or not ok

# Same input is fine as soon as the model is wrapped in a composed model
pop = chi.ComposedPopulationModel([chi.GaussianModel(n_dim=2, centered=False)])
hll = chi.HierarchicalLogLikelihood(
    all_lls, pop, covariates=np.array([[1.0], [2.0]]))
eta = np.array([[0.3, 0.2], [-0.4, 0.6]])
print('composed wrapper with the same covariates:',
      hll(list(eta.flatten()) + list(mu) + list(sd)),
      reference(all_lls, eta, lambda x: x))

sys.exit(1 if bad else 0)
