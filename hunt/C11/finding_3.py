# C11 finding 3: names given with set_parameter_names / set_output_names survive
# set_administration only when the number of states happens to stay the same.  Whenever a dose
# compartment is added or removed (direct <-> indirect, indirect -> indirect) all parameter AND
# output names are silently reset to the myokit defaults, so the names of a model depend on the
# order of the configuration calls and not on the configuration.
import sys
sys.path.insert(0, '/tmp/seedhelp')
sys.path.insert(0, sys.argv[1])
import refsim; refsim.install()
import chi
from chi.library import ModelLibrary


def new_model():
    m = ModelLibrary().one_compartment_pk_model()
    m.set_parameter_names({'global.elimination_rate': 'k_e', 'central.size': 'V'})
    m.set_output_names({'central.drug_concentration': 'Conc'})
    return m


def kept(m):
    return ('k_e' in m.parameters() and 'V' in m.parameters(),
            m.outputs() == ['Conc'])


histories = {
    'rename, direct': [True],
    'rename, indirect': [False],
    'rename, direct, direct': [True, True],
    'rename, direct, indirect': [True, False],
    'rename, indirect, direct': [False, True],
    'rename, indirect, indirect': [False, False],
}
results = {}
for label, route in histories.items():
    m = new_model()
    for direct in route:
        m.set_administration('central', direct=direct)
    results[label] = kept(m)
    print('%-28s parameter names kept: %-5s output names kept: %-5s  %s %s' % (
        label, results[label][0], results[label][1], m.parameters(), m.outputs()))

# Reference: the same net configuration with the renaming done last
ref = ModelLibrary().one_compartment_pk_model()
ref.set_administration('central', direct=False)
ref.set_parameter_names({'global.elimination_rate': 'k_e', 'central.size': 'V'})
ref.set_output_names({'central.drug_concentration': 'Conc'})
m = new_model()
m.set_administration('central', direct=False)
print('indirect then rename:', ref.parameters(), ref.outputs())
print('rename then indirect:', m.parameters(), m.outputs())

bad = []
if len(set(results.values())) != 1:
    bad.append('whether names survive set_administration depends on the '
               'route / call history: %s' % results)
if (ref.parameters(), ref.outputs()) != (m.parameters(), m.outputs()):
    bad.append('same net configuration, different parameter / output names')
if bad:
    print('VIOLATION:')
    for line in bad:
        print('  -', line)
    sys.exit(1)
print('names depend on the configuration only')
sys.exit(0)
