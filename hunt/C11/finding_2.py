# C11 finding 2: PKPDModel.set_dosing_regimen(protocol) keeps a reference to the caller's
# myokit.Protocol (and dosing_regimen() hands the internal object out), while the simulator works
# on its own clone.  Changing the protocol object afterwards (e.g. to reuse it for the next
# model) changes the regimen the model REPORTS but not the one its simulations APPLY; the next
# unrelated configuration call (enable_sensitivities, set_administration, copy) silently
# switches the simulations to the changed regimen.
import sys
sys.path.insert(0, '/tmp/seedhelp')
sys.path.insert(0, sys.argv[1])
import refsim; refsim.install()
import numpy as np
import myokit
import chi
from chi.library import ModelLibrary

times = [0.5, 1, 2, 3.5, 5]
psi = [0.0, 2.0, 1.0]


def events(p):
    return [(e.level(), e.start(), e.duration(), e.period(), e.multiplier())
            for e in p.events()]


def fresh_with(protocol):
    f = ModelLibrary().one_compartment_pk_model()
    f.set_administration('central')
    f.set_dosing_regimen(protocol.clone())
    return f


bad = []

# (a) the caller's protocol object is changed after it was handed over
protocol = myokit.Protocol()
protocol.schedule(level=3, start=0.2, duration=0.5)
m = ModelLibrary().one_compartment_pk_model()
m.set_administration('central')
m.set_dosing_regimen(protocol)
before = m.simulate(psi, times)
protocol.schedule(level=10, start=2, duration=0.5)   # caller reuses his object
reported = m.dosing_regimen()
after = m.simulate(psi, times)
expected = fresh_with(reported).simulate(psi, times)
print('(a) reported regimen :', events(reported))
print('    simulated        :', after[0])
print('    reported -> fresh :', expected[0])
if not np.allclose(after, expected, rtol=1e-6, atol=1e-9):
    bad.append('(a) the reported regimen is not the one the simulation applies')
m.enable_sensitivities(True)
m.enable_sensitivities(False)      # net configuration unchanged
again = m.simulate(psi, times)
print('    after sens on/off:', again[0])
if not np.allclose(again, after, rtol=1e-6, atol=1e-9):
    bad.append('(a) toggling sensitivities on and off changed the simulation')

# (b) the object returned by dosing_regimen() is changed
m = ModelLibrary().one_compartment_pk_model()
m.set_administration('central')
m.set_dosing_regimen(2, start=0.2, duration=0.5)
m.dosing_regimen().schedule(level=10, start=2, duration=0.5)
reported = m.dosing_regimen()
sim = m.simulate(psi, times)
expected = fresh_with(reported).simulate(psi, times)
print('(b) reported regimen :', events(reported))
print('    simulated        :', sim[0])
print('    reported -> fresh :', expected[0])
if not np.allclose(sim, expected, rtol=1e-6, atol=1e-9):
    bad.append('(b) the reported regimen is not the one the simulation applies')
c = m.copy()
if not np.allclose(c.simulate(psi, times), sim, rtol=1e-6, atol=1e-9):
    bad.append('(b) a copy simulates differently from its original')

if bad:
    print('VIOLATION:')
    for line in bad:
        print('  -', line)
    sys.exit(1)
print('reported and applied regimen agree')
sys.exit(0)
