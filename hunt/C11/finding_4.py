# C11 finding 4: ReducedMechanisticModel caches the parameter names and count of the wrapped
# model at construction and never refreshes them.  The wrapper has no set_administration, so the
# route of administration of a wrapped PKPDModel can only be (re)configured on the shared model
# (reduced.mechanistic_model() or the caller's own reference).  After an indirect route is set
# this way the wrapper keeps reporting the old parameters, and simulate() cannot be called with
# n_parameters() values any more (direct routes, which leave the count unchanged, work fine).
import sys
sys.path.insert(0, '/tmp/seedhelp')
sys.path.insert(0, sys.argv[1])
import refsim; refsim.install()
import numpy as np
import chi
from chi.library import ModelLibrary

times = [0.5, 1, 2, 3.5, 5]


def fresh():
    m = ModelLibrary().one_compartment_pk_model()
    m.set_administration('central', direct=False)
    r = chi.ReducedMechanisticModel(m)
    r.fix_parameters({'central.size': 2})
    r.set_dosing_regimen(3, start=0.2, period=1)
    return r


# Same net configuration, but the wrapper is created first
r = chi.ReducedMechanisticModel(ModelLibrary().one_compartment_pk_model())
r.fix_parameters({'central.size': 2})
r.mechanistic_model().set_administration('central', direct=True)
r.set_dosing_regimen(3, start=0.2, period=1)
ok_direct = r.simulate([0.1, 0.7], times)    # works: count unchanged
r.mechanistic_model().set_administration('central', direct=False)

f = fresh()
print('wrapped model   :', r.mechanistic_model().parameters())
print('history  wrapper:', r.n_parameters(), r.parameters())
print('fresh    wrapper:', f.n_parameters(), f.parameters())

bad = []
if list(r.parameters()) != list(f.parameters()) or \
        r.n_parameters() != f.n_parameters():
    bad.append('parameter names / count differ from a freshly created '
               'wrapper with the same configuration')
psi = list(0.3 + 0.4 * np.arange(f.n_parameters()))
expected = f.simulate(psi, times)
for n in sorted(set([r.n_parameters(), f.n_parameters()])):
    try:
        out = r.simulate(list(0.3 + 0.4 * np.arange(n)), times)
        same = n == len(psi) and np.allclose(out, expected, rtol=1e-6)
        print('simulate with %d values: ok, equal to fresh: %s' % (n, same))
        if not same:
            bad.append('simulate with %d values differs from fresh' % n)
    except Exception as e:
        print('simulate with %d values: %r' % (n, e))
        bad.append('simulate with %d values raises %r' % (n, e))

if bad:
    print('VIOLATION:')
    for line in bad:
        print('  -', line)
    sys.exit(1)
print('wrapper follows the configuration of the wrapped model')
sys.exit(0)
