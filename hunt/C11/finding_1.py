# C11 finding 1: a set_administration call that fails half-way (indirect -> direct while the
# dose-compartment amount is a selected output) leaves the model in a state that no fresh model
# can have: administration() and parameters() disagree, the outputs are silently reset and the
# reported dosing regimen is no longer the one the simulations apply.
import sys
sys.path.insert(0, '/tmp/seedhelp')
sys.path.insert(0, sys.argv[1])
import refsim; refsim.install()
import numpy as np
import chi
from chi.library import ModelLibrary

times = [0.5, 1, 2, 3.5, 5]


def events(p):
    if p is None:
        return None
    return [(e.level(), e.start(), e.duration(), e.period(), e.multiplier())
            for e in p.events()]


m = ModelLibrary().one_compartment_pk_model()
m.set_administration('central', direct=False)
m.set_dosing_regimen(2, start=0.2, period=1)
m.set_outputs(['dose.drug_amount', 'central.drug_concentration'])   # valid

raised = None
try:
    m.set_administration('central', direct=True)    # valid call
except Exception as e:      # raising is acceptable, corrupting the model is not
    raised = e
print('set_administration(direct=True) raised:', repr(raised))

# Whatever happened, the model has to be *some* consistently configured model:
# rebuild a fresh model from what the model reports about itself.
adm = m.administration()
print('administration():', adm)
print('parameters():    ', m.parameters())
print('outputs():       ', m.outputs())
print('dosing_regimen():', events(m.dosing_regimen()))

fresh = ModelLibrary().one_compartment_pk_model()
fresh.set_administration(adm['compartment'], direct=adm['direct'])
fresh.set_dosing_regimen(m.dosing_regimen().clone())
bad = []
try:
    fresh.set_outputs(m.outputs())
except Exception as e:
    bad.append('outputs() %s are not valid for a model with administration %s'
               % (m.outputs(), adm))
if fresh.parameters() != m.parameters():
    bad.append(
        'parameters() %s are not those of a model with administration %s (%s)'
        % (m.parameters(), adm, fresh.parameters()))
if not bad:
    p = list(0.5 + 0.3 * np.arange(m.n_parameters()))
    a = np.asarray(m.simulate(p, times))
    b = np.asarray(fresh.simulate(p, times))
    if a.shape != b.shape or not np.allclose(a, b, rtol=1e-6, atol=1e-9):
        bad.append('simulation differs from a fresh model with the reported '
                   'administration / regimen / outputs')
else:
    # show that the reported regimen is not applied either
    ref = ModelLibrary().one_compartment_pk_model()
    ref.set_outputs(m.outputs())
    p = list(0.5 + 0.3 * np.arange(m.n_parameters()))
    try:
        a = np.asarray(m.simulate(p, times))
        b = np.asarray(ref.simulate(p, times))    # model WITHOUT any dosing
        if a.shape == b.shape and np.allclose(a, b):
            bad.append('reported regimen %s is not applied: simulation equals '
                       'that of an undosed model' % events(m.dosing_regimen()))
    except Exception as e:
        bad.append('simulate fails: %r' % e)

if bad:
    print('VIOLATION:')
    for line in bad:
        print('  -', line)
    sys.exit(1)
print('model is consistent')
sys.exit(0)
