"""
C10 finding 1: dose rows of a dataset that overlap in time (an infusion with a
bolus given while the infusion is still running) are not reproduced: the later
dose event switches the running infusion off, so the individual receives less
drug than the sum of its dose rows.
"""
import sys
sys.path.insert(0, '/tmp/seedhelp')
sys.path.insert(0, sys.argv[1])
import refsim; refsim.install()  # noqa
import warnings
warnings.filterwarnings('ignore')
import numpy as np
import pandas as pd
import pints
import chi
import chi.library


def expected_cumulative(events, t):
    return sum(a * min(max((t - s) / d, 0.), 1.) for s, d, a in events)


# Individual 1: 6 mg infused over 3 days from t=0, plus a 1 mg bolus (no
# duration -> documented default 0.01) on day 1, i.e. during the infusion.
dose_rows = [(0.0, 3.0, 6.0), (1.0, np.nan, 1.0)]
rows = [dict(ID=1, Time=t, Observable='A', Value=1.0, Dose=np.nan,
             Duration=np.nan) for t in [0.5, 1.5, 2, 4, 8]]
rows += [dict(ID=1, Time=t, Observable=np.nan, Value=np.nan, Dose=a,
              Duration=d) for t, d, a in dose_rows]
data = pd.DataFrame(rows)

failed = False
for direct in [True, False]:
    model = chi.library.ModelLibrary().one_compartment_pk_model()
    model.set_administration('central', direct=direct)
    outputs = ['central.drug_amount'] + ([] if direct else ['dose.drug_amount'])
    model.set_outputs(['central.drug_amount'])
    problem = chi.ProblemModellingController(model, [chi.GaussianErrorModel()])
    problem.set_data(
        data, output_observable_dict={'central.drug_amount': 'A'})
    problem.set_log_prior(pints.ComposedLogPrior(*[
        pints.UniformLogPrior(0, 10)] * problem.get_n_parameters()))
    posterior = problem.get_log_posterior(individual='1')
    m = posterior.get_log_likelihood().get_submodels()['Mechanistic model']
    m.set_outputs(outputs)

    # No elimination: total drug amount in the system = cumulative input
    names = m.parameters()
    values = {'central.drug_amount': 0, 'dose.drug_amount': 0,
              'central.size': 1, 'dose.absorption_rate': 2,
              'global.elimination_rate': 0}
    times = np.array([0.5, 1.0, 1.005, 1.01, 2.0, 3.0, 5.0, 10.0])
    simulated = m.simulate([values[n] for n in names], times).sum(axis=0)
    events = [(s, 0.01 if np.isnan(d) else d, a) for s, d, a in dose_rows]
    expected = np.array([expected_cumulative(events, t) for t in times])

    print('route direct=%s' % direct)
    print('  time                     ', times)
    print('  cumulative input expected', np.round(expected, 4))
    print('  cumulative input simulated', np.round(simulated, 4))
    if np.max(np.abs(simulated - expected)) > 1e-6:
        failed = True

if failed:
    print('VIOLATION: the individual is scheduled to receive 7 (6 infused + 1 '
          'bolus) but the simulation delivers 3: the bolus row deactivates the '
          'running infusion.')
    sys.exit(1)
print('OK')
sys.exit(0)
