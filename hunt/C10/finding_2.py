"""
C10 finding 2: ProblemModellingController leaks the dosing regimen of the
last individual it built a log-likelihood for. After set_data with a dataset
that carries no dose information (dose_key=None, as documented for datasets
without dose columns), the individuals of the new dataset are simulated with
the doses of an individual of the PREVIOUS dataset; get_predictive_model()
reports that foreign regimen too.
"""
import sys
sys.path.insert(0, '/tmp/seedhelp')
sys.path.insert(0, sys.argv[1])
import refsim; refsim.install()  # noqa
import warnings
warnings.filterwarnings('ignore')
import numpy as np
import pandas as pd
import pints
import chi
import chi.library


def dataset(ids, doses):
    rows = []
    for i in ids:
        rows += [dict(ID=i, Time=t, Observable='A', Value=1.0 + t,
                      Dose=np.nan, Duration=np.nan) for t in [0.5, 1, 2, 4, 8]]
        rows += [dict(ID=i, Time=t, Observable=np.nan, Value=np.nan, Dose=a,
                      Duration=d) for t, a, d in doses.get(i, [])]
    return pd.DataFrame(rows)


def set_prior(problem):
    problem.set_log_prior(pints.ComposedLogPrior(*[
        pints.UniformLogPrior(0, 10)] * problem.get_n_parameters()))


def controller():
    model = chi.library.ModelLibrary().one_compartment_pk_model()
    model.set_administration('central', direct=True)
    model.set_outputs(['central.drug_amount'])
    return chi.ProblemModellingController(model, [chi.GaussianErrorModel()])


treated = dataset([1, 2], {1: [(0, 2.0, 1.0)], 2: [(1, 5.0, 0.5), (3, 5.0, 0.5)]})
control = dataset([7, 8], {})[['ID', 'Time', 'Observable', 'Value']]
obs_map = {'central.drug_amount': 'A'}
times = np.linspace(0, 10, 11)
failed = False

# History: treated group first, then the control group with the same controller
problem = controller()
problem.set_data(treated, output_observable_dict=obs_map)
set_prior(problem)
for _id in ['1', '2']:
    problem.get_log_posterior(individual=_id)

problem.set_data(
    control, output_observable_dict=obs_map, dose_key=None,
    dose_duration_key=None)
set_prior(problem)
print('get_dosing_regimens() for the control data:',
      problem.get_dosing_regimens())
for _id in ['7', '8']:
    posterior = problem.get_log_posterior(individual=_id)
    m = posterior.get_log_likelihood().get_submodels()['Mechanistic model']
    # elimination rate 0: final amount = cumulative input
    received = m.simulate([0, 1, 0], times)[0, -1]
    regimen = m.dosing_regimen()
    n_events = 0 if regimen is None else len(list(regimen.events()))
    print('control individual %s (no dose rows): %d dose events applied, '
          'drug received %.3f' % (_id, n_events, received))
    if abs(received) > 1e-8:
        failed = True

# Reference: a fresh controller with the same control data
fresh = controller()
fresh.set_data(
    control, output_observable_dict=obs_map, dose_key=None,
    dose_duration_key=None)
set_prior(fresh)
m = fresh.get_log_posterior(individual='7').get_log_likelihood(
    ).get_submodels()['Mechanistic model']
print('fresh controller, individual 7: drug received %.3f'
      % m.simulate([0, 1, 0], times)[0, -1])

# Same leak seen through the predictive model
problem = controller()
problem.set_data(treated, output_observable_dict=obs_map)
set_prior(problem)
before = problem.get_predictive_model().get_dosing_regimen()
problem.get_log_posterior(individual='2')
after = problem.get_predictive_model().get_dosing_regimen()
print('predictive model regimen before get_log_posterior:', before)
print('predictive model regimen after get_log_posterior:\n', after)
if (before is None) != (after is None):
    failed = True

if failed:
    print('VIOLATION: individuals without any dose rows receive the doses of '
          'individual 2 of the previously set dataset.')
    sys.exit(1)
print('OK')
sys.exit(0)
