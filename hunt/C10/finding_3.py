"""
C10 finding 3: set_dosing_regimen(protocol) keeps a reference to the caller's
myokit.Protocol for reporting, while the simulator receives a clone. When the
caller goes on using the protocol object (e.g. schedules a further dose to
build the next scenario), the regimen table of the predictive model lists dose
events which the simulation never applies. The object handed out by
PKPDModel.dosing_regimen() has the same problem.
"""
import sys
sys.path.insert(0, '/tmp/seedhelp')
sys.path.insert(0, sys.argv[1])
import refsim; refsim.install()  # noqa
import warnings
warnings.filterwarnings('ignore')
import numpy as np
import myokit
import chi
import chi.library


def expected_cumulative(events, t):
    return sum(a * min(max((t - s) / d, 0.), 1.) for s, d, a in events)


model = chi.library.ModelLibrary().one_compartment_pk_model()
model.set_administration('central', direct=True)
model.set_outputs(['central.drug_amount'])
predictive_model = chi.PredictiveModel(model, [chi.GaussianErrorModel()])

# Scenario 1: a single dose of 1 at t=1
protocol = myokit.Protocol()
protocol.schedule(level=2.0, start=1.0, duration=0.5)
predictive_model.set_dosing_regimen(protocol)

# The caller prepares scenario 2 with the same object (not yet set)
protocol.schedule(level=4.0, start=3.0, duration=0.5)

times = np.linspace(0, 10, 41)
table = predictive_model.get_dosing_regimen(final_time=times[-1])
events = [(r.Time, r.Duration, r.Dose) for r in table.itertuples()]
expected = np.array([expected_cumulative(events, t) for t in times])
# elimination rate 0 and (almost) no noise: amount = cumulative input
simulated = predictive_model.sample(
    [0, 1, 0, 1e-9], times, seed=1, return_df=False)[0, :, 0]

print('regimen table reported by the predictive model:')
print(table)
print('cumulative input according to the table at t=10: %.3f' % expected[-1])
print('cumulative input simulated at t=10:              %.3f' % simulated[-1])
failed = np.max(np.abs(expected - simulated)) > 1e-4

# Same aliasing through the getter of the mechanistic model
model.set_dosing_regimen(dose=1, start=1, duration=0.5)
regimen = model.dosing_regimen()
regimen.schedule(level=4.0, start=3.0, duration=0.5)
n_reported = len(list(model.dosing_regimen().events()))
received = model.simulate([0, 1, 0], times)[0, -1]
print('PKPDModel.dosing_regimen() reports %d events (total 3.0), simulation '
      'delivers %.3f' % (n_reported, received))
if n_reported == 2 and abs(received - 3.0) > 1e-6:
    failed = True

if failed:
    print('VIOLATION: the reported regimen lists a dose at t=3 that the '
          'simulation does not apply.')
    sys.exit(1)
print('OK')
sys.exit(0)
