"""
C10 finding 4: a dose count of num=0 is not "no doses" but collides with
myokit's sentinel for "repeat forever": set_dosing_regimen(dose, period=p,
num=0) administers the dose indefinitely, and the regimen table lists all of
them.
"""
import sys
sys.path.insert(0, '/tmp/seedhelp')
sys.path.insert(0, sys.argv[1])
import refsim; refsim.install()  # noqa
import warnings
warnings.filterwarnings('ignore')
import numpy as np
import chi
import chi.library

model = chi.library.ModelLibrary().one_compartment_pk_model()
model.set_administration('central', direct=True)
model.set_outputs(['central.drug_amount'])
predictive_model = chi.PredictiveModel(model, [chi.GaussianErrorModel()])

times = np.linspace(0, 10, 41)
failed = False
for num in [3, 2, 1, 0]:
    try:
        predictive_model.set_dosing_regimen(
            dose=2, start=1, duration=0.5, period=2, num=num)
    except ValueError as e:
        # Rejecting num=0 would be a legitimate way to hold the property
        print('num=%d rejected: %s' % (num, e))
        continue
    table = predictive_model.get_dosing_regimen(final_time=times[-1])
    n_listed = 0 if table is None else len(table)
    # elimination rate 0 and (almost) no noise: amount = cumulative input
    received = predictive_model.sample(
        [0, 1, 0, 1e-9], times, seed=1, return_df=False)[0, -1, 0]
    print('num=%d: %d dose events listed up to t=10, drug received %.3f '
          '(scheduled %.3f)' % (num, n_listed, received, 2 * num))
    if abs(received - 2 * num) > 1e-4 or n_listed != num:
        failed = True

if failed:
    print('VIOLATION: num=0 doses delivers a dose every period without end.')
    sys.exit(1)
print('OK')
sys.exit(0)
