"""
get_covariate_names() hands out the internal list of covariate names.

LinearCovariateModel.get_covariate_names() (and therefore
CovariatePopulationModel / ReducedPopulationModel / ProblemModellingController
.get_covariate_names()) return the list object the model itself uses to build
its parameter names.  A caller who reorders / edits the list he got back
silently relabels the beta parameters: 'Mean Dim. 1 Age' becomes
'Mean Dim. 1 Weight' although that beta still multiplies the first covariate
column, i.e. the parameter names no longer identify the covariate each beta
acts on.  (get_dim_names / get_parameter_names return copies.)
"""
import sys
sys.path.insert(0, sys.argv[1])
import numpy as np
import chi

bad = []

model = chi.CovariatePopulationModel(
    chi.GaussianModel(n_dim=1),
    chi.LinearCovariateModel(n_cov=2, cov_names=['Age', 'Weight']))
model.set_population_parameters([[0, 0]])
names_before = model.get_parameter_names()

# The caller sorts his list of covariate names for display
cov_names = model.get_covariate_names()
cov_names.sort(reverse=True)

names_after = model.get_parameter_names()
if names_after != names_before:
    bad.append(
        'parameter names changed from %s to %s after the caller sorted the '
        'list returned by get_covariate_names()' % (names_before, names_after))

# Which covariate does the parameter called '... Age' act on now?
idx = [i for i, n in enumerate(names_after) if n.endswith('Age')][0]
theta = np.zeros(model.n_parameters())
theta[1] = 1.0
theta[idx] = 1.0
# covariate columns in documented order (Age, Weight)
covariates = np.array([[10.0, 0.0]])   # Age = 10, Weight = 0
psi = model.compute_individual_parameters(
    theta, np.array([[0.0]]), covariates)
nc = chi.CovariatePopulationModel(
    chi.GaussianModel(n_dim=1, centered=False),
    chi.LinearCovariateModel(n_cov=2, cov_names=['Age', 'Weight']))
nc.set_population_parameters([[0, 0]])
mean_shift = nc.compute_individual_parameters(
    theta, np.array([[0.0]]), covariates)[0, 0]
if not np.isclose(mean_shift, 10.0):
    bad.append(
        "the parameter named %r does not act on covariate 'Age': mean shift "
        "%s for Age=10, Weight=0" % (names_after[idx], mean_shift))

# Same through the wrappers
model = chi.CovariatePopulationModel(
    chi.GaussianModel(n_dim=1),
    chi.LinearCovariateModel(n_cov=2, cov_names=['Age', 'Weight']))
reduced = chi.ReducedPopulationModel(model)
before = reduced.get_parameter_names()
reduced.get_covariate_names().pop()
try:
    after = reduced.get_parameter_names()
    if after != before:
        bad.append('reduced model names changed: %s -> %s' % (before, after))
except Exception as e:
    bad.append(
        'get_parameter_names() raises %r after the caller shortened the list '
        'returned by get_covariate_names()' % (e,))

if bad:
    print('PROPERTY VIOLATED')
    for b in bad:
        print(' -', b)
    sys.exit(1)
print('property holds')
sys.exit(0)
