"""
CovariatePopulationModel does not take over the number of modelled individuals
(and the special-dimension bookkeeping) of the population model it wraps.

HeterogeneousModel(n_ids=3) wrapped in a CovariatePopulationModel reports
n_ids() == 1 although it has 3 * n_dim heterogeneous parameters.  A
ComposedPopulationModel built from it therefore believes that one individual
is modelled and compute_sensitivities(reduce=True) / flat-eta transforms fail,
while the same composite built from the bare HeterogeneousModel (the model the
covariate model has to coincide with for beta = 0) works.
get_special_dims() keeps the parameter range of the construction-time n_ids.
"""
import sys
sys.path.insert(0, sys.argv[1])
import numpy as np
import chi

bad = []

n_ids = 3
het = chi.HeterogeneousModel(n_dim=1, n_ids=n_ids)
cpm = chi.CovariatePopulationModel(het, chi.LinearCovariateModel(n_cov=1))

# 1. number of modelled individuals
if cpm.n_ids() != het.n_ids():
    bad.append('n_ids(): covariate model reports %d, wrapped model %d'
               % (cpm.n_ids(), het.n_ids()))

# 2. composite with beta = 0 has to coincide with composite of the bare model
ref = chi.ComposedPopulationModel(
    [chi.HeterogeneousModel(n_dim=1, n_ids=n_ids), chi.GaussianModel(1)])
pop = chi.ComposedPopulationModel([cpm, chi.GaussianModel(1)])
if pop.n_ids() != ref.n_ids():
    bad.append('composite n_ids(): %d instead of %d'
               % (pop.n_ids(), ref.n_ids()))

theta_h = np.array([1.0, 2.0, 3.0])
beta = np.zeros(3)
gauss = np.array([0.5, 1.2])
cov = np.array([[1.0], [2.0], [3.0]])
psi = np.array([[1.0, 0.3], [2.0, 0.4], [3.0, 0.5]])
dl = np.array([[0.1, 0.2], [0.3, 0.4], [0.5, 0.6]])

s_ref, d_ref = ref.compute_sensitivities(
    np.hstack([theta_h, gauss]), psi, dlogp_dpsi=dl, reduce=True)
# layout of reference: [psi_gauss (3), theta_h (3), mean, std]
try:
    s, d = pop.compute_sensitivities(
        np.hstack([theta_h, beta, gauss]), psi, covariates=cov,
        dlogp_dpsi=dl, reduce=True)
    # layout: [psi_gauss (3), theta_h (3), beta (3), mean, std]
    expected = np.hstack([
        d_ref[:6], dl[:, 0] * cov[:, 0], d_ref[6:]])
    if not (np.isclose(s, s_ref) and d.shape == expected.shape
            and np.allclose(d, expected)):
        bad.append('reduced sensitivities differ: %s vs %s' % (d, expected))
except Exception as e:
    bad.append(
        'ComposedPopulationModel([Cov(Heterogeneous(n_ids=3)), Gaussian])'
        '.compute_sensitivities(reduce=True) raises %r (bare heterogeneous '
        'composite returns %s)' % (e, d_ref))

try:
    eta = np.array([0.3, 0.4, 0.5])
    out = pop.compute_individual_parameters(
        np.hstack([theta_h, beta, gauss]), eta, covariates=cov)
    exp = ref.compute_individual_parameters(np.hstack([theta_h, gauss]), eta)
    if not np.allclose(out, exp):
        bad.append('individual parameters differ: %s vs %s' % (out, exp))
except Exception as e:
    bad.append('flat eta transform of the composite raises %r' % (e,))

# 3. special dimensions after the number of individuals changed
cpm2 = chi.CovariatePopulationModel(
    chi.HeterogeneousModel(n_dim=2), chi.LinearCovariateModel(1))
cpm2.set_n_ids(3)
h2 = chi.HeterogeneousModel(n_dim=2)
h2.set_n_ids(3)
if cpm2.get_special_dims()[0][0][:2] != h2.get_special_dims()[0][0][:2] or \
        cpm2.get_special_dims()[0][0][3] < h2.get_special_dims()[0][0][3]:
    bad.append(
        'get_special_dims() after set_n_ids(3): %s, wrapped model: %s'
        % (cpm2.get_special_dims()[0], h2.get_special_dims()[0]))

if bad:
    print('PROPERTY VIOLATED')
    for b in bad:
        print(' -', b)
    sys.exit(1)
print('property holds')
sys.exit(0)
