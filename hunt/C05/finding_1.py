# TruncatedGaussianModel: log-likelihood / sensitivities lose all accuracy
# (and become +inf / -inf) for mu / sigma << 0, although these parameter
# values are in the support (mu real, sigma > 0, psi > 0).
import sys
sys.path.insert(0, sys.argv[1])
import numpy as np
from scipy.special import log_ndtr
import chi


def reference(mu, sigma, psi):
    # documented density: N(psi|mu,sigma) / (1 - Phi(-mu/sigma)), psi > 0
    return np.sum(
        -0.5 * np.log(2 * np.pi * sigma**2)
        - (psi - mu)**2 / (2 * sigma**2)
        - log_ndtr(mu / sigma))


def reference_dmu(mu, sigma, psi, h=1e-5):
    return (reference(mu + h, sigma, psi) - reference(mu - h, sigma, psi)) \
        / (2 * h)


model = chi.TruncatedGaussianModel(n_dim=1)
psi = np.array([[0.5], [0.1], [0.25]])
failed = False
for mu, sigma in [(-3., 1.), (-8., 1.), (-9., 1.), (-20., 2.)]:
    theta = np.array([mu, sigma])
    ref = reference(mu, sigma, psi)
    ll = model.compute_log_likelihood(theta, psi)
    s, dpsi, dtheta = model.compute_sensitivities(theta, psi)
    ref_dmu = reference_dmu(mu, sigma, psi)
    ok = np.isfinite(ll) and np.isfinite(s) \
        and abs(ll - ref) < 1e-6 * max(1, abs(ref)) \
        and abs(s - ref) < 1e-6 * max(1, abs(ref)) \
        and abs(dtheta[0] - ref_dmu) < 1e-4 * max(1, abs(ref_dmu))
    print(
        'mu=%g sigma=%g: documented log-density %.8f | '
        'compute_log_likelihood %s | compute_sensitivities score %s | '
        'd/dmu %s (reference %.6f) -> %s' % (
            mu, sigma, ref, ll, s, dtheta[0], ref_dmu,
            'ok' if ok else 'VIOLATION'))
    failed = failed or not ok

sys.exit(1 if failed else 0)
