# ComposedPopulationModel documents the (n_param_per_dim, n_dim) and
# (n_ids, n_param_per_dim, n_dim) parameter layouts, but slices every layout
# along its first axis as if it was flat. The matrix / tensor layouts of the
# same parameter values raise, or - for one individual - silently score a
# different value.
import sys
sys.path.insert(0, sys.argv[1])
import numpy as np
import chi

failed = False
model = chi.ComposedPopulationModel(
    [chi.GaussianModel(1), chi.GaussianModel(1)])
# mean / std of dim 1: 0.3 / 1.2, of dim 2: 0.9 / 0.7
flat = np.array([0.3, 1.2, 0.9, 0.7])
matrix = np.array([[0.3, 0.9], [1.2, 0.7]])      # (n_param_per_dim, n_dim)
tensor = matrix[np.newaxis].copy()               # (n_ids=1, 2, n_dim)
psi = np.array([[0.5, 1.1]])
ref = model.compute_log_likelihood(flat, psi)
print('Gaussian x Gaussian, one individual')
print('  flat layout  :', ref)
for label, params in [('matrix layout', matrix), ('tensor layout', tensor)]:
    try:
        value = model.compute_log_likelihood(params, psi)
        print('  %s:' % label, value)
        if not np.isclose(value, ref):
            failed = True
    except Exception as e:
        print('  %s: raises' % label, repr(e))
        failed = True

model = chi.ComposedPopulationModel([chi.PooledModel(1), chi.PooledModel(1)])
psi = np.array([[1., 5.]])   # second dimension differs from pooled value 1
ref = model.compute_log_likelihood(np.array([1., 1.]), psi)
print('Pooled x Pooled, one individual, psi_2 != theta_2')
print('  flat layout  :', ref)
for label, params in [
        ('matrix layout', np.array([[1., 1.]])),
        ('tensor layout', np.array([[[1., 1.]]]))]:
    try:
        value = model.compute_log_likelihood(params, psi)
        print('  %s:' % label, value)
        if value != ref:
            failed = True
    except Exception as e:
        print('  %s: raises' % label, repr(e))
        failed = True

print('VIOLATION' if failed else 'ok')
sys.exit(1 if failed else 0)
