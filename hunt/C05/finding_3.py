# ReducedPopulationModel and CovariatePopulationModel do not report the
# number of individuals of the heterogeneous model they wrap (n_ids() is 1),
# so a ComposedPopulationModel built from them is sized for one individual:
# the hierarchical (reduce=True) sensitivities and flat eta layouts fail,
# while the same composition with the unwrapped model works.
import sys
sys.path.insert(0, sys.argv[1])
import numpy as np
import chi

n_ids = 3
psi = np.array([[1., .4], [2., .9], [3., 1.5]])
up = np.array([[.3, -.2], [.1, .4], [-.5, .6]])
failed = False


def check(label, model, theta, **kwargs):
    global failed
    n_b, n_t = model.n_hierarchical_parameters(n_ids)
    print(label, '| n_ids()', model.n_ids(), '| n_parameters()',
          model.n_parameters(), '| n_hierarchical_parameters', (n_b, n_t))
    if model.n_ids() != n_ids:
        failed = True
    ll = model.compute_log_likelihood(theta, psi, **kwargs)
    try:
        s, ds = model.compute_sensitivities(
            theta, psi, dlogp_dpsi=up, reduce=True, **kwargs)
        print('    ll', ll, 'reduced sensitivities', ds)
        if len(ds) != n_b + n_t or s != ll:
            failed = True
    except Exception as e:
        print('    ll', ll, 'reduced sensitivities raise', repr(e))
        failed = True
    try:
        eta = psi[:, 1]  # only the Gaussian dimension has bottom parameters
        ip = model.compute_individual_parameters(theta, eta, **kwargs)
        if not np.array_equal(ip, psi):
            print('    individual parameters', ip)
            failed = True
    except Exception as e:
        print('    flat eta raises', repr(e))
        failed = True


theta = np.array([1., 2., 3., .5, 1.])

# Reference: unwrapped heterogeneous model (works)
model = chi.ComposedPopulationModel([
    chi.HeterogeneousModel(1, n_ids=n_ids), chi.GaussianModel(1)])
check('plain      ', model, theta)
ok_plain = not failed

# Wrapped in a ReducedPopulationModel (nothing fixed)
model = chi.ComposedPopulationModel([
    chi.ReducedPopulationModel(chi.HeterogeneousModel(1, n_ids=n_ids)),
    chi.GaussianModel(1)])
check('reduced    ', model, theta)

# Wrapped in a CovariatePopulationModel (zero covariate effect)
model = chi.ComposedPopulationModel([
    chi.CovariatePopulationModel(
        chi.HeterogeneousModel(1, n_ids=n_ids), chi.LinearCovariateModel(1)),
    chi.GaussianModel(1)])
theta_c = np.array([1., 2., 3., 0., 0., 0., .5, 1.])
check('covariate  ', model, theta_c, covariates=np.ones((n_ids, 1)))

print('VIOLATION' if failed else 'ok')
sys.exit(1 if failed else 0)
