# ComposedPopulationModel caches its parameter counts. Configuring a
# constituent model after composition (fix_parameters of a reduced sub-model,
# set_population_parameters of a covariate sub-model) leaves n_parameters()
# and the lengths of the returned sensitivities stale: the vectors are too
# long and end in uninitialised memory.
import sys
sys.path.insert(0, sys.argv[1])
import numpy as np
import chi

failed = False
psi = np.array([[1., 2.], [.5, 2.], [2., 2.]])
up = np.array([[.3, -.2], [.1, .4], [-.5, .6]])

# (a) reduced sub-model, parameter fixed after composition
reduced = chi.ReducedPopulationModel(chi.GaussianModel(1))
model = chi.ComposedPopulationModel([reduced, chi.PooledModel(1)])
model.set_n_ids(3)
model.get_population_models()[0].fix_parameters({'Std. Dim. 1': 1})
model.set_n_ids(3)  # (what a HierarchicalLogLikelihood would call)

# the same model composed after the parameter has been fixed
r = chi.ReducedPopulationModel(chi.GaussianModel(1))
r.fix_parameters({'Std. Dim. 1': 1})
fresh = chi.ComposedPopulationModel([r, chi.PooledModel(1)])
fresh.set_n_ids(3)

theta = np.array([1., 2.])
names = model.get_parameter_names()
n_b, n_t = model.n_hierarchical_parameters(3)
_, dpsi, dtheta = model.compute_sensitivities(theta, psi, dlogp_dpsi=up)
_, dscore = model.compute_sensitivities(
    theta, psi, dlogp_dpsi=up, reduce=True)
_, _, dtheta_f = fresh.compute_sensitivities(theta, psi, dlogp_dpsi=up)
_, dscore_f = fresh.compute_sensitivities(
    theta, psi, dlogp_dpsi=up, reduce=True)
print('(a) names', names)
print('    n_parameters()', model.n_parameters(), '| expected', len(names))
print('    n_hierarchical_parameters(3)', (n_b, n_t))
print('    dtheta ', dtheta, '| expected', dtheta_f)
print('    reduced', dscore, '| expected', dscore_f)
if model.n_parameters() != len(names) or len(dtheta) != len(names) \
        or len(dscore) != n_b + n_t:
    failed = True

# (b) covariate sub-model, selection changed after composition
cov_model = chi.CovariatePopulationModel(
    chi.GaussianModel(1), chi.LinearCovariateModel(1))
model = chi.ComposedPopulationModel([cov_model, chi.PooledModel(1)])
model.get_population_models()[0].set_population_parameters([[0, 0]])
names = model.get_parameter_names()
theta = np.array([1., 1., .1, 2.])
cov = np.array([[1.]])
_, dpsi, dtheta = model.compute_sensitivities(
    theta, psi[:1], covariates=cov)
print('(b) names', names)
print('    n_parameters()', model.n_parameters(), '| expected', len(names))
print('    len(dtheta)', len(dtheta), '| expected', len(names))
if model.n_parameters() != len(names) or len(dtheta) != len(names):
    failed = True

print('VIOLATION' if failed else 'ok')
sys.exit(1 if failed else 0)
