"""
C16 finding 1: individuals sampled from a CovariatePopulationModel around a
TruncatedGaussianModel are not mutually independent -- exact ties occur.

CovariatePopulationModel.sample draws every individual with a separate call
population_model.sample(params, n_samples=1, seed=<shared Generator>).
TruncatedGaussianModel.sample cannot use a Generator; it replaces it by
seed.integers(0, 1E6) and calls np.random.seed(<that integer>).  Every
individual is therefore the FIRST truncated-normal variate of one of only
10^6 legacy streams, and by the birthday effect individuals collide: they
receive bit-identical values (identical quantiles if their covariates differ).
For a continuous distribution ties have probability zero.
"""
import sys
sys.path.insert(0, sys.argv[1])
import numpy as np
import chi

n = 5000
seed = 1
cov_model = chi.LinearCovariateModel(n_cov=1)
fail = False
for base in [chi.GaussianModel(), chi.LogNormalModel(),
             chi.TruncatedGaussianModel()]:
    model = chi.CovariatePopulationModel(base, cov_model)
    # mu=1, sigma=0.5, no covariate effect
    params = [1., 0.5] + [0.] * (model.n_parameters() - 2)
    psi = model.sample(
        params, covariates=[0.3], n_samples=n, seed=seed)[:, 0]
    vals, counts = np.unique(psi, return_counts=True)
    n_tied = int(np.sum(counts[counts > 1]))
    print('%-24s individuals: %d  distinct values: %d  tied individuals: %d'
          % (type(base).__name__, n, len(vals), n_tied))
    if n_tied > 0:
        fail = True
        ids = np.where(psi == vals[counts > 1][0])[0]
        print('   e.g. individuals', list(ids), 'all have psi =',
              repr(psi[ids[0]]))

# Same through the predictive layer: virtual patients with different
# covariates share the same quantile
model = chi.CovariatePopulationModel(chi.TruncatedGaussianModel(), cov_model)
params = [1., 0.5, 0.2, 0.]
covs = np.linspace(0, 1, n)[:, None]
psi = model.sample(params, covariates=covs, n_samples=n, seed=seed)[:, 0]
mu = 1. + 0.2 * covs[:, 0]
from scipy.stats import truncnorm
u = truncnorm.cdf(psi, a=-mu/0.5, b=np.inf, loc=mu, scale=0.5)
vals, counts = np.unique(np.round(u, 10), return_counts=True)
print('with individual covariates: %d individuals, %d distinct quantiles'
      % (n, len(vals)))
if len(vals) < n:
    fail = True

if fail:
    print('VIOLATION: individuals of one seeded call are tied '
          '(not mutually independent draws)')
    sys.exit(1)
print('property holds')
sys.exit(0)
