"""
C16 finding 3 (minor): integer seeds >= 2**32 are accepted by most sampling
routines (everything built on np.random.default_rng) but rejected with a
ValueError by the routines that still call np.random.seed(seed):
TruncatedGaussianModel.sample, PriorPredictiveModel.sample and all
sample_initial_parameters methods (hence also the inference controllers).
Such seeds are what e.g. np.random.SeedSequence().entropy, time.time_ns() or
hash-derived seeds produce.  The same TruncatedGaussianModel accepts the seed
when it is wrapped in a ComposedPopulationModel.
"""
import sys
import warnings
sys.path.insert(0, sys.argv[1])
import numpy as np
import pints
import chi

warnings.filterwarnings('ignore')


class Line(chi.MechanisticModel):
    def __init__(self):
        super(Line, self).__init__()

    def enable_sensitivities(self, enabled, parameter_names=None):
        pass

    def has_sensitivities(self):
        return False

    def n_outputs(self):
        return 1

    def n_parameters(self):
        return 2

    def outputs(self):
        return ['y']

    def parameters(self):
        return ['a', 'b']

    def simulate(self, parameters, times):
        a, b = parameters
        return np.array([a + b * np.asarray(times, dtype=float)])


seed = 2**32 + 5
times = np.arange(1., 4.)
pred = chi.PredictiveModel(Line(), [chi.GaussianErrorModel()])
prior = pints.ComposedLogPrior(
    *[pints.LogNormalLogPrior(0, 0.3) for _ in range(3)])
ll = chi.LogLikelihood(Line(), chi.GaussianErrorModel(), [1., 2., 3.], times)
ll2 = chi.LogLikelihood(Line(), chi.GaussianErrorModel(), [2., 2., 3.], times)
ll.set_id('a')
ll2.set_id('b')
hll = chi.HierarchicalLogLikelihood(
    [ll, ll2], chi.ComposedPopulationModel([
        chi.GaussianModel(), chi.PooledModel(n_dim=2)]))
hprior = pints.ComposedLogPrior(
    *[pints.LogNormalLogPrior(0, 0.3) for _ in range(4)])
trunc = chi.TruncatedGaussianModel()

calls = [
    ('GaussianErrorModel.sample',
     lambda s: chi.GaussianErrorModel().sample([1.], [1., 2.], 3, seed=s)),
    ('GaussianModel.sample',
     lambda s: chi.GaussianModel().sample([1., 1.], 3, seed=s)),
    ('Composed([TruncatedGaussian]).sample',
     lambda s: chi.ComposedPopulationModel([trunc]).sample(
         [1., 1.], 3, seed=s)),
    ('PredictiveModel.sample',
     lambda s: pred.sample([1., 1., 1.], times, 3, seed=s, return_df=False)),
    ('TruncatedGaussianModel.sample',
     lambda s: trunc.sample([1., 1.], 3, seed=s)),
    ('PriorPredictiveModel.sample',
     lambda s: chi.PriorPredictiveModel(pred, prior).sample(
         times, 3, seed=s).Value.values.astype(float)),
    ('LogPosterior.sample_initial_parameters',
     lambda s: chi.LogPosterior(ll, prior).sample_initial_parameters(
         2, seed=s)),
    ('HierarchicalLogPosterior.sample_initial_parameters',
     lambda s: chi.HierarchicalLogPosterior(
         hll, hprior).sample_initial_parameters(2, seed=s)),
]
fail = False
for label, call in calls:
    try:
        same = np.array_equal(call(seed), call(seed))
        print('%-52s seed=2**32+5 reproducible: %s' % (label, same))
        fail = fail or (not same)
    except Exception as e:
        print('%-52s seed=2**32+5 RAISES %s: %s'
              % (label, type(e).__name__, e))
        fail = True

if fail:
    print('VIOLATION: an integer seed accepted by the other sampling '
          'routines gives no (reproducible) result here')
    sys.exit(1)
print('property holds')
sys.exit(0)
