"""
C16 finding 2: PriorPredictiveModel.sample -- neighbouring integer seeds share
their random streams, so "replicates" generated with seeds s, s+1, s+2, ...
are shifted copies of each other.

The predictive model of sample k is seeded with  base_seed + k  (k = 1..n).
Sample k+1 of seed s and sample k of seed s+1 hence get the identical
measurement-noise stream.  If the population model contains a
TruncatedGaussianModel it gets worse: that model re-seeds the *global* NumPy
generator (from which the prior is sampled) with a number derived from
base_seed + k, so from then on also the prior draws coincide and complete
virtual individuals are bit-identical between the two seeds.
"""
import sys
import warnings
sys.path.insert(0, sys.argv[1])
import numpy as np
import pints
import chi

warnings.filterwarnings('ignore')


class Line(chi.MechanisticModel):
    """y(t) = a + b * t"""
    def __init__(self):
        super(Line, self).__init__()
        self._outputs = ['y']

    def enable_sensitivities(self, enabled, parameter_names=None):
        pass

    def has_sensitivities(self):
        return False

    def n_outputs(self):
        return 1

    def n_parameters(self):
        return 2

    def outputs(self):
        return ['y']

    def parameters(self):
        return ['a', 'b']

    def simulate(self, parameters, times):
        a, b = parameters
        return np.array([a + b * np.asarray(times, dtype=float)])


def table(df):
    d = df[df.Observable == 'y']
    return d.pivot(index='ID', columns='Time', values='Value').sort_index(
        ).values.astype(float)


def detrend(x, times):
    # remove the individual straight line, leaves (mostly) the noise
    out = []
    for row in x:
        out.append(row - np.polyval(np.polyfit(times, row, 1), times))
    return np.array(out)


fail = False
times = np.arange(6.)
n = 40

# --- A: plain PredictiveModel, ordinary priors --------------------------
model = chi.PredictiveModel(Line(), [chi.GaussianErrorModel()])
log_prior = pints.ComposedLogPrior(
    pints.GaussianLogPrior(10, 2), pints.GaussianLogPrior(1, 0.5),
    pints.LogNormalLogPrior(0, 0.3))
prior_pred = chi.PriorPredictiveModel(model, log_prior)
s = 11
x1 = detrend(table(prior_pred.sample(times, n_samples=n, seed=s)), times)
x2 = detrend(table(prior_pred.sample(times, n_samples=n, seed=s + 1)), times)
same = np.corrcoef(x1.ravel(), x2.ravel())[0, 1]
shift = np.corrcoef(x1[1:].ravel(), x2[:-1].ravel())[0, 1]
print('A) residuals of seed %d vs seed %d (%d samples x %d times)'
      % (s, s + 1, n, len(times)))
print('   correlation, same IDs            : %+.3f' % same)
print('   correlation, ID k+1 against ID k : %+.3f   (independent streams: '
      '~0 +- %.2f)' % (shift, 1 / np.sqrt(x1[1:].size)))
if abs(shift) > 0.5:
    fail = True

# exact version: sigma fixed, at t=0 ... use b*t only => output 0 at t=0
model_f = chi.PredictiveModel(Line(), [chi.GaussianErrorModel()])
model_f.fix_parameters({'a': 0., 'Sigma': 1.})
prior_f = chi.PriorPredictiveModel(model_f, pints.GaussianLogPrior(1, 0.5))
y1 = table(prior_f.sample([0.], n_samples=n, seed=s))[:, 0]
y2 = table(prior_f.sample([0.], n_samples=n, seed=s + 1))[:, 0]
n_shared = int(np.sum(y1[1:] == y2[:-1]))
print('   pure noise at t=0: %d of %d values of seed %d reappear bit-identical'
      ' under seed %d' % (n_shared, n, s, s + 1))
if n_shared > 0:
    fail = True

# --- B: population model with a TruncatedGaussianModel ------------------
pop = chi.ComposedPopulationModel([
    chi.TruncatedGaussianModel(), chi.PooledModel(n_dim=2)])
pop_pred = chi.PopulationPredictiveModel(
    chi.PredictiveModel(Line(), [chi.GaussianErrorModel()]), pop)
log_prior = pints.ComposedLogPrior(
    pints.GaussianLogPrior(10, 2), pints.LogNormalLogPrior(0, 0.3),
    pints.GaussianLogPrior(1, 0.5), pints.LogNormalLogPrior(0, 0.3))
prior_pred = chi.PriorPredictiveModel(pop_pred, log_prior)
n = 8
t1 = table(prior_pred.sample(times, n_samples=n, seed=1))
t2 = table(prior_pred.sample(times, n_samples=n, seed=2))
identical = [
    (i + 1, j + 1) for i in range(n) for j in range(n)
    if np.array_equal(t1[i], t2[j])]
print('B) PopulationPredictiveModel with TruncatedGaussianModel, %d virtual '
      'individuals' % n)
print('   seed=1:'); print(np.round(t1, 3))
print('   seed=2:'); print(np.round(t2, 3))
print('   complete individuals shared by seed 1 and seed 2 (ID, ID):',
      identical)
if identical:
    fail = True

if fail:
    print('VIOLATION: different seeds reuse the same random streams')
    sys.exit(1)
print('property holds')
sys.exit(0)
