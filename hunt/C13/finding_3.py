"""
With additive noise (error_on_log_scale=False) a simulated measurement
ybar + sigma * epsilon can be <= 0 for perfectly valid parameter vectors (all
entries inside their support).  With a LogNormalFilter or LogNormalKDEFilter
the posterior then returns NaN from __call__ instead of a log-density:

 * LogNormalKDEFilter: __call__ -> nan, evaluateS1 -> -inf at the same point
   (compute_sensitivities guards with np.isnan(score), compute_log_likelihood
   does not),
 * LogNormalFilter: __call__ -> nan and evaluateS1 -> nan,
 * the same inside a ComposedPopulationFilter.

A log-normal density estimated from non-positive simulated values has no
support anywhere, the library's own convention (LogNormalKDEFilter
.compute_sensitivities, the masked-score branches, the population models) is
-inf.  NaN is not a value of "prior + population + noise + filter
log-likelihood", and value and evaluateS1 score disagree.

Exit code 1 if __call__ returns NaN or differs from the evaluateS1 score.
"""
import sys
sys.path.insert(0, sys.argv[1])

import warnings
import numpy as np
import pints
import chi

warnings.simplefilter('ignore')


class Toy(chi.MechanisticModel):
    # y(t) = a * exp(-b t) + c
    def __init__(self):
        super().__init__()
        self._s = False

    def enable_sensitivities(self, enabled, parameter_names=None):
        self._s = bool(enabled)

    def has_sensitivities(self):
        return self._s

    def n_outputs(self):
        return 1

    def n_parameters(self):
        return 3

    def outputs(self):
        return ['y']

    def parameters(self):
        return ['a', 'b', 'c']

    def simulate(self, parameters, times):
        a, b, c = parameters
        t = np.asarray(times, dtype=float)
        y = (a * np.exp(-b * t) + c)[np.newaxis, :]
        if not self._s:
            return y
        d = np.empty((len(t), 1, 3))
        d[:, 0, 0] = np.exp(-b * t)
        d[:, 0, 1] = -a * t * np.exp(-b * t)
        d[:, 0, 2] = 1
        return y, d


rng = np.random.default_rng(5)
times = [2.0, 0.5, 1.0]
obs = rng.uniform(0.5, 3.0, size=(4, 1, 3))
NS = 4
pop = chi.ComposedPopulationModel([
    chi.PooledModel(n_dim=1), chi.LogNormalModel(n_dim=2)])
# top: pooled a, log mean b, log mean c, log std b, log std c, sigma
prior = pints.ComposedLogPrior(*[pints.GaussianLogPrior(0.5, 2)] * 6)

top = np.array([1.0, 0.0, -1.0, 0.3, 0.3, 0.5])   # noise sigma = 0.5
bottom = np.exp(rng.normal([0.0, -1.0], 0.3, size=(NS, 2)))
eps = rng.normal(0, 1, size=(NS, 1, 3))
eps[2, 0, 0] = -3.0   # a 3-sigma noise draw: y = ~1.2 - 1.5 < 0
x = np.hstack([top, bottom.flatten(), eps.flatten()])

filters = {
    'LogNormalKDEFilter': chi.LogNormalKDEFilter(obs),
    'LogNormalFilter': chi.LogNormalFilter(obs),
    'Composed[LogNormalKDEFilter, GaussianFilter]':
        chi.ComposedPopulationFilter([
            chi.LogNormalKDEFilter(obs[:, :, :1]),
            chi.GaussianFilter(obs[:, :, 1:])]),
    'GaussianFilter (control)': chi.GaussianFilter(obs),
}

failed = False
for label, f in filters.items():
    post = chi.PopulationFilterLogPosterior(
        f, times, Toy(), pop, prior, error_on_log_scale=False, n_samples=NS)
    value = post(x)
    score, _ = post.evaluateS1(x)
    bad = np.isnan(value) or not (value == score or np.isclose(value, score))
    print('%-45s __call__ = %r, evaluateS1 score = %r %s' % (
        label, float(value), float(score), '<-- violation' if bad else ''))
    failed = failed or bad

sys.exit(1 if failed else 0)
