"""
Negative population standard deviation with a NON-CENTRED GaussianModel /
LogNormalModel: PopulationFilterLogPosterior returns NaN (value and
evaluateS1 score) although the log-prior is finite there, whereas the same
vector with the centred parametrisation is scored -inf ("The std. of the
Gaussian distribution is strictly positive").

Mechanism: for centered=False compute_log_likelihood ignores the population
parameters (returns the standard-normal score of eta) and
compute_individual_parameters answers sigma < 0 with an all-NaN psi.
PopulationFilterLogPosterior simulates the mechanistic model with the NaN
parameters and adds the filter's NaN score; in evaluateS1 the NaN filter score
is added to the -inf population score.  A log-posterior must be -inf (or a
number) outside the support, NaN is neither "prior + population + noise +
filter" nor consistent between the two parametrisations.

Exit code 1 if a NaN is returned.
"""
import sys
sys.path.insert(0, sys.argv[1])

import warnings
import numpy as np
import pints
import chi

warnings.simplefilter('ignore')


class Toy(chi.MechanisticModel):
    # y(t) = a * exp(-b t) + c
    def __init__(self):
        super().__init__()
        self._s = False

    def enable_sensitivities(self, enabled, parameter_names=None):
        self._s = bool(enabled)

    def has_sensitivities(self):
        return self._s

    def n_outputs(self):
        return 1

    def n_parameters(self):
        return 3

    def outputs(self):
        return ['y']

    def parameters(self):
        return ['a', 'b', 'c']

    def simulate(self, parameters, times):
        a, b, c = parameters
        t = np.asarray(times, dtype=float)
        y = (a * np.exp(-b * t) + c)[np.newaxis, :]
        if not self._s:
            return y
        d = np.empty((len(t), 1, 3))
        d[:, 0, 0] = np.exp(-b * t)
        d[:, 0, 1] = -a * t * np.exp(-b * t)
        d[:, 0, 2] = 1
        return y, d


rng = np.random.default_rng(2)
times = [2.0, 0.5, 1.0]
obs = rng.uniform(0.5, 3.0, size=(4, 1, 3))
NS = 4
# top: mean a, std a, pooled b, pooled c  (noise scale fixed)
prior = pints.ComposedLogPrior(*[pints.GaussianLogPrior(0.5, 2)] * 4)
top = np.array([1.0, -0.4, 0.5, 0.3])         # std a = -0.4
bottom = rng.uniform(0.2, 1.0, size=(NS, 1))
eps = rng.normal(0, 1, size=(NS, 1, 3))
x = np.hstack([top, bottom.flatten(), eps.flatten()])

failed = False
for cls in [chi.GaussianModel, chi.LogNormalModel]:
    for centered in [True, False]:
        pop = chi.ComposedPopulationModel([
            cls(n_dim=1, centered=centered), chi.PooledModel(n_dim=2)])
        post = chi.PopulationFilterLogPosterior(
            chi.GaussianFilter(obs), times, Toy(), pop, prior, sigma=[0.2],
            n_samples=NS)
        value = post(x)
        score, _ = post.evaluateS1(x)
        bad = bool(np.isnan(value) or np.isnan(score))
        print('%s(centered=%s): log-prior = %.3f, __call__ = %r, '
              'evaluateS1 score = %r %s' % (
                  cls.__name__, centered, prior(top), float(value),
                  float(score), '<-- NaN' if bad else ''))
        failed = failed or bad

sys.exit(1 if failed else 0)
