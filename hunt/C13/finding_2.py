"""
PopulationFilterLogPosterior publishes the same name for two different
positions of its parameter vector.

The free noise scales are named 'Sigma <output name>'. A
TruncatedGaussianModel names its scale parameter 'Sigma <dimension name>' and
the posterior sets the dimension names to the mechanistic parameter names.
Whenever an output of the mechanistic model is a state variable whose initial
value is a model parameter, output name == parameter name (this is the case
for chi's own library models, e.g. tumour_growth_inhibition_model_koch():
parameters()[0] == outputs()[0] == 'global.tumour_volume'), and the population
scale and the noise scale are both published as 'Sigma global.tumour_volume'.
(With include_ids=True they are still identical, because both are top-level
parameters with ID None.)  chi.SamplingController / OptimisationController key
their results by these names, so one of the two parameters is silently
overwritten.

Exit code 1 if two positions share a published name.
"""
import sys
sys.path.insert(0, sys.argv[1])

import numpy as np
import pints
import chi


class Growth(chi.MechanisticModel):
    # Exponential growth V(t) = V0 exp(lambda t); names mirror the SBML models
    # of chi.library: the state 'global.tumour_volume' is the output and its
    # initial value is the first parameter.
    def __init__(self):
        super().__init__()
        self._s = False

    def enable_sensitivities(self, enabled, parameter_names=None):
        self._s = bool(enabled)

    def has_sensitivities(self):
        return self._s

    def n_outputs(self):
        return 1

    def n_parameters(self):
        return 2

    def outputs(self):
        return ['global.tumour_volume']

    def parameters(self):
        return ['global.tumour_volume', 'global.lambda']

    def simulate(self, parameters, times):
        v0, lam = parameters
        t = np.asarray(times, dtype=float)
        y = (v0 * np.exp(lam * t))[np.newaxis, :]
        if not self._s:
            return y
        d = np.empty((len(t), 1, 2))
        d[:, 0, 0] = np.exp(lam * t)
        d[:, 0, 1] = v0 * t * np.exp(lam * t)
        return y, d


rng = np.random.default_rng(0)
obs = rng.uniform(0.5, 2.0, size=(5, 1, 3))
times = [3.0, 1.0, 2.0]
pop = chi.ComposedPopulationModel([
    chi.TruncatedGaussianModel(n_dim=1), chi.PooledModel(n_dim=1)])
# top level: Mu V0, Sigma V0, Pooled lambda, noise sigma
prior = pints.ComposedLogPrior(*[pints.LogNormalLogPrior(0, 0.5)] * 4)
post = chi.PopulationFilterLogPosterior(
    chi.GaussianFilter(obs), times, Growth(), pop, prior, n_samples=4)

names = post.get_parameter_names(include_ids=True)
top = post.get_parameter_names(exclude_bottom_level=True)
print('top-level names:', top)

failed = False
seen = {}
for position, name in enumerate(names):
    if name in seen:
        print('positions %d and %d are both published as %r'
              % (seen[name], position, name))
        failed = True
    seen[name] = position

if failed:
    # Show that the two positions really are different parameters
    x = post.sample_initial_parameters(seed=1)[0]
    i, j = [k for k, n in enumerate(top) if top.count(n) > 1][:2]
    xi = x.copy()
    xi[i] *= 1.5
    xj = x.copy()
    xj[j] *= 1.5
    print('log-posterior at x:', post(x))
    print('after scaling position %d by 1.5: %r' % (i, post(xi)))
    print('after scaling position %d by 1.5: %r' % (j, post(xj)))
    print('dict(zip(names, x)) keeps %d of %d top-level parameters' % (
        len(dict(zip(top, x[:len(top)]))), len(top)))

sys.exit(1 if failed else 0)
