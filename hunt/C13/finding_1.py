"""
PopulationFilterLogPosterior fails for population models whose pooled /
heterogeneous dimensions sit inside a wrapper that is NOT a
CovariatePopulationModel:

  (a) chi.ReducedPopulationModel around a ComposedPopulationModel with a pooled
      dimension (the standard way to fix a population parameter), and
  (b) a ComposedPopulationModel nested inside a ComposedPopulationModel.

Both are handled by HierarchicalLogLikelihood (which asks the population model
for get_special_dims()), but the filter posterior re-detects the special
dimensions itself and only looks at the direct children of a top-level
ComposedPopulationModel.

Exit code 1 when the property (value == prior + population + noise + filter,
exact gradient) is violated.
"""
import sys
sys.path.insert(0, sys.argv[1])

import numpy as np
import pints
from scipy.stats import norm
import chi


class Toy(chi.MechanisticModel):
    # y(t) = a * exp(-b t) + c, analytic sensitivities
    def __init__(self):
        super().__init__()
        self._s = False

    def enable_sensitivities(self, enabled, parameter_names=None):
        self._s = bool(enabled)

    def has_sensitivities(self):
        return self._s

    def n_outputs(self):
        return 1

    def n_parameters(self):
        return 3

    def outputs(self):
        return ['y']

    def parameters(self):
        return ['a', 'b', 'c']

    def simulate(self, parameters, times):
        a, b, c = parameters
        t = np.asarray(times, dtype=float)
        y = (a * np.exp(-b * t) + c)[np.newaxis, :]
        if not self._s:
            return y
        d = np.empty((len(t), 1, 3))
        d[:, 0, 0] = np.exp(-b * t)
        d[:, 0, 1] = -a * t * np.exp(-b * t)
        d[:, 0, 2] = 1
        return y, d


rng = np.random.default_rng(3)
times = np.array([2.0, 0.5, 1.0])
obs = rng.uniform(0.5, 3.0, size=(3, 1, 3))
NS = 4
SIGMA = 0.2


def sub_models():
    # dimension a: pooled, b: Gaussian, c: log-normal
    return [chi.PooledModel(n_dim=1, dim_names=['a']),
            chi.GaussianModel(n_dim=1, dim_names=['b']),
            chi.LogNormalModel(n_dim=1, dim_names=['c'])]


def reference(theta, bottom, eps, prior, fixed_std_b=None):
    """theta = [pooled a, mean b, std b, log mean c, log std c]."""
    pa, mb, sb, mc, sc = theta
    psi = np.column_stack([np.full(NS, pa), bottom[:, 0], bottom[:, 1]])
    score = np.sum(norm.logpdf(bottom[:, 0], mb, sb))
    score += np.sum(
        norm.logpdf(np.log(bottom[:, 1]), mc, sc) - np.log(bottom[:, 1]))
    score += -np.sum(eps**2) / 2 - NS * 1 * np.log(2 * np.pi) / 2
    ts = np.sort(times)
    m = Toy()
    y = np.array([m.simulate(p, ts) for p in psi]) + SIGMA * eps
    o = obs[:, :, np.argsort(times)]
    mu = np.mean(y, axis=0, keepdims=True)
    sd = np.std(y, ddof=1, axis=0, keepdims=True)
    score += np.sum(norm.logpdf(o, mu, sd))
    return score


def make_vector(theta_free, bottom, eps):
    return np.hstack([theta_free, bottom.flatten(), eps.flatten()])


theta = np.array([1.1, 0.8, 0.4, 0.1, 0.3])
bottom = rng.uniform(0.5, 1.5, size=(NS, 2))
eps = rng.normal(0, 0.5, size=(NS, 1, 3))

failed = False


def check(label, pop, free_mask):
    global failed
    n_free = int(np.sum(free_mask))
    prior = pints.ComposedLogPrior(
        *[pints.GaussianLogPrior(1, 2) for _ in range(n_free)])
    x = make_vector(theta[free_mask], bottom, eps)

    def ref(x):
        th = theta.copy()
        th[free_mask] = x[:n_free]
        b = x[n_free:n_free + 2 * NS].reshape(NS, 2)
        e = x[n_free + 2 * NS:].reshape(NS, 1, 3)
        return prior(x[:n_free]) + reference(th, b, e, prior)

    try:
        post = chi.PopulationFilterLogPosterior(
            chi.GaussianFilter(obs), times, Toy(), pop, prior, sigma=[SIGMA],
            n_samples=NS)
        if post.n_parameters() != len(x):
            print(label, ': n_parameters', post.n_parameters(), 'expected',
                  len(x))
            failed = True
            return
        value = post(x)
        score, grad = post.evaluateS1(x)
    except Exception as e:
        print(label, ': evaluation raises', repr(e))
        failed = True
        return
    r = ref(x)
    h = 1e-6
    g = np.array([
        (ref(x + h * np.eye(len(x))[i]) - ref(x - h * np.eye(len(x))[i]))
        / 2 / h for i in range(len(x))])
    ok = (abs(value - r) < 1e-8 * max(1, abs(r))
          and abs(score - r) < 1e-8 * max(1, abs(r))
          and np.allclose(grad, g, rtol=1e-5, atol=1e-5))
    print(label, ': value', value, 'reference', r, 'OK' if ok else 'MISMATCH')
    if not ok:
        failed = True


all_free = np.ones(5, dtype=bool)

# Control: the flat composed model (works)
check('flat ComposedPopulationModel', chi.ComposedPopulationModel(sub_models()),
      all_free)

# (a) ReducedPopulationModel around the same model, std of b fixed
red = chi.ReducedPopulationModel(chi.ComposedPopulationModel(sub_models()))
red.fix_parameters({'Std. b': theta[2]})
mask = all_free.copy()
mask[2] = False
check('ReducedPopulationModel(Composed[Pooled, Gaussian, LogNormal])', red,
      mask)

# (a') ReducedPopulationModel with nothing fixed
check('ReducedPopulationModel, nothing fixed',
      chi.ReducedPopulationModel(chi.ComposedPopulationModel(sub_models())),
      all_free)

# (b) nested composed model
m = sub_models()
nested = chi.ComposedPopulationModel(
    [chi.ComposedPopulationModel(m[:2]), m[2]])
check('Composed[Composed[Pooled, Gaussian], LogNormal]', nested, all_free)

sys.exit(1 if failed else 0)
