"""
C03 finding 1: TruncatedGaussianModel far below the truncation point.

For mu / sigma < -8.3 the normalisation log(1 - Phi(-mu/sigma)) is evaluated
as log(0): plain evaluation of a hierarchical log-likelihood / log-posterior
returns +inf, while evaluateS1 returns -inf at the same parameters. For
-8.3 < mu / sigma < -7 both are finite but the analytic sensitivities w.r.t.
Mu and Sigma are dominated by cancellation error (wrong magnitude, even wrong
sign) relative to the true derivative of the documented density.

Usage: python finding_1.py <path to repository>
"""
import sys
import warnings

sys.path.insert(0, sys.argv[1])

import numpy as np  # noqa
import pints  # noqa
from scipy.special import log_ndtr  # noqa
from scipy.stats import norm  # noqa

import chi  # noqa

warnings.simplefilter('ignore')


class Toy(chi.MechanisticModel):
    """y(t) = a * t"""
    def __init__(self):
        super().__init__()
        self._sens = False

    def enable_sensitivities(self, enabled, parameter_names=None):
        self._sens = bool(enabled)

    def has_sensitivities(self):
        return self._sens

    def n_outputs(self):
        return 1

    def n_parameters(self):
        return 1

    def outputs(self):
        return ['y']

    def parameters(self):
        return ['a']

    def simulate(self, parameters, times):
        t = np.asarray(times, dtype=float)
        y = (parameters[0] * t)[np.newaxis, :]
        if not self._sens:
            return y
        return y, t.reshape(len(t), 1, 1)


lls = [
    chi.LogLikelihood(
        Toy(), chi.GaussianErrorModel(), [0.6, 1.1, 2.3], [1, 2, 4]),
    chi.LogLikelihood(
        Toy(), chi.GaussianErrorModel(), [0.4, 0.9, 1.5], [1, 2, 4])]
pop = chi.ComposedPopulationModel([
    chi.TruncatedGaussianModel(n_dim=1), chi.PooledModel(n_dim=1)])
hll = chi.HierarchicalLogLikelihood(lls, pop)
prior = pints.ComposedLogPrior(
    pints.GaussianLogPrior(0, 20), pints.LogNormalLogPrior(0, 1),
    pints.LogNormalLogPrior(0, 1))
hlp = chi.HierarchicalLogPosterior(hll, prior)
print('parameters:', hll.get_parameter_names(include_ids=True))

violated = False

# Part 1: sign of the non-finite score differs
for mu in [-8.5, -9., -20.]:
    x = np.array([0.55, 0.4, mu, 1., 0.3])
    for name, f in [('log-likelihood', hll), ('log-posterior', hlp)]:
        plain = f(x)
        s1, _ = f.evaluateS1(x)
        print('Mu = %6.1f, Sigma = 1: %s plain = %s, evaluateS1 = %s' % (
            mu, name, plain, s1))
        if not (plain == s1 or (np.isnan(plain) and np.isnan(s1))):
            violated = True


# Part 2: sensitivities in the finite regime versus the exact derivative
# of the documented density, evaluated with a stable normalisation.
def reference(x):
    psi = x[:2]
    mu, sigma, pooled = x[2:]
    score = np.sum(
        norm.logpdf(psi, mu, sigma) - log_ndtr(mu / sigma))
    hazard = np.exp(norm.logpdf(mu / sigma) - log_ndtr(mu / sigma))
    dmu = np.sum((psi - mu) / sigma**2 - hazard / sigma)
    dsigma = np.sum(
        -1 / sigma + (psi - mu)**2 / sigma**3 + hazard * mu / sigma**2)
    return score, dmu, dsigma


for mu in [-5., -7.5, -8., -8.2]:
    x = np.array([0.55, 0.4, mu, 1., 0.3])
    s1, sens = pop.compute_sensitivities(
        x[2:], np.array([[0.55, 0.3], [0.4, 0.3]]), reduce=True)
    ref_score, ref_dmu, ref_dsigma = reference(x)
    print(
        'Mu = %5.1f: population score %.6f (exact %.6f); dMu %.5f '
        '(exact %.5f); dSigma %.5f (exact %.5f)' % (
            mu, s1, ref_score, sens[2], ref_dmu, sens[3], ref_dsigma))
    err = max(
        abs(sens[2] - ref_dmu) / abs(ref_dmu),
        abs(sens[3] - ref_dsigma) / abs(ref_dsigma))
    if err > 1e-2:
        print('   -> relative error of the sensitivities: %.2g' % err)
        violated = True

if violated:
    print('VIOLATED: scores / sensitivities of the truncated Gaussian model '
          'are wrong far below the truncation point.')
    sys.exit(1)
print('property holds')
sys.exit(0)
