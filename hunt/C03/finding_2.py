"""
C03 finding 2: evaluateS1 fails for SBML / PKPD models when all mechanistic
model parameters are fixed (e.g. known PK parameters, only the noise is
inferred), although plain evaluation yields a finite score.

Usage: python finding_2.py <path to repository>
"""
import os
import sys
import warnings

sys.path.insert(0, sys.argv[1])
if os.path.exists('/tmp/seedhelp/refsim.py'):
    # Solver stand-in for sandboxes without sundials
    sys.path.insert(1, '/tmp/seedhelp')
    import refsim
    refsim.install()

import numpy as np  # noqa
import pandas as pd  # noqa
import pints  # noqa

import chi  # noqa
from chi.library import ModelLibrary  # noqa

warnings.simplefilter('ignore')
violated = False

model = ModelLibrary().one_compartment_pk_model()
model.set_administration('central', direct=True)
model.set_dosing_regimen(dose=2, start=0, period=1, duration=0.3)
times = [0.5, 1, 2, 3]
observations = [1.2, 1.6, 2.1, 2.3]
mech_values = dict(zip(model.parameters(), [0.5, 1.2, 0.7]))

# 1. Directly on a log-likelihood / log-posterior
log_likelihood = chi.LogLikelihood(
    model, chi.GaussianErrorModel(), observations, times)
log_likelihood.fix_parameters(mech_values)
log_posterior = chi.LogPosterior(
    log_likelihood, pints.HalfCauchyLogPrior(0, 1))
print('free parameters:', log_likelihood.get_parameter_names())
for name, f in [
        ('LogLikelihood', log_likelihood), ('LogPosterior', log_posterior)]:
    plain = f([0.3])
    print('%s: plain score at Sigma=0.3: %s' % (name, plain))
    try:
        score, sens = f.evaluateS1([0.3])
        print('%s: evaluateS1: %s %s' % (name, score, sens))
        if not np.isclose(score, plain):
            violated = True
    except Exception as e:
        print('%s: evaluateS1 raised %s: %s' % (name, type(e).__name__, e))
        if np.isfinite(plain):
            violated = True

# 2. Fixing the remaining mechanistic parameters after a gradient evaluation
# even makes fix_parameters itself fail
log_likelihood = chi.LogLikelihood(
    model, chi.GaussianErrorModel(), observations, times)
log_likelihood.evaluateS1([0.5, 1.2, 0.7, 0.3])
try:
    log_likelihood.fix_parameters(mech_values)
    print('fix_parameters after evaluateS1: ok')
except Exception as e:
    print('fix_parameters after evaluateS1 raised %s: %s' % (
        type(e).__name__, e))
    violated = True

# 3. Same through the ProblemModellingController with a population model
# for the noise parameter
data = pd.DataFrame({
    'ID': [1] * 4 + [2] * 4,
    'Time': times * 2,
    'Observable': ['central.drug_concentration'] * 8,
    'Value': observations + [1.0, 1.5, 1.9, 2.0],
    'Dose': [np.nan] * 8, 'Duration': [np.nan] * 8})
doses = pd.DataFrame({
    'ID': [1, 2], 'Time': [0., 0.], 'Observable': [np.nan] * 2,
    'Value': [np.nan] * 2, 'Dose': [2., 3.], 'Duration': [0.3, 0.3]})
data = pd.concat([data, doses], ignore_index=True)
problem = chi.ProblemModellingController(model, chi.GaussianErrorModel())
problem.fix_parameters(mech_values)
problem.set_population_model(chi.LogNormalModel(n_dim=1))
problem.set_data(data)
problem.set_log_prior(pints.ComposedLogPrior(
    pints.GaussianLogPrior(0, 1), pints.LogNormalLogPrior(0, 1)))
posterior = problem.get_log_posterior()
x = np.array([0.3, 0.4, -1., 0.5])
plain = posterior(x)
print('HierarchicalLogPosterior (controller): plain score: %s' % plain)
try:
    score, sens = posterior.evaluateS1(x)
    print('HierarchicalLogPosterior: evaluateS1: %s %s' % (score, sens))
    if not np.isclose(score, plain):
        violated = True
except Exception as e:
    print('HierarchicalLogPosterior: evaluateS1 raised %s: %s' % (
        type(e).__name__, e))
    if np.isfinite(plain):
        violated = True

if violated:
    print('VIOLATED: evaluateS1 fails although plain evaluation is finite.')
    sys.exit(1)
print('property holds')
sys.exit(0)
