"""
C03 finding 3: HierarchicalLogLikelihood.__call__ hands the stored covariates
to compute_individual_parameters positionally, so for a non-centered
GaussianModel / LogNormalModel (also wrapped by a ReducedPopulationModel)
they arrive as `return_eta`. When covariates are supplied to the
hierarchical log-likelihood (optional argument, unused by these models), plain
evaluation skips the transformation eta -> psi (one individual) or raises
(several individuals), while evaluateS1 returns the correct score.

Usage: python finding_3.py <path to repository>
"""
import sys
import warnings

sys.path.insert(0, sys.argv[1])

import numpy as np  # noqa
import pints  # noqa

import chi  # noqa

warnings.simplefilter('ignore')


class Toy(chi.MechanisticModel):
    """y(t) = a * t"""
    def __init__(self):
        super().__init__()
        self._sens = False

    def enable_sensitivities(self, enabled, parameter_names=None):
        self._sens = bool(enabled)

    def has_sensitivities(self):
        return self._sens

    def n_outputs(self):
        return 1

    def n_parameters(self):
        return 1

    def outputs(self):
        return ['y']

    def parameters(self):
        return ['a']

    def simulate(self, parameters, times):
        t = np.asarray(times, dtype=float)
        y = (parameters[0] * t)[np.newaxis, :]
        if not self._sens:
            return y
        return y, t.reshape(len(t), 1, 1)


def make_lls(n_ids):
    data = [[0.6, 1.1, 2.3], [0.4, 0.9, 1.5], [0.7, 1.3, 2.9]]
    return [
        chi.LogLikelihood(
            Toy(), chi.GaussianErrorModel(), data[i], [1, 2, 4])
        for i in range(n_ids)]


def reduced(model):
    r = chi.ReducedPopulationModel(model)
    r.fix_parameters({r.get_parameter_names()[-1]: 0.3})
    return r


violated = False
cases = [
    ('GaussianModel(centered=False)',
        lambda: chi.GaussianModel(n_dim=2, centered=False), 4),
    ('LogNormalModel(centered=False)',
        lambda: chi.LogNormalModel(n_dim=2, centered=False), 4),
    ('ReducedPopulationModel(GaussianModel(centered=False))',
        lambda: reduced(chi.GaussianModel(n_dim=2, centered=False)), 3),
]
for name, make, n_top in cases:
    for n_ids in [1, 3]:
        # e.g. the age of the individuals; not used by the population model
        covariates = np.array([[34.], [51.], [27.]])[:n_ids]
        top = np.array([0.5, 0.4, 0.2, 0.3])[:n_top]
        x = np.hstack([[0.3, -0.2, 0.1, 0.4, -0.5, 0.2][:2 * n_ids], top])

        reference = chi.HierarchicalLogLikelihood(make_lls(n_ids), make())
        ref = reference(x)

        hll = chi.HierarchicalLogLikelihood(
            make_lls(n_ids), make(), covariates=covariates)
        s1, sens = hll.evaluateS1(x)
        try:
            plain = hll(x)
        except Exception as e:
            plain = '%s: %s' % (type(e).__name__, e)
        print('%s, %d individual(s):' % (name, n_ids))
        print('    score without covariates : %s' % ref)
        print('    evaluateS1 with covariates: %s' % s1)
        print('    plain with covariates     : %s' % plain)
        if isinstance(plain, str) or not np.isclose(plain, s1):
            violated = True

if violated:
    print('VIOLATED: plain evaluation and evaluateS1 disagree.')
    sys.exit(1)
print('property holds')
sys.exit(0)
