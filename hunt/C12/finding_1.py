"""
Missing-data invariant: padding the measurements with np.nan must not change
the value of a population filter.

As soon as one np.nan is present the measurements are stored as a numpy
masked array.  Masked-array arithmetic (np.ma power / divide / log) silently
MASKS every cell whose result is invalid, and np.sum then skips those cells.
So a time point at which the documented estimator is undefined (zero empirical
variance of the simulated measurements, or a non-positive simulated measurement
for the log-normal filters) is silently dropped from the sum when the data
happen to be padded, while the same data without padding give nan.
"""
import sys
import warnings

sys.path.insert(0, sys.argv[1])
import numpy as np  # noqa
import chi  # noqa

warnings.simplefilter('ignore')

rng = np.random.default_rng(7)
obs = np.exp(rng.normal(0.3, 0.5, size=(3, 1, 4)))
# Same measurements, padded with one individual that was never measured
padded = np.concatenate([obs, np.full((1, 1, 4), np.nan)], axis=0)

sim = np.exp(rng.normal(0.2, 0.6, size=(6, 1, 4)))
# (a) all simulated individuals coincide at the first time point: var = 0
sim_const = sim.copy()
sim_const[:, 0, 0] = 1.7
# (b) one simulated measurement is negative (additive Gaussian noise, the
#     default of PopulationFilterLogPosterior, produces those)
sim_neg = sim.copy()
sim_neg[2, 0, 1] = -0.3

cases = [
    ('GaussianFilter, zero variance', chi.GaussianFilter, sim_const),
    ('GaussianKDEFilter, zero variance', chi.GaussianKDEFilter, sim_const),
    ('GaussianMixtureFilter, zero variance', chi.GaussianMixtureFilter,
     sim_const),
    ('LogNormalFilter, negative sim.', chi.LogNormalFilter, sim_neg),
    ('LogNormalKDEFilter, negative sim.', chi.LogNormalKDEFilter, sim_neg),
]


def same(a, b):
    if np.isfinite(a) and np.isfinite(b):
        return np.isclose(a, b)
    # both undefined / -inf counts as "same"
    return (not np.isfinite(a)) and (not np.isfinite(b))


violated = False
for label, cls, s in cases:
    plain = cls(obs).compute_log_likelihood(s)
    pad = cls(padded).compute_log_likelihood(s)
    pad_s, sens = cls(padded).compute_sensitivities(s)
    # Score of the padded data when the degenerate time point is removed
    keep = [j for j in range(4) if np.all(np.isfinite(np.log(s[:, 0, j])))
            and np.var(s[:, 0, j]) > 0]
    dropped = cls(padded[:, :, keep]).compute_log_likelihood(s[:, :, keep])
    ok = same(plain, pad) and same(plain, pad_s)
    print('%-40s unpadded: %s  padded: %s  (padded data without the '
          'degenerate time point: %s)  masked sensitivities: %s' % (
              label, plain, pad, dropped, np.ma.is_masked(sens)))
    if not ok:
        violated = True

if violated:
    print('VIOLATION: np.nan padding turns an undefined score into a finite '
          'one; the degenerate time point is silently left out of the sum.')
    sys.exit(1)
print('property holds')
sys.exit(0)
