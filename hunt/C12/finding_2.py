"""
GaussianFilter, GaussianKDEFilter and GaussianMixtureFilter keep a VIEW of the
caller's measurement array (np.asarray / np.ma.array(copy=False) / newaxis
views), so the measurements the filter scores change when the caller reuses
the array afterwards.  LogNormalFilter / LogNormalKDEFilter (np.log makes a
copy) and any filter after sort_times (fancy indexing makes a copy) do not, so
the behaviour is also inconsistent between filters and call histories.

Legitimate use that breaks: one filter per time point built from a reused
buffer and joined by a ComposedPopulationFilter ("splitting time points").
"""
import sys
import warnings

sys.path.insert(0, sys.argv[1])
import numpy as np  # noqa
import chi  # noqa

warnings.simplefilter('ignore')

rng = np.random.default_rng(11)
n_ids, n_times, n_sim = 4, 3, 6
data = np.exp(rng.normal(0.3, 0.5, size=(n_ids, 1, n_times)))
data[0, 0, 1] = np.nan  # one missing value, so both code paths are used
sim = np.exp(rng.normal(0.2, 0.6, size=(n_sim, 1, n_times)))

violated = False
for cls in [chi.GaussianFilter, chi.GaussianKDEFilter,
            chi.GaussianMixtureFilter, chi.LogNormalFilter,
            chi.LogNormalKDEFilter]:
    # Reference: one filter for all time points
    expected = cls(data.copy()).compute_log_likelihood(sim)

    # Split by time point, filling a reused buffer
    buffer = np.empty((n_ids, 1, 1))
    filters = []
    for j in range(n_times):
        buffer[:, 0, 0] = data[:, 0, j]
        filters.append(cls(buffer))
    composed = chi.ComposedPopulationFilter(filters)
    value = composed.compute_log_likelihood(sim)
    _, sens = composed.compute_sensitivities(sim)

    ok = np.isclose(value, expected)
    print('%-22s all times at once: %.10f   split (reused buffer): %.10f  %s'
          % (cls.__name__, expected, value, 'ok' if ok else 'DIFFERENT'))
    if not ok:
        violated = True

# Simplest form: the caller modifies its array after construction
obs = data[:, :, [0, 2]].copy()
f = chi.GaussianFilter(obs)
before = f.compute_log_likelihood(sim[:, :, [0, 2]])
obs *= 3
after = f.compute_log_likelihood(sim[:, :, [0, 2]])
print('GaussianFilter before / after the caller rescales its own array:',
      before, after)
if before != after:
    violated = True

if violated:
    print('VIOLATION: the filter scores the current content of the caller\'s '
          'array, not the measurements it was constructed with.')
    sys.exit(1)
print('property holds')
sys.exit(0)
