"""
ComposedPopulationFilter.sort_times accepts every array of n_times unique
integers, but computes the inverse permutation with np.argsort(order).  That is
only the inverse for indices 0..n_times-1.  A permutation written with negative
indices (e.g. np.arange(n_times) - 1, "last time point first"), which all other
filters sort correctly and which passes the validation, leaves the simulated
measurements matched with the wrong time points (and the sensitivities in yet
another order).  Out-of-range indices, for which the other filters raise
IndexError, are silently accepted.
"""
import sys
import warnings

sys.path.insert(0, sys.argv[1])
import numpy as np  # noqa
import chi  # noqa

warnings.simplefilter('ignore')

rng = np.random.default_rng(3)
n_times = 4
obs = np.exp(rng.normal(0.3, 0.8, size=(3, 2, n_times)))
obs[1, 0, 2] = np.nan
sim = np.exp(rng.normal(0.2, 0.6, size=(6, 2, n_times)))

order = np.arange(n_times) - 1          # [-1, 0, 1, 2]
order_pos = order % n_times             # [ 3, 0, 1, 2] the same permutation

violated = False
for cls in [chi.GaussianFilter, chi.LogNormalFilter, chi.GaussianKDEFilter]:
    single = cls(obs)
    single.sort_times(order)
    ref, ref_sens = single.compute_sensitivities(sim)

    def split():
        return chi.ComposedPopulationFilter(
            [cls(obs[:, :, :1]), cls(obs[:, :, 1:])])
    c_neg = split()
    c_neg.sort_times(order)
    c_pos = split()
    c_pos.sort_times(order_pos)

    v_neg, s_neg = c_neg.compute_sensitivities(sim)
    v_pos, s_pos = c_pos.compute_sensitivities(sim)
    ok_pos = np.isclose(v_pos, ref) and np.allclose(s_pos, ref_sens)
    ok_neg = np.isclose(v_neg, ref) and np.allclose(s_neg, ref_sens) \
        and np.isclose(c_neg.compute_log_likelihood(sim), ref)
    print('%-18s single filter sorted with %s: %.8f | composed, %s: %.8f (%s)'
          ' | composed, %s: %.8f (%s)' % (
              cls.__name__, list(order), ref, list(order_pos), v_pos,
              'ok' if ok_pos else 'WRONG', list(order), v_neg,
              'ok' if ok_neg else 'WRONG'))
    if not (ok_pos and ok_neg):
        violated = True

# Out-of-range "order": rejected by elementary filters, accepted by composed
bad = [1, 2, 3, 4]
try:
    chi.GaussianFilter(obs).sort_times(bad)
    print('elementary filter accepted', bad)
except IndexError:
    print('elementary filter raises IndexError for', bad)
c = chi.ComposedPopulationFilter(
    [chi.GaussianFilter(obs[:, :, :1]), chi.GaussianFilter(obs[:, :, 1:])])
try:
    c.sort_times(bad)
    print('composed filter silently accepts', bad, '->',
          c.compute_log_likelihood(sim))
except (IndexError, ValueError):
    print('composed filter rejects', bad)

if violated:
    print('VIOLATION: consistent reordering of time points through a '
          'composed filter changes the value.')
    sys.exit(1)
print('property holds')
sys.exit(0)
