"""
PosteriorPredictiveModel breaks up joint posterior draws when the variables of
the posterior xarray.Dataset do not all store their dimensions in the same
order.

xarray identifies dimensions by name, and the constructor validates the
posterior by dimension *names* only ('chain', 'draw', 'individual'), so a data
set in which one variable is laid out as (draw, chain, individual) is accepted
(e.g. after ``posterior['b'] = posterior['b'].transpose(...)`` or after
post-processing a single variable). ``sample`` then flattens the raw ``.values``
of every parameter separately, so 'a' of draw (chain c, draw d) is combined
with 'b' of a different draw: the parameter sets that are simulated never
occurred in the posterior.

Exit code 1: property violated, 0: property holds.
"""
import sys
import warnings

sys.path.insert(0, sys.argv[1] if len(sys.argv) > 1 else '/repo')
warnings.filterwarnings('ignore')

import numpy as np  # noqa: E402
import xarray as xr  # noqa: E402

import chi  # noqa: E402


class Line(chi.MechanisticModel):
    """y(t) = a + b * t"""
    def __init__(self):
        super(Line, self).__init__()

    def enable_sensitivities(self, enabled, parameter_names=None):
        pass

    def has_sensitivities(self):
        return False

    def n_outputs(self):
        return 1

    def n_parameters(self):
        return 2

    def outputs(self):
        return ['y']

    def parameters(self):
        return ['a', 'b']

    def simulate(self, parameters, times):
        a, b = parameters
        return np.array([a + b * np.asarray(times, dtype=float)])


predictive_model = chi.PredictiveModel(Line(), [chi.GaussianErrorModel()])

# Posterior in which a and b are perfectly dependent: b = a / 1000 in every
# joint draw, and every draw has a unique value of a.
n_chains, n_draws, n_ids = 3, 20, 2
a = np.arange(n_chains * n_draws * n_ids, dtype=float).reshape(
    n_chains, n_draws, n_ids) + 1
coords = {
    'chain': list(range(n_chains)), 'draw': list(range(n_draws)),
    'individual': ['ID 1', 'ID 2']}
dims = ['chain', 'draw', 'individual']
posterior = xr.Dataset({
    'a': xr.DataArray(a, dims=dims, coords=coords),
    'b': xr.DataArray(a / 1000, dims=dims, coords=coords),
    'Sigma': xr.DataArray(np.full(a.shape, 1E-9), dims=dims, coords=coords)})


def count_broken_draws(posterior):
    model = chi.PosteriorPredictiveModel(predictive_model, posterior)
    n_samples = 100
    samples = model.sample(
        [0, 1], n_samples=n_samples, individual='ID 2', seed=1)
    n_broken = 0
    for sample_id in range(1, n_samples + 1):
        s = samples[samples['ID'] == sample_id]
        y0 = float(s[s['Time'] == 0]['Value'].values[0])
        y1 = float(s[s['Time'] == 1]['Value'].values[0])
        a_used, b_used = y0, y1 - y0
        if abs(b_used - a_used / 1000) > 1E-6:
            n_broken += 1
    return n_broken, n_samples


# Same posterior, but the values of b are stored as (draw, chain, individual)
transposed = posterior.copy()
transposed['b'] = posterior['b'].transpose('draw', 'chain', 'individual')
same = bool((transposed['b'] == posterior['b']).all())  # compared by dim name
assert same

n_ref, n = count_broken_draws(posterior)
n_broken, n = count_broken_draws(transposed)
print('b identical when compared by dim names   :', same)
print('broken joint draws, uniform dim order    : %d of %d' % (n_ref, n))
print('broken joint draws, b stored transposed  : %d of %d' % (n_broken, n))

if n_ref or n_broken:
    print(
        'VIOLATION: parameter sets are simulated that are not joint draws of '
        'the posterior.')
    sys.exit(1)
sys.exit(0)
