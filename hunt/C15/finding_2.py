"""
Posterior predictive samples of an individual are generated from the
inter-individual fluctuation eta instead of the individual's parameter when
the posterior stems from a population model in non-centered parametrisation.

Work flow (public API only):
ProblemModellingController -> HierarchicalLogPosterior -> SamplingController
-> xarray.Dataset -> PosteriorPredictiveModel(individual-level model).sample(
individual=...).

For ``GaussianModel(centered=False)`` / ``LogNormalModel(centered=False)`` the
data set stores eta_i under the name of the mechanistic parameter ('a').
PosteriorPredictiveModel takes it at face value, i.e. simulates the
individual with a = eta_i (approx. N(0, 1)) instead of
a = psi_i = mu + sigma * eta_i. With the centered parametrisation of the very
same model the predictions are correct.

Exit code 1: property violated, 0: property holds.
"""
import sys
import warnings

sys.path.insert(0, sys.argv[1] if len(sys.argv) > 1 else '/repo')
warnings.filterwarnings('ignore')

import numpy as np  # noqa: E402
import pandas as pd  # noqa: E402
import pints  # noqa: E402

import chi  # noqa: E402


class Line(chi.MechanisticModel):
    """y(t) = a + b * t"""
    def __init__(self):
        super(Line, self).__init__()

    def enable_sensitivities(self, enabled, parameter_names=None):
        pass

    def has_sensitivities(self):
        return False

    def n_outputs(self):
        return 1

    def n_parameters(self):
        return 2

    def outputs(self):
        return ['y']

    def parameters(self):
        return ['a', 'b']

    def simulate(self, parameters, times):
        a, b = parameters
        return np.array([a + b * np.asarray(times, dtype=float)])


# Data of 4 individuals with a = 10, 12, 14, 16 (b = 0.5, sigma = 0.1)
model = Line()
truth = chi.PredictiveModel(model, [chi.GaussianErrorModel()])
true_a = [10., 12., 14., 16.]
frames = []
for i, a in enumerate(true_a):
    df = truth.sample([a, 0.5, 0.1], [0, 1, 2, 3], seed=i)
    df['ID'] = 'pat%d' % i
    frames.append(df)
data = pd.concat(frames)


def predict(centered):
    problem = chi.ProblemModellingController(
        model, [chi.GaussianErrorModel()])
    problem.set_data(data)
    pop_model = chi.ComposedPopulationModel([
        chi.GaussianModel(dim_names=['a'], centered=centered),
        chi.PooledModel(n_dim=2, dim_names=['b', 'Sigma'])])
    problem.set_population_model(pop_model)
    problem.set_log_prior(pints.ComposedLogPrior(
        pints.GaussianLogPrior(13, 3), pints.LogNormalLogPrior(1, 0.5),
        pints.GaussianLogPrior(0.5, 0.1), pints.LogNormalLogPrior(-2, 0.5)))
    controller = chi.SamplingController(
        problem.get_log_posterior(), seed=1)
    controller.set_n_runs(2)
    controller.set_parallel_evaluation(False)
    posterior = controller.run(n_iterations=400).sel(draw=slice(200, None))

    # Individual parameters implied by the posterior draws, psi(eta, theta)
    theta = np.stack([
        posterior[n].values.flatten() for n in
        ['Mean a', 'Std. a', 'Pooled b', 'Pooled Sigma']], axis=1)
    eta = posterior['a'].values.reshape(-1, len(true_a))
    psi = np.array([
        pop_model.compute_individual_parameters(
            t, np.stack([e, e, e], axis=1))[:, 0]
        for t, e in zip(theta, eta)])

    # Posterior predictive model of the individuals
    pred_model = chi.PredictiveModel(model, [chi.GaussianErrorModel()])
    post_model = chi.PosteriorPredictiveModel(
        pred_model, posterior,
        param_map={'b': 'Pooled b', 'Sigma': 'Pooled Sigma'})
    means = []
    for i in range(len(true_a)):
        samples = post_model.sample(
            [0.], n_samples=200, seed=1, individual='pat%d' % i)
        means.append(samples['Value'].astype(float).mean())

    return np.array(means), psi.mean(axis=0)


violated = False
for centered in [True, False]:
    predicted, expected = predict(centered)
    print('centered = %s' % centered)
    print('  observed y(0) of the individuals        :', true_a)
    print('  posterior mean of psi_i = a_i           :', np.round(expected, 2))
    print('  posterior predictive mean of y(0) of i  :', np.round(predicted, 2))
    if not np.allclose(predicted, expected, atol=0.5):
        violated = True
        print(
            '  VIOLATION: individuals are simulated with a = eta_i instead of '
            'their parameter psi_i.')

sys.exit(1 if violated else 0)
