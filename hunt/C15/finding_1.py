"""
Posterior / prior predictive models ignore all but the first row of
per-sample covariates.

PosteriorPredictiveModel.sample and PriorPredictiveModel.sample document
``covariates`` of shape ``(n_samples, n_cov)`` (the repository's own tests use
that shape). Sample ``i`` of the returned table therefore has to be a virtual
individual of the sub-population with covariates ``covariates[i]``. Instead
every sample is generated with ``covariates[0]`` and the table carries no
covariate labels at all.

Exit code 1: property violated, 0: property holds.
"""
import sys
import warnings

sys.path.insert(0, sys.argv[1] if len(sys.argv) > 1 else '/repo')
warnings.filterwarnings('ignore')

import numpy as np  # noqa: E402
import pints  # noqa: E402
import xarray as xr  # noqa: E402

import chi  # noqa: E402


class Line(chi.MechanisticModel):
    """y(t) = a + b * t"""
    def __init__(self):
        super(Line, self).__init__()

    def enable_sensitivities(self, enabled, parameter_names=None):
        pass

    def has_sensitivities(self):
        return False

    def n_outputs(self):
        return 1

    def n_parameters(self):
        return 2

    def outputs(self):
        return ['y']

    def parameters(self):
        return ['a', 'b']

    def simulate(self, parameters, times):
        a, b = parameters
        return np.array([a + b * np.asarray(times, dtype=float)])


# Individual-level model: y = a + b t + N(0, sigma)
predictive_model = chi.PredictiveModel(Line(), [chi.GaussianErrorModel()])

# Population model: mean of 'a' depends linearly on the covariate 'Age';
# everything else is pooled. The spread is negligible, so the value at t=0 of
# a sample reveals the covariate that was used: y(0) = 1 + 100 * Age
cov_model = chi.CovariatePopulationModel(
    chi.GaussianModel(), chi.LinearCovariateModel(cov_names=['Age']),
    dim_names=['a'])
cov_model.set_population_parameters([[0, 0]])
population_model = chi.ComposedPopulationModel([
    cov_model, chi.PooledModel(n_dim=2, dim_names=['b', 'Sigma'])])
model = chi.PopulationPredictiveModel(predictive_model, population_model)
names = model.get_parameter_names()
values = {
    'Mean a': 1, 'Std. a': 1E-6, 'Mean a Age': 100, 'Pooled b': 0,
    'Pooled Sigma': 1E-6}
theta = [values[name] for name in names]

n_samples = 4
covariates = np.array([[0.], [1.], [2.], [3.]])   # one row per sample
expected = 1 + 100 * covariates[:, 0]
times = [0, 1]

# Reference: the population predictive model itself gets it right
ref = model.sample(
    theta, times, n_samples=n_samples, seed=1, covariates=covariates,
    return_df=False)[0, 0]
print('covariates per sample       :', covariates[:, 0])
print('expected y(0) per sample    :', expected)
print('PopulationPredictiveModel   :', np.round(ref, 2))

# Posterior predictive model (all posterior draws identical to theta)
n_chains, n_draws = 2, 3
posterior = xr.Dataset({
    name: xr.DataArray(
        np.full((n_chains, n_draws), float(values[name])),
        dims=['chain', 'draw'],
        coords={'chain': range(n_chains), 'draw': range(n_draws)})
    for name in names})
post_model = chi.PosteriorPredictiveModel(model, posterior)
df = post_model.sample(
    times, n_samples=n_samples, seed=1, covariates=covariates)
mask = (df['Time'] == 0) & (df['Observable'] == 'y')
post = np.array([
    float(df[mask & (df['ID'] == i + 1)]['Value'].values[0])
    for i in range(n_samples)])
print('PosteriorPredictiveModel    :', np.round(post, 2))

# Prior predictive model (prior concentrated on theta)
log_prior = pints.ComposedLogPrior(*[
    pints.UniformLogPrior(value, value + 1E-9) for value in theta])
prior_model = chi.PriorPredictiveModel(model, log_prior)
df2 = prior_model.sample(
    times, n_samples=n_samples, seed=1, covariates=covariates)
mask = (df2['Time'] == 0) & (df2['Observable'] == 'y')
prior = np.array([
    float(df2[mask & (df2['ID'] == i + 1)]['Value'].values[0])
    for i in range(n_samples)])
print('PriorPredictiveModel        :', np.round(prior, 2))

has_labels = 'Age' in set(df['Observable']) and 'Age' in set(
    df2['Observable'])
print('covariates labelled in table:', has_labels)

violated = False
if not np.allclose(ref, expected, atol=1E-2):
    print('UNEXPECTED: reference population predictive model is off.')
    violated = True
if not np.allclose(post, expected, atol=1E-2):
    print(
        'VIOLATION: posterior predictive samples 2..n do not belong to the '
        'sub-population of their covariate row (all use covariates[0]).')
    violated = True
if not np.allclose(prior, expected, atol=1E-2):
    print(
        'VIOLATION: prior predictive samples 2..n do not belong to the '
        'sub-population of their covariate row (all use covariates[0]).')
    violated = True

sys.exit(1 if violated else 0)
