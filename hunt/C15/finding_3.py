"""
Predictive models cannot sample when the mechanistic model they are given has
its sensitivities enabled (custom chi.MechanisticModel subclasses).

``MechanisticModel.simulate`` returns ``(outputs, sensitivities)`` while
sensitivities are enabled. ``LogLikelihood`` switches them off / on as needed,
and ``SBMLModel.copy`` resets them, so for SBML models a PredictiveModel is
unaffected. The default ``MechanisticModel.copy`` (deepcopy) keeps the
setting, and ``PredictiveModel.sample`` treats the returned tuple as the
array of outputs: no samples can be drawn from the (valid) model.

Exit code 1: property violated, 0: property holds.
"""
import sys
import warnings

sys.path.insert(0, sys.argv[1] if len(sys.argv) > 1 else '/repo')
warnings.filterwarnings('ignore')

import numpy as np  # noqa: E402

import chi  # noqa: E402


class Line(chi.MechanisticModel):
    """y(t) = a + b * t with analytic sensitivities."""
    def __init__(self):
        super(Line, self).__init__()
        self._has_sensitivities = False

    def enable_sensitivities(self, enabled, parameter_names=None):
        self._has_sensitivities = bool(enabled)

    def has_sensitivities(self):
        return self._has_sensitivities

    def n_outputs(self):
        return 1

    def n_parameters(self):
        return 2

    def outputs(self):
        return ['y']

    def parameters(self):
        return ['a', 'b']

    def simulate(self, parameters, times):
        a, b = parameters
        times = np.asarray(times, dtype=float)
        outputs = np.array([a + b * times])
        if not self._has_sensitivities:
            return outputs
        # shape (n_times, n_outputs, n_parameters)
        sens = np.stack([np.ones(len(times)), times], axis=1)[:, None, :]
        return outputs, sens


times = [2, 0, 1]
parameters = [1, 2, 1E-6]
expected = 1 + 2 * np.sort(times)

violated = False
for enabled in [False, True]:
    model = Line()
    model.enable_sensitivities(enabled)

    # The same model is fine for inference ...
    log_likelihood = chi.LogLikelihood(
        model, chi.GaussianErrorModel(), observations=[[1., 3., 5.]],
        times=[[0, 1, 2]])
    score = log_likelihood([1, 2, 1])

    # ... but not for prediction
    predictive_model = chi.PredictiveModel(model, [chi.GaussianErrorModel()])
    population_model = chi.PopulationPredictiveModel(
        predictive_model, chi.PooledModel(n_dim=3))
    for name, m in [
            ('PredictiveModel', predictive_model),
            ('PopulationPredictiveModel', population_model)]:
        try:
            samples = m.sample(
                parameters, times, n_samples=2, seed=1, return_df=False)
            ok = np.allclose(samples[0, :, 0], expected, atol=1E-3)
            msg = 'samples at sorted times %s' % np.round(samples[0, :, 0], 3)
        except Exception as e:  # noqa
            ok = False
            msg = 'raises %s: %s' % (type(e).__name__, e)
        print(
            'sensitivities enabled = %s, log-likelihood = %.3f, %s: %s'
            % (enabled, score, name, msg))
        if not ok:
            violated = True

if violated:
    print(
        'VIOLATION: no samples from a valid mechanistic model whose '
        'sensitivities are enabled.')
sys.exit(1 if violated else 0)
