"""
C08 finding 1: fixing ALL mechanistic-model parameters of a LogLikelihood
(SBML / PKPD model) makes the restricted sensitivities unavailable.

ll(free) works, but ll.evaluateS1(free) raises ValueError ("None of the
parameters could be identified"), and if sensitivities were already enabled
(evaluateS1 was called before) fix_parameters itself raises.

Expected: evaluateS1 at the remaining (error model) parameters returns the
score and the sensitivities of the unfixed likelihood restricted to the free
parameters.
"""
import sys
import warnings

repo = sys.argv[1] if len(sys.argv) > 1 else '/repo'
sys.path.insert(0, '/tmp/seedhelp')
sys.path.insert(0, repo)
try:
    # Stand-in for the compiled myokit simulation (sundials not installed)
    import refsim
    refsim.install()
except Exception:  # pragma: no cover
    pass

import numpy as np
import chi
import chi.library

warnings.simplefilter('ignore')


def make_ll():
    model = chi.library.ModelLibrary().one_compartment_pk_model()
    model.set_administration('central', direct=True)
    model.set_dosing_regimen(2.0, start=0.5, period=1.0, duration=0.2)
    times = np.array([0.1, 0.7, 1.3, 2.9])
    obs = np.array([0.2, 0.5, 0.4, 0.3])
    return chi.LogLikelihood(model, chi.GaussianErrorModel(), obs, times)


violated = False
psi = [0.3, 1.2, 0.9]
sigma = 0.4

ref = make_ll()
names = ref.get_parameter_names()
ref_score, ref_sens = ref.evaluateS1(psi + [sigma])
print('parameters:', names)
print('unfixed: score %.8f, dscore/dSigma %.8f' % (ref_score, ref_sens[-1]))

# History A: fix all mechanistic parameters, then ask for sensitivities
ll = make_ll()
ll.fix_parameters(dict(zip(names[:3], psi)))
print('free parameters after fixing:', ll.get_parameter_names())
print('score of reduced likelihood: %.8f' % ll([sigma]))
try:
    score, sens = ll.evaluateS1([sigma])
    ok = np.isclose(score, ref_score, rtol=1e-6) and np.allclose(
        sens, ref_sens[-1:], rtol=1e-5)
    print('evaluateS1 of reduced likelihood:', score, sens)
    if not ok:
        violated = True
        print('VIOLATION: restricted sensitivities differ from unfixed ones.')
except Exception as e:
    violated = True
    print('VIOLATION (history A): evaluateS1 of the reduced likelihood '
          'raises %s: %s' % (type(e).__name__, e))

# History B: sensitivities were used before the parameters are fixed
ll = make_ll()
ll.evaluateS1(psi + [sigma])
try:
    ll.fix_parameters(dict(zip(names[:3], psi)))
    score, sens = ll.evaluateS1([sigma])
    if not (np.isclose(score, ref_score, rtol=1e-6) and np.allclose(
            sens, ref_sens[-1:], rtol=1e-5)):
        violated = True
        print('VIOLATION: restricted sensitivities differ from unfixed ones.')
except Exception as e:
    violated = True
    print('VIOLATION (history B): fix_parameters after evaluateS1 raises '
          '%s: %s' % (type(e).__name__, e))

sys.exit(1 if violated else 0)
