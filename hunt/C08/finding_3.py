"""
C08 finding 3: ReducedPopulationModel.set_parameter_names corrupts the names
of the FIXED parameters, so they can no longer be released by their name and
the names reported after release are wrong.

set_parameter_names(names) takes names for the free parameters and rebuilds
the full name list from get_parameter_names() of the wrapped model, which
includes the dimension suffix.  The fixed parameters are thereby renamed to
'<name> <dim>' and reported as '<name> <dim> <dim>'.
"""
import sys

repo = sys.argv[1] if len(sys.argv) > 1 else '/repo'
sys.path.insert(0, repo)

import numpy as np
import chi

violated = False

# Reference: the unreduced model, renamed in the same way
reference = chi.GaussianModel(n_dim=2)
reference.set_parameter_names(['Mean', 'A', 'B', 'C'])
ref_names = reference.get_parameter_names()

model = chi.ReducedPopulationModel(chi.GaussianModel(n_dim=2))
print('original names      :', model.get_parameter_names())
model.fix_parameters({'Mean Dim. 1': 1.0})
model.set_parameter_names(['A', 'B', 'C'])   # names of the 3 free parameters
print('free names (renamed):', model.get_parameter_names())
if model.get_parameter_names() != ref_names[1:]:
    violated = True
    print('VIOLATION: free names differ from', ref_names[1:])

# Re-fix the fixed parameter at another value by its (unchanged) name
obs = np.array([[1.0, 2.0], [1.5, 2.5], [0.5, 1.0]])
model.fix_parameters({'Mean Dim. 1': 3.0})
score = model.compute_log_likelihood([2.0, 0.5, 0.7], obs)
ref_score = reference.compute_log_likelihood([3.0, 2.0, 0.5, 0.7], obs)
print('score after re-fixing "Mean Dim. 1" at 3.0: %.6f, unreduced model at '
      'the substituted vector: %.6f' % (score, ref_score))
if not np.isclose(score, ref_score):
    violated = True
    print('VIOLATION: re-fixing by name is silently ignored, the old value '
          'is still used.')

# Release the fixed parameter by its (unchanged) name
model.fix_parameters({'Mean Dim. 1': None})
names = model.get_parameter_names()
print('after releasing "Mean Dim. 1":', names,
      '| n_parameters', model.n_parameters(),
      '| n_fixed', model.n_fixed_parameters())
print('expected                     :', ref_names)
if names != ref_names or model.n_fixed_parameters() != 0:
    violated = True
    print('VIOLATION: the fixed parameter cannot be released by its name '
          '(release is silently ignored).')
print('names of the wrapped model   :',
      model.get_population_model().get_parameter_names())

# The same after a complete release through the corrupted name
model.fix_parameters({'Mean Dim. 1 Dim. 1': None})
if model.n_fixed_parameters() == 0 and \
        model.get_parameter_names() != ref_names:
    violated = True
    print('VIOLATION: after release the reported names are',
          model.get_parameter_names(), 'instead of', ref_names)

# Same defect for a composed model, as used by the problem controller
comp = chi.ReducedPopulationModel(chi.ComposedPopulationModel(
    [chi.PooledModel(dim_names=['a']), chi.LogNormalModel(dim_names=['b'])]))
comp.fix_parameters({'Pooled a': 2.0})
comp.set_parameter_names(['Log mean', 'Log std.'])
comp.fix_parameters({'Pooled a': None})
print('composed model after rename + release:', comp.get_parameter_names())
if comp.get_parameter_names() != ['Pooled a', 'Log mean b', 'Log std. b']:
    violated = True
    print('VIOLATION: expected', ['Pooled a', 'Log mean b', 'Log std. b'])

sys.exit(1 if violated else 0)
