"""
C08 finding 4: ProblemModellingController.fix_parameters mutates the reduced
population model that it has already handed to previously created
log-posteriors and predictive models.

At the individual level the controller hands COPIES of its (reduced) models to
the log-likelihoods / predictive models, so objects obtained earlier keep the
fixed name-value pairs they were created with.  At the population level the
same ReducedPopulationModel instance is shared: a later fix_parameters call on
the controller silently changes the value used by an earlier posterior /
predictive model, and fixing a further parameter leaves the earlier posterior
with inconsistent names / counts so that it cannot be evaluated any more.
"""
import sys
import warnings

repo = sys.argv[1] if len(sys.argv) > 1 else '/repo'
sys.path.insert(0, repo)

import numpy as np
import pandas as pd
import pints
import chi

warnings.simplefilter('ignore')


class ToyModel(chi.MechanisticModel):
    """y = a * exp(-b t) + c (analytic, no solver needed)."""
    def __init__(self):
        super(ToyModel, self).__init__()
        self._sens = False

    def enable_sensitivities(self, enabled, parameter_names=None):
        self._sens = bool(enabled)

    def has_sensitivities(self):
        return self._sens

    def n_outputs(self):
        return 1

    def n_parameters(self):
        return 3

    def outputs(self):
        return ['y']

    def parameters(self):
        return ['a', 'b', 'c']

    def simulate(self, parameters, times):
        a, b, c = [float(p) for p in parameters]
        t = np.asarray(times, dtype=float)
        return np.array([a * np.exp(-b * t) + c])


rng = np.random.default_rng(0)
rows = []
for _id in [1, 2, 3]:
    for t in [0.5, 1.0, 2.0]:
        rows.append({
            'ID': _id, 'Time': t, 'Observable': 'y',
            'Value': rng.uniform(0.5, 2)})
data = pd.DataFrame(rows)


def make_controller():
    c = chi.ProblemModellingController(ToyModel(), [chi.GaussianErrorModel()])
    c.set_population_model(chi.ComposedPopulationModel([
        chi.PooledModel(), chi.GaussianModel(), chi.PooledModel(),
        chi.LogNormalModel()]))
    c.set_data(data)
    return c


def prior(n):
    return pints.ComposedLogPrior(*[pints.UniformLogPrior(0, 5)] * n)


violated = False

# Reference: posterior / predictive model with 'Pooled a' fixed at 1
c = make_controller()
print('population parameters:', c.get_parameter_names())
c.fix_parameters({'Pooled a': 1.0})
c.set_log_prior(prior(5))
post = c.get_log_posterior()
pred = c.get_predictive_model()
x = rng.uniform(0.5, 1.5, size=post.n_parameters())
score_before = post(x)
sample_before = pred.sample(
    x[-5:], [1.0], n_samples=2, seed=1, return_df=False).flatten()
names_before = post.get_parameter_names()

# 1. Re-fix the parameter at another value on the CONTROLLER (e.g. to build a
#    second posterior for a sensitivity analysis)
c.fix_parameters({'Pooled a': 2.0})
score_after = post(x)
sample_after = pred.sample(
    x[-5:], [1.0], n_samples=2, seed=1, return_df=False).flatten()
print('earlier posterior  : %.6f before, %.6f after controller re-fix'
      % (score_before, score_after))
print('earlier pred. model:', sample_before, 'before,', sample_after, 'after')
if not np.isclose(score_before, score_after):
    violated = True
    print('VIOLATION: the earlier log-posterior silently changed its fixed '
          'value.')
if not np.allclose(sample_before, sample_after):
    violated = True
    print('VIOLATION: the earlier predictive model silently changed its '
          'fixed value.')

# 2. Fix a further parameter on the controller
c.fix_parameters({'Pooled a': 1.0, 'Pooled c': 2.0})
names_after = post.get_parameter_names()
print('earlier posterior: n_parameters %d, %d names'
      % (post.n_parameters(), len(names_after)))
if names_after != names_before or len(names_after) != post.n_parameters():
    violated = True
    print('VIOLATION: names / counts of the earlier posterior no longer list '
          'its free parameters:', names_after)
try:
    score = post(x)
    if not np.isclose(score, score_before):
        violated = True
        print('VIOLATION: earlier posterior evaluates to', score)
except Exception as e:
    violated = True
    print('VIOLATION: earlier posterior cannot be evaluated any more: '
          '%s: %s' % (type(e).__name__, e))

# Control: at the individual level earlier objects are NOT affected
c = chi.ProblemModellingController(ToyModel(), [chi.GaussianErrorModel()])
c.set_data(data)
c.fix_parameters({'a': 1.0})
c.set_log_prior(prior(3))
post = c.get_log_posterior(individual='1')
before = post([0.5, 0.6, 0.7])
c.fix_parameters({'a': 2.0})
print('individual-level control: %.6f before, %.6f after'
      % (before, post([0.5, 0.6, 0.7])))

sys.exit(1 if violated else 0)
