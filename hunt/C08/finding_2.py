"""
C08 finding 2: ReducedPopulationModel does not report the number of modelled
individuals of the wrapped model.

ReducedPopulationModel forwards set_n_ids to the wrapped model but not n_ids():
the inherited PopulationModel.n_ids() always returns 1.  Consumers of n_ids()
(ComposedPopulationModel.__init__) therefore treat a reduced heterogeneous
model differently from the unreduced one: the number of individuals is not
propagated to the other sub-models, so names / counts of the composite differ
from the composite of the unreduced models with the fixed names removed, and
the composite cannot be evaluated for the modelled individuals.
"""
import sys

repo = sys.argv[1] if len(sys.argv) > 1 else '/repo'
sys.path.insert(0, repo)

import numpy as np
import chi

violated = False

# 1. Accessor itself
het = chi.HeterogeneousModel(n_dim=1, n_ids=3)
red = chi.ReducedPopulationModel(het)
print('wrapped n_ids():', het.n_ids(), ' reduced n_ids():', red.n_ids())
if red.n_ids() != het.n_ids():
    violated = True
    print('VIOLATION: reduced model reports a different number of '
          'individuals than the wrapped model.')
red.set_n_ids(4)
print('after set_n_ids(4): wrapped', het.n_ids(), ' reduced', red.n_ids())
if red.n_ids() != 4:
    violated = True
    print('VIOLATION: n_ids() of the reduced model ignores set_n_ids.')

# 2. Consequence: composite with a reduced sub-model
fixed = {'ID 2 Dim. 1': 0.7}
red = chi.ReducedPopulationModel(chi.HeterogeneousModel(n_dim=1, n_ids=3))
red.fix_parameters(fixed)
composed = chi.ComposedPopulationModel(
    [red, chi.HeterogeneousModel(n_dim=1), chi.GaussianModel(n_dim=1)])
reference = chi.ComposedPopulationModel([
    chi.HeterogeneousModel(n_dim=1, n_ids=3),
    chi.HeterogeneousModel(n_dim=1), chi.GaussianModel(n_dim=1)])
expected = [n for n in reference.get_parameter_names() if n not in fixed]
print('names with reduced sub-model :', composed.get_parameter_names())
print('expected (unreduced - fixed) :', expected)
if composed.get_parameter_names() != expected:
    violated = True
    print('VIOLATION: composite of the reduced model does not list the free '
          'parameters of the composite of the unreduced model.')

full = np.array([0.5, 0.7, 0.9, 1.1, 1.2, 1.3, 1.0, 0.4])
obs = np.array([[0.5, 1.1, 0.8], [0.7, 1.2, 1.4], [0.9, 1.3, 0.6]])
ref_score = reference.compute_log_likelihood(full, obs)
try:
    free = np.array([0.5, 0.9, 1.1, 1.2, 1.3, 1.0, 0.4])
    score = composed.compute_log_likelihood(free, obs)
    print('score reduced %s, unreduced %s' % (score, ref_score))
    if not np.isclose(score, ref_score):
        violated = True
        print('VIOLATION: scores differ.')
except Exception as e:
    violated = True
    print('unreduced score:', ref_score)
    print('VIOLATION: composite with reduced sub-model cannot be evaluated: '
          '%s: %s' % (type(e).__name__, e))

sys.exit(1 if violated else 0)
