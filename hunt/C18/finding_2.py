"""
chi.HierarchicalLogLikelihood keeps a reference to the caller's population
model and reconfigures it in place (set_n_ids). Using the same population
model for a second hierarchical log-likelihood with a different number of
individuals (e.g. a control and a treatment group) silently invalidates the
first posterior: its cached dimension no longer matches its parameter names /
IDs, initial points cannot be sampled any more (so no controller can be
constructed) and, for models without heterogeneous dimensions, the posterior
can no longer be evaluated, which the OptimisationController turns into a
table of NaNs.
"""
import sys
import traceback
import warnings

sys.path.insert(0, sys.argv[1])
warnings.simplefilter('ignore')

import numpy as np  # noqa
import pints  # noqa
import chi  # noqa


class Line(chi.MechanisticModel):
    """y = p1 + p2 * t"""
    def __init__(self):
        super().__init__()
        self._sens = False

    def enable_sensitivities(self, enabled, parameter_names=None):
        self._sens = bool(enabled)

    def has_sensitivities(self):
        return self._sens

    def n_outputs(self):
        return 1

    def n_parameters(self):
        return 2

    def outputs(self):
        return ['y']

    def parameters(self):
        return ['p1', 'p2']

    def simulate(self, parameters, times):
        t = np.asarray(times, dtype=float)
        y = (parameters[0] + parameters[1] * t)[np.newaxis, :]
        if not self._sens:
            return y
        s = np.zeros((len(t), 1, 2))
        s[:, 0, 0] = 1
        s[:, 0, 1] = t
        return y, s


def log_likelihoods(n_ids, prefix):
    rng = np.random.default_rng(n_ids)
    times = np.array([0.5, 1., 2., 3.])
    lls = []
    for i in range(n_ids):
        ll = chi.LogLikelihood(
            Line(), chi.GaussianErrorModel(),
            1 + times + rng.normal(0, 0.1, size=4), times)
        ll.set_id('%s%d' % (prefix, i + 1))
        lls.append(ll)
    return lls


def posterior(population_model, n_ids, prefix):
    ll = chi.HierarchicalLogLikelihood(
        log_likelihoods(n_ids, prefix), population_model)
    n_top = ll.n_parameters(exclude_bottom_level=True)
    log_prior = pints.ComposedLogPrior(
        *[pints.LogNormalLogPrior(-0.5, 0.2)] * n_top)
    return chi.HierarchicalLogPosterior(ll, log_prior)


def check(label, post):
    """Checks that the posterior is self-consistent and usable."""
    ok = True
    n = post.n_parameters()
    names = post.get_parameter_names()
    ids = post.get_id()
    if (len(names) != n) or (len(ids) != n):
        print(
            '  %s: n_parameters()=%d, but %d parameter names and %d IDs'
            % (label, n, len(names), len(ids)))
        ok = False
    try:
        x = post.sample_initial_parameters(2, seed=3)
        if x.shape != (2, n):
            print('  %s: initial points have shape %s' % (label, x.shape))
            ok = False
        post(x[0])
    except Exception as e:
        print('  %s: sampling / evaluating initial points fails: %r'
              % (label, e))
        ok = False
    try:
        controller = chi.OptimisationController(post, seed=3)
        controller.set_n_runs(1)
        controller.set_parallel_evaluation(False)
        result = controller.run(n_max_iterations=2)
        if len(result) != len(names) or result['Estimate'].isnull().any():
            print('  %s: optimisation table has %d rows for %d names, '
                  'NaN estimates: %s' % (
                      label, len(result), len(names),
                      bool(result['Estimate'].isnull().any())))
            ok = False
    except Exception as e:
        print('  %s: OptimisationController fails: %r' % (label, e))
        ok = False
    return ok


failed = False
cases = {
    'Composed[LogNormal, Pooled, Heterogeneous]': lambda: (
        chi.ComposedPopulationModel([
            chi.LogNormalModel(), chi.PooledModel(),
            chi.HeterogeneousModel()])),
    'GaussianModel(3)': lambda: chi.GaussianModel(n_dim=3)}
for name, factory in cases.items():
    print(name)
    population_model = factory()
    post_a = posterior(population_model, 4, 'control ')
    if not check('posterior A alone', post_a):
        print('  (unexpected: posterior A is broken from the start)')
        failed = True
        continue

    # Same population model, other group with a different size
    post_b = posterior(population_model, 2, 'treated ')
    ok_b = check('posterior B', post_b)
    ok_a = check('posterior A after constructing B', post_a)
    if not (ok_a and ok_b):
        failed = True

sys.exit(1 if failed else 0)
