"""
chi.PosteriorPredictiveModel.sample documents covariates of shape
(n_samples, n_cov) (one covariate row per simulated individual), but every
one of the n_samples posterior predictive samples is simulated with the FIRST
covariate row: for each sample the wrapped PopulationPredictiveModel is asked
for n_samples patients and only patient 0 is kept.
The posterior dataset is produced by chi.SamplingController for a
hierarchical posterior with a CovariatePopulationModel.
"""
import sys
import warnings

sys.path.insert(0, sys.argv[1])
warnings.simplefilter('ignore')

import numpy as np  # noqa
import pints  # noqa
import chi  # noqa


class Const(chi.MechanisticModel):
    """y = p1"""
    def __init__(self):
        super().__init__()
        self._sens = False

    def enable_sensitivities(self, enabled, parameter_names=None):
        self._sens = bool(enabled)

    def has_sensitivities(self):
        return self._sens

    def n_outputs(self):
        return 1

    def n_parameters(self):
        return 1

    def outputs(self):
        return ['y']

    def parameters(self):
        return ['p1']

    def simulate(self, parameters, times):
        t = np.asarray(times, dtype=float)
        y = np.full((1, len(t)), float(parameters[0]))
        if not self._sens:
            return y
        return y, np.ones((len(t), 1, 1))


# Population model: p1 ~ N(mean + beta * weight, tiny std), pooled noise
population_model = chi.ComposedPopulationModel([
    chi.CovariatePopulationModel(
        chi.GaussianModel(), chi.LinearCovariateModel(cov_names=['Weight'])),
    chi.PooledModel()])
population_model.set_dim_names(['p1', 'Sigma'])

# Hierarchical posterior of three individuals with weights 0, 10, 20
weights = np.array([[0.], [10.], [20.]])
times = np.array([1., 2., 3.])
log_likelihoods = []
for idx, w in enumerate(weights[:, 0]):
    ll = chi.LogLikelihood(
        Const(), chi.GaussianErrorModel(), np.full(3, 1 + w), times)
    ll.set_id('patient %d' % idx)
    log_likelihoods.append(ll)
log_likelihood = chi.HierarchicalLogLikelihood(
    log_likelihoods, population_model, covariates=weights)
names = log_likelihood.get_parameter_names(exclude_bottom_level=True)
print('Population parameters:', names)
# (tight priors, so the posterior draws are known up to 1e-3)
box = {
    'Mean p1': (1, 1.001), 'Std. p1': (1e-4, 2e-4),
    'Mean p1 Weight': (1, 1.001), 'Std. p1 Weight': (-1e-9, 1e-9),
    'Pooled Sigma': (1e-4, 2e-4)}
log_prior = pints.ComposedLogPrior(
    *[pints.UniformLogPrior(*box[n]) for n in names])
log_posterior = chi.HierarchicalLogPosterior(log_likelihood, log_prior)

controller = chi.SamplingController(log_posterior, seed=2)
controller.set_n_runs(2)
controller.set_parallel_evaluation(False)
samples = controller.run(n_iterations=4)

# Posterior predictive model for the population
predictive_model = chi.PopulationPredictiveModel(
    chi.PredictiveModel(Const(), [chi.GaussianErrorModel()]),
    population_model)
model = chi.PosteriorPredictiveModel(predictive_model, samples)

# One covariate row per simulated individual
result = model.sample(times=[1.], n_samples=3, seed=5, covariates=weights)
values = result[result['Observable'] == 'y'].sort_values('ID')[
    'Value'].to_numpy(dtype=float)
expected = 1 + weights[:, 0]
print('Covariates of the samples :', weights[:, 0])
print('Expected measurements (+-0.05):', expected)
print('Posterior predictive samples  :', values)

if (len(values) != 3) or np.any(np.abs(values - expected) > 0.05):
    print('The samples do not follow their covariates.')
    sys.exit(1)
sys.exit(0)
