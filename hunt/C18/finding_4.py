"""
chi.PopulationFilterLogPosterior.sample_initial_parameters cannot produce
initial points when the population model contains pooled / heterogeneous
dimensions below the first level: a ComposedPopulationModel nested in a
ComposedPopulationModel, or a ReducedPopulationModel around a composed model.
The bottom-level columns are selected per first-level sub-model
("skip the sub-model if n_hierarchical_dim() == 0, else take all its
dimensions"), so the pooled dimension of the nested model is kept and the
draws do not fit into the posterior's dimension. Constructing a
chi.SamplingController / OptimisationController for such a posterior fails.
(The flat composition of the same sub-models works. Related to, but not the
same input class as, the known isinstance-based special-dimension detection
for covariate-wrapped pooled models.)
"""
import sys
import warnings

sys.path.insert(0, sys.argv[1])
warnings.simplefilter('ignore')

import numpy as np  # noqa
import pints  # noqa
import chi  # noqa


class Quadratic(chi.MechanisticModel):
    """y = p1 + p2 * t + p3 * t^2"""
    def __init__(self):
        super().__init__()
        self._sens = False

    def enable_sensitivities(self, enabled, parameter_names=None):
        self._sens = bool(enabled)

    def has_sensitivities(self):
        return self._sens

    def n_outputs(self):
        return 1

    def n_parameters(self):
        return 3

    def outputs(self):
        return ['y']

    def parameters(self):
        return ['p1', 'p2', 'p3']

    def simulate(self, parameters, times):
        t = np.asarray(times, dtype=float)
        p = np.asarray(parameters, dtype=float)
        y = (p[0] + p[1] * t + p[2] * t**2)[np.newaxis, :]
        if not self._sens:
            return y
        s = np.zeros((len(t), 1, 3))
        s[:, 0, 0] = 1
        s[:, 0, 1] = t
        s[:, 0, 2] = t**2
        return y, s


def build(population_model, n_top):
    rng = np.random.default_rng(2)
    population_filter = chi.GaussianFilter(rng.normal(2, .5, size=(6, 1, 3)))
    log_prior = pints.ComposedLogPrior(
        *[pints.LogNormalLogPrior(-0.5, 0.2)] * n_top)
    return chi.PopulationFilterLogPosterior(
        population_filter, [1., 2., 3.], Quadratic(), population_model,
        log_prior, sigma=[0.3], n_samples=4)


def reduced():
    model = chi.ReducedPopulationModel(chi.ComposedPopulationModel([
        chi.LogNormalModel(), chi.PooledModel(), chi.GaussianModel()]))
    model.fix_parameters({'Std. Dim. 1': 0.2})
    return model


cases = {
    'flat Composed[LogNormal, Pooled, Gaussian] (reference)': (
        lambda: chi.ComposedPopulationModel([
            chi.LogNormalModel(), chi.PooledModel(), chi.GaussianModel()]),
        5),
    'Composed[Composed[LogNormal, Pooled], Gaussian]': (
        lambda: chi.ComposedPopulationModel([
            chi.ComposedPopulationModel([
                chi.LogNormalModel(), chi.PooledModel()]),
            chi.GaussianModel()]), 5),
    'Reduced(Composed[LogNormal, Pooled, Gaussian]), one std. fixed': (
        reduced, 4)}

failed = False
for name, (factory, n_top) in cases.items():
    try:
        posterior = build(factory(), n_top)
    except Exception as e:
        print('%s: cannot be constructed (%r), skipped' % (name, e))
        continue
    n = posterior.n_parameters()
    try:
        x = posterior.sample_initial_parameters(n_samples=2, seed=1)
        y = posterior.sample_initial_parameters(n_samples=2, seed=1)
    except Exception as e:
        print('%s:\n  n_parameters() = %d, sample_initial_parameters '
              'raises %r' % (name, n, e))
        failed = True
        try:
            chi.SamplingController(posterior, seed=1)
        except Exception as e:
            print('  SamplingController(posterior) raises %r' % e)
        continue
    ok = (x.shape == (2, n)) and np.array_equal(x, y)
    print('%s:\n  initial points of shape %s for %d parameters, '
          'reproducible: %s' % (name, x.shape, n, np.array_equal(x, y)))
    if not ok:
        failed = True

sys.exit(1 if failed else 0)
