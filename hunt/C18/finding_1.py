"""
The posterior dataset that chi.SamplingController.run returns for an
individual chi.LogPosterior cannot be fed to
chi.compute_pointwise_loglikelihood: the dataset only has the dimensions
(chain, draw), the function accepts that layout in its input check, but then
unconditionally reads ``posterior_samples.individual``.
"""
import sys
import traceback
import warnings

sys.path.insert(0, sys.argv[1])
warnings.simplefilter('ignore')

import numpy as np  # noqa
import pints  # noqa
import chi  # noqa


class Line(chi.MechanisticModel):
    """y = p1 + p2 * t"""
    def __init__(self):
        super().__init__()
        self._sens = False

    def enable_sensitivities(self, enabled, parameter_names=None):
        self._sens = bool(enabled)

    def has_sensitivities(self):
        return self._sens

    def n_outputs(self):
        return 1

    def n_parameters(self):
        return 2

    def outputs(self):
        return ['y']

    def parameters(self):
        return ['p1', 'p2']

    def simulate(self, parameters, times):
        t = np.asarray(times, dtype=float)
        y = (parameters[0] + parameters[1] * t)[np.newaxis, :]
        if not self._sens:
            return y
        s = np.zeros((len(t), 1, 2))
        s[:, 0, 0] = 1
        s[:, 0, 1] = t
        return y, s


times = np.array([0.5, 1., 2., 3.])
obs = np.array([1.2, 1.9, 3.1, 3.8])
failed = False
for label in ['7', None]:
    log_likelihood = chi.LogLikelihood(
        Line(), chi.GaussianErrorModel(), obs, times)
    if label is not None:
        log_likelihood.set_id(label)
    log_prior = pints.ComposedLogPrior(
        pints.GaussianLogPrior(1, 1), pints.GaussianLogPrior(1, 1),
        pints.LogNormalLogPrior(-1, 0.3))
    log_posterior = chi.LogPosterior(log_likelihood, log_prior)

    controller = chi.SamplingController(log_posterior, seed=1)
    controller.set_n_runs(2)
    controller.set_parallel_evaluation(False)
    samples = controller.run(n_iterations=5)
    print('ID %s: dataset dims %s' % (label, dict(samples.sizes)))

    try:
        pw = chi.compute_pointwise_loglikelihood(log_likelihood, samples)
    except Exception:
        print(
            'compute_pointwise_loglikelihood fails for the dataset returned '
            'by SamplingController.run:')
        traceback.print_exc(limit=2, file=sys.stdout)
        failed = True
        continue

    # If it runs, the values have to belong to the matching draws
    names = log_likelihood.get_parameter_names()
    for chain in range(2):
        for draw in range(5):
            x = [float(samples[n].values[chain, draw]) for n in names]
            ref = log_likelihood.compute_pointwise_ll(x)
            if not np.allclose(pw.values[chain, draw], ref):
                print('Wrong pointwise log-likelihood', chain, draw)
                failed = True

sys.exit(1 if failed else 0)
