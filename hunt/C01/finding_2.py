"""
C01 finding 2: with replicate measurements (tied times) the pointwise
log-likelihoods are NOT listed in the order of the measurements, although the
measurements are passed in time order.

LogLikelihood.__init__ re-sorts the (already non-decreasing, this is enforced
two lines earlier) times with np.argsort(output_times), whose default
'quicksort' is not stable. For more than a handful of measurements the
observations that share a time point are permuted among themselves, so
compute_pointwise_ll(p)[j] is the log-density of some other replicate than the
j-th measurement (the total is unaffected, which is why nothing else notices).
"""
import sys
import warnings

repo = sys.argv[1] if len(sys.argv) > 1 else '/repo'
sys.path.insert(0, repo)

import numpy as np
import chi

warnings.simplefilter('ignore')


class Decay(chi.MechanisticModel):
    """Analytic one-output toy model: y = a exp(-b t) + 0.3"""
    def __init__(self):
        super().__init__()
        self._sens = False

    def enable_sensitivities(self, enabled, parameter_names=None):
        self._sens = bool(enabled)

    def has_sensitivities(self):
        return self._sens

    def n_outputs(self):
        return 1

    def n_parameters(self):
        return 2

    def outputs(self):
        return ['y']

    def parameters(self):
        return ['a', 'b']

    def simulate(self, parameters, times):
        a, b = parameters
        times = np.asarray(times, dtype=float)
        return np.array([a * np.exp(-b * times) + 0.3])


a, b, sigma = 1.1, 0.3, 0.5
violated = False
for n_times, n_replicates in [(3, 2), (4, 5), (4, 10), (5, 20), (4, 50)]:
    # n_replicates measurements at each of n_times time points, in time order
    times = np.repeat(np.arange(n_times, dtype=float), n_replicates)
    values = 0.5 + 0.01 * np.arange(len(times))  # all distinct
    log_likelihood = chi.LogLikelihood(
        Decay(), chi.GaussianErrorModel(), values, times)
    pw = log_likelihood.compute_pointwise_ll([a, b, sigma])

    # Density of the j-th measurement given the prediction at its time
    ybar = a * np.exp(-b * times) + 0.3
    ref = -np.log(2 * np.pi) / 2 - np.log(sigma) \
        - (values - ybar)**2 / sigma**2 / 2

    n_wrong = int(np.sum(~np.isclose(pw, ref)))
    print(
        '%d times x %d replicates: total ok = %s, pointwise entries that are '
        'not the density of their measurement: %d of %d' % (
            n_times, n_replicates, np.isclose(np.sum(pw), np.sum(ref)),
            n_wrong, len(ref)))
    if n_wrong > 0 or not np.isclose(np.sum(pw), np.sum(ref)):
        violated = True

print('VIOLATED' if violated else 'holds')
sys.exit(1 if violated else 0)
