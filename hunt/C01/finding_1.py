"""
C01 finding 1: a LogLikelihood whose measurement set is empty (no (time, value)
pairs for any output) is constructed without error, but with an SBML / PKPD
mechanistic model it cannot be evaluated: __call__ returns -inf (the IndexError
raised inside SBMLModel.simulate is swallowed) and compute_pointwise_ll raises
IndexError. The sum over an empty set of measurements is 0 and the pointwise
vector is empty. Through ProblemModellingController an individual without
measurements of the modelled observable therefore turns the whole hierarchical
log-likelihood into -inf at every parameter vector.
"""
import sys
import os
import warnings

repo = sys.argv[1] if len(sys.argv) > 1 else '/repo'
try:  # sandbox without sundials: stand-in for the compiled myokit simulation
    if os.path.isdir('/tmp/seedhelp'):
        sys.path.insert(0, '/tmp/seedhelp')
        import refsim
        refsim.install()
except Exception:
    pass
sys.path.insert(0, repo)

import numpy as np
import pandas as pd
import pints
import chi
import chi.library

warnings.simplefilter('ignore')
violated = False

model = chi.library.ModelLibrary().one_compartment_pk_model()
params = [1.0, 1.5, 0.7, 0.4]

# 1. Direct: no measurement at all (documented container forms, just empty)
ll = chi.LogLikelihood(
    model, chi.GaussianErrorModel(), observations=[[]], times=[[]])
print('n_observations:', ll.n_observations())
score = ll(params)
print('log-likelihood of empty measurement set:', score, '(expected 0)')
if not score == 0:
    violated = True
try:
    pw = ll.compute_pointwise_ll(params)
    print('pointwise:', pw, '(expected empty array)')
    if len(pw) != 0:
        violated = True
except Exception as e:
    print('compute_pointwise_ll raised', repr(e))
    violated = True

# 2. Same thing through the controller: individual 2 has only a dose record
# and a measurement of an observable that is not modelled
model.set_administration('central')
rows = []
for i in [1, 2, 3]:
    rows.append(dict(ID=i, Time=0.0, Observable=np.nan, Value=np.nan,
                     Dose=2.0, Duration=0.01))
    for t in [0.5, 1.0, 2.0]:
        rows.append(dict(
            ID=i, Time=t, Observable='conc' if i != 2 else 'weight',
            Value=1.0 / (t + i), Dose=np.nan, Duration=np.nan))
data = pd.DataFrame(rows)
problem = chi.ProblemModellingController(model, chi.GaussianErrorModel())
problem.set_data(
    data, output_observable_dict={'central.drug_concentration': 'conc'})
problem.set_population_model(chi.PooledModel(n_dim=4))
problem.set_log_prior(pints.ComposedLogPrior(
    *[pints.UniformLogPrior(0, 10)] * 4))
log_posterior = problem.get_log_posterior()
score = log_posterior(params)

# Reference: the two measured individuals alone
ref = 0
for i in ['1', '3']:
    problem2 = chi.ProblemModellingController(model, chi.GaussianErrorModel())
    problem2.set_data(
        data[data.ID != 2],
        output_observable_dict={'central.drug_concentration': 'conc'})
    problem2.set_log_prior(pints.ComposedLogPrior(
        *[pints.UniformLogPrior(0, 10)] * 4))
    ref += problem2.get_log_posterior(i).get_log_likelihood()(params)
ref += log_posterior.get_log_prior()(params)
print('hierarchical log-posterior with an unmeasured individual:', score,
      '(expected %f)' % ref)
if not np.isclose(score, ref):
    violated = True

print('VIOLATED' if violated else 'holds')
sys.exit(1 if violated else 0)
