"""
C01 finding 3: chi.compute_pointwise_loglikelihood cannot evaluate the
pointwise log-likelihoods of an individual chi.LogLikelihood at the posterior
samples that chi.SamplingController returns for that very log-posterior.

SamplingController.run labels the samples of a (non-hierarchical) LogPosterior
with the dimensions (chain, draw). compute_pointwise_loglikelihood explicitly
admits such two dimensional datasets (expected_dims = ['chain', 'draw']) but
then unconditionally reads posterior_samples.individual -> AttributeError.
"""
import sys
import warnings

repo = sys.argv[1] if len(sys.argv) > 1 else '/repo'
sys.path.insert(0, repo)

import numpy as np
import pints
import chi

warnings.simplefilter('ignore')


class Decay(chi.MechanisticModel):
    """Analytic two-output toy model: y_k = (k + 1) a exp(-b t) + 0.3"""
    def __init__(self):
        super().__init__()
        self._sens = False

    def enable_sensitivities(self, enabled, parameter_names=None):
        self._sens = bool(enabled)

    def has_sensitivities(self):
        return self._sens

    def n_outputs(self):
        return 2

    def n_parameters(self):
        return 2

    def outputs(self):
        return ['y0', 'y1']

    def parameters(self):
        return ['a', 'b']

    def simulate(self, parameters, times):
        a, b = parameters
        times = np.asarray(times, dtype=float)
        return np.array(
            [(k + 1) * a * np.exp(-b * times) + 0.3 for k in range(2)])


times = [[0, 1, 1, 2], [0.5, 1, 3]]
obs = [[1.0, 0.5, 0.6, 0.7], [1.2, 2.2, 0.4]]
log_likelihood = chi.LogLikelihood(
    Decay(), [chi.GaussianErrorModel(), chi.LogNormalErrorModel()], obs, times)
log_likelihood.set_id('7')
log_posterior = chi.LogPosterior(
    log_likelihood,
    pints.ComposedLogPrior(*[pints.UniformLogPrior(0.1, 3)] * 4))

controller = chi.SamplingController(log_posterior, seed=1)
controller.set_n_runs(2)
controller.set_parallel_evaluation(False)
samples = controller.run(n_iterations=5)
print('dimensions of the sampled posterior:', dict(samples.sizes))

violated = False
try:
    pw = chi.compute_pointwise_loglikelihood(log_likelihood, samples)
    names = log_likelihood.get_parameter_names()
    for chain in range(2):
        for draw in range(5):
            p = [float(samples[n].sel(chain=chain, draw=draw)) for n in names]
            got = pw.sel(chain=chain, draw=draw).values
            ok = np.allclose(got, log_likelihood.compute_pointwise_ll(p)) \
                and np.isclose(np.sum(got), log_likelihood(p))
            if not ok:
                print('mismatch at chain %d draw %d' % (chain, draw))
                violated = True
except Exception as e:
    print('compute_pointwise_loglikelihood raised', repr(e))
    violated = True

print('VIOLATED' if violated else 'holds')
sys.exit(1 if violated else 0)
