"""
C01 finding 4: a LogLikelihood over an SBML / PKPD model whose mechanistic
parameters are ALL fixed with fix_parameters (only the noise parameters are
inferred) can be evaluated with __call__ / compute_pointwise_ll, but not with
evaluateS1: ReducedMechanisticModel.enable_sensitivities hands an empty list of
free parameters to SBMLModel.enable_sensitivities, which raises
ValueError('None of the parameters could be identified ...').

The failure also depends on the call history: the same fix_parameters call that
succeeds on a fresh LogLikelihood raises this ValueError when evaluateS1 has
been called before (sensitivities are then enabled and fix_parameters
re-enables them for the, now empty, set of free parameters).
"""
import sys
import os
import warnings

repo = sys.argv[1] if len(sys.argv) > 1 else '/repo'
try:  # sandbox without sundials: stand-in for the compiled myokit simulation
    if os.path.isdir('/tmp/seedhelp'):
        sys.path.insert(0, '/tmp/seedhelp')
        import refsim
        refsim.install()
except Exception:
    pass
sys.path.insert(0, repo)

import numpy as np
import chi
import chi.library

warnings.simplefilter('ignore')
violated = False

model = chi.library.ModelLibrary().one_compartment_pk_model()
times = [0.5, 1, 1, 2]
obs = [1.0, 0.8, 0.7, 0.4]
psi = {
    'central.drug_amount': 2.0, 'central.size': 1.5,
    'global.elimination_rate': 0.6}
sigma = [0.3]


def make():
    return chi.LogLikelihood(model, chi.GaussianErrorModel(), obs, times)


reference = make()(list(psi.values()) + sigma)

# History A: fix all mechanistic parameters, then evaluate
ll = make()
ll.fix_parameters(psi)
print('free parameters:', ll.get_parameter_names())
score = ll(sigma)
print('__call__:', score, 'reference:', reference)
if not np.isclose(score, reference):
    violated = True
try:
    score, sens = ll.evaluateS1(sigma)
    eps = 1e-6
    fd = (ll([sigma[0] + eps]) - ll([sigma[0] - eps])) / 2 / eps
    print('evaluateS1:', score, sens, 'finite difference:', fd)
    if not (np.isclose(score, reference) and np.allclose(sens, [fd], 1e-4)):
        violated = True
except Exception as e:
    print('evaluateS1 raised', repr(e))
    violated = True

# History B: evaluateS1 first, then the same fix_parameters call
ll = make()
ll.evaluateS1(list(psi.values()) + sigma)
try:
    ll.fix_parameters(psi)
    score = ll(sigma)
    print('after evaluateS1 + fix_parameters:', score)
    if not np.isclose(score, reference):
        violated = True
except Exception as e:
    print('fix_parameters after evaluateS1 raised', repr(e))
    violated = True

print('VIOLATED' if violated else 'holds')
sys.exit(1 if violated else 0)
