"""
PosteriorPredictiveModel.sample / PriorPredictiveModel.sample ignore the
per-sample covariate rows: every virtual individual is drawn conditional on
the FIRST covariate row, although covariates of shape (n_samples, n_cov) are
documented and PopulationPredictiveModel.sample honours them.
"""
import sys
sys.path.insert(0, sys.argv[1])
import copy
import warnings
warnings.filterwarnings('ignore')

import numpy as np
import pints
import xarray as xr
import chi


class Toy(chi.MechanisticModel):
    # y(t) = a * exp(-k t)
    def __init__(self):
        super().__init__()

    def copy(self):
        return copy.deepcopy(self)

    def enable_sensitivities(self, enabled, parameter_names=None):
        pass

    def has_sensitivities(self):
        return False

    def n_outputs(self):
        return 1

    def n_parameters(self):
        return 2

    def outputs(self):
        return ['y']

    def parameters(self):
        return ['a', 'k']

    def simulate(self, parameters, times):
        a, k = parameters
        return np.array([a * np.exp(-k * np.asarray(times, dtype=float))])

    def supports_dosing(self):
        return False


# a ~ N(2 + 100 * cov, 0.01), k = 0.5 pooled, sigma = 0.01 pooled
predictive = chi.PredictiveModel(Toy(), [chi.GaussianErrorModel()])
cpm = chi.CovariatePopulationModel(
    chi.GaussianModel(), chi.LinearCovariateModel(cov_names=['Sex']))
cpm.set_population_parameters([[0, 0]])
pop = chi.ComposedPopulationModel(
    [cpm, chi.PooledModel(), chi.PooledModel()])
ppm = chi.PopulationPredictiveModel(predictive, pop)
names = ppm.get_parameter_names()
values = [2, 0.01, 100, 0.5, 0.01]

n = 6
covariates = np.array([[0.], [1.], [0.], [1.], [0.], [1.]])
expected = 2 + 100 * covariates[:, 0]  # measurement at t = 0

# Reference: the population predictive model itself honours the rows
ref = ppm.sample(
    values, [0.], n_samples=n, seed=1, return_df=False,
    covariates=covariates)[0, 0]
print('expected mean of y(0) per ID      :', expected)
print('PopulationPredictiveModel.sample  :', np.round(ref, 2))

# Posterior predictive model with a (degenerate) posterior at `values`
posterior = xr.Dataset(
    {name: (('chain', 'draw'), np.full((1, 3), float(v)))
     for name, v in zip(names, values)},
    coords={'chain': [0], 'draw': [0, 1, 2]})
post = chi.PosteriorPredictiveModel(ppm, posterior)
df = post.sample([0.], n_samples=n, seed=1, covariates=covariates)
post_vals = df.sort_values('ID')['Value'].to_numpy(dtype=float)
print('PosteriorPredictiveModel.sample   :', np.round(post_vals, 2))

# Prior predictive model with a very narrow prior around `values`
log_prior = pints.ComposedLogPrior(*[
    pints.UniformLogPrior(v - 1e-6, v + 1e-6) for v in values])
prior = chi.PriorPredictiveModel(ppm, log_prior)
df = prior.sample([0.], n_samples=n, seed=1, covariates=covariates)
prior_vals = df.sort_values('ID')['Value'].to_numpy(dtype=float)
print('PriorPredictiveModel.sample       :', np.round(prior_vals, 2))

bad = False
if not np.allclose(ref, expected, atol=0.5):
    print('VIOLATION: PopulationPredictiveModel ignores covariate rows')
    bad = True
if not np.allclose(post_vals, expected, atol=0.5):
    print('VIOLATION: PosteriorPredictiveModel samples are not conditional '
          'on the covariates of the respective individual (all use row 0)')
    bad = True
if not np.allclose(prior_vals, expected, atol=0.5):
    print('VIOLATION: PriorPredictiveModel samples are not conditional '
          'on the covariates of the respective individual (all use row 0)')
    bad = True
sys.exit(1 if bad else 0)
