"""
TruncatedGaussianModel: for mu / sigma <~ -7 the normalisation
1 - Phi(-mu/sigma) is computed by catastrophic cancellation.  The sampler
(scipy truncnorm) keeps drawing correct samples, but
  * compute_log_likelihood (and compute_sensitivities) return +inf for
    mu/sigma <= -8.3 and visibly wrong values around -8,
  * get_mean_and_std reports a negative mean / inf / nan.
So the density that is scored and the reported moments disagree with the
samples for parameter values in the support (any mu, sigma > 0).
"""
import sys
sys.path.insert(0, sys.argv[1])
import warnings
warnings.filterwarnings('ignore')

import numpy as np
from scipy.stats import truncnorm
import chi

model = chi.TruncatedGaussianModel()
bad = False
# (mu, sigma): e.g. a narrow population just below zero
for mu, sigma in [(-0.8, 0.1), (-1.0, 0.1), (-2.0, 0.1), (-9.0, 1.0)]:
    parameters = [mu, sigma]
    samples = model.sample(parameters, n_samples=50000, seed=1)
    psi = samples[:5]

    score = model.compute_log_likelihood(parameters, psi)
    score_s1 = model.compute_sensitivities(parameters, psi)[0]
    reference = np.sum(truncnorm.logpdf(
        psi[:, 0], a=-mu / sigma, b=np.inf, loc=mu, scale=sigma))
    with np.errstate(all='ignore'):
        mean, std = model.get_mean_and_std(parameters).flatten()

    print('mu = %.1f, sigma = %.1f (mu/sigma = %.0f)' % (
        mu, sigma, mu / sigma))
    print('  samples          : min %.4f, mean %.4f, std %.4f' % (
        samples.min(), samples.mean(), samples.std()))
    print('  get_mean_and_std : mean %s, std %s' % (mean, std))
    print('  log-likelihood of 5 samples: %s (evaluateS1: %s), '
          'reference %.4f' % (score, score_s1, reference))

    if not (np.isfinite(score) and abs(score - reference) < 1e-2):
        print('  VIOLATION: scored density disagrees with the distribution '
              'of the samples')
        bad = True
    if not (np.isfinite(mean) and np.isfinite(std)
            and abs(mean - samples.mean()) < 0.05 * samples.mean()
            and abs(std - samples.std()) < 0.05 * samples.std()):
        print('  VIOLATION: reported moments disagree with the samples')
        bad = True

sys.exit(1 if bad else 0)
