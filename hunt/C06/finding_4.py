"""
MultiplicativeGaussianErrorModel with negative mechanistic model outputs
(e.g. a change-from-baseline biomarker): the sampler draws
y = ybar + ybar * sigma_rel * eps, i.e. N(ybar, (sigma_rel |ybar|)^2), but the
log-likelihood uses sigma_tot = sigma_rel * ybar < 0 and evaluates to NaN
(log of a negative number) in compute_log_likelihood, compute_pointwise_ll
and compute_sensitivities.  The density that is scored is therefore not the
distribution of the samples for these model outputs.
"""
import sys
sys.path.insert(0, sys.argv[1])
import warnings
warnings.filterwarnings('ignore')

import numpy as np
from scipy import stats
import chi

model = chi.MultiplicativeGaussianErrorModel()
sigma_rel = 0.3
model_output = np.array([-2.0, -0.5, 1.0])

samples = model.sample([sigma_rel], model_output, n_samples=50000, seed=1)
print('model output      :', model_output)
print('sample means      :', np.round(samples.mean(axis=1), 3))
print('sample std        :', np.round(samples.std(axis=1), 3),
      '(sigma_rel * |ybar| =', sigma_rel * np.abs(model_output), ')')

# The samples are N(ybar, (sigma_rel |ybar|)^2) distributed
pvalues = [
    stats.kstest(
        samples[i], stats.norm(loc=y, scale=sigma_rel * abs(y)).cdf).pvalue
    for i, y in enumerate(model_output)]
print('KS p-values vs N(ybar, (sigma_rel |ybar|)^2):', np.round(pvalues, 3))

observations = samples[:, 0]
with np.errstate(all='ignore'):
    score = model.compute_log_likelihood(
        [sigma_rel], model_output, observations)
    pointwise = model.compute_pointwise_ll(
        [sigma_rel], model_output, observations)
    score_s1, _ = model.compute_sensitivities(
        [sigma_rel], model_output, np.ones((3, 1)), observations)
reference = stats.norm(
    loc=model_output, scale=sigma_rel * np.abs(model_output)).logpdf(
        observations)
print('log-likelihood of one sample per time point:', score)
print('pointwise log-likelihoods                  :', pointwise)
print('score of compute_sensitivities             :', score_s1)
print('log-density of the sampled distribution    :', reference,
      'sum', reference.sum())

bad = False
if min(pvalues) < 1e-3:
    print('Samples are not N(ybar, (sigma_rel |ybar|)^2) distributed.')
    bad = True
if not (np.isfinite(score) and abs(score - reference.sum()) < 1e-8):
    print('VIOLATION: the log-likelihood does not evaluate the density of '
          'the samples for negative model outputs')
    bad = True
if not np.allclose(pointwise, reference):
    print('VIOLATION: pointwise log-likelihoods differ from the density of '
          'the samples for negative model outputs')
    bad = True
sys.exit(1 if bad else 0)
