"""
CovariatePopulationModel(TruncatedGaussianModel).sample returns many
bit-identical draws: the samples of the individuals are not independent draws
from the (continuous) truncated Gaussian density.

CovariatePopulationModel.sample draws the individuals one by one and hands a
numpy Generator to TruncatedGaussianModel.sample, which converts it for EVERY
draw into an integer seed from only 10^6 values and re-seeds numpy's global
legacy generator with it.  Two individuals that receive the same integer
(birthday problem: ~n^2 / 2e6 pairs) get exactly the same value whenever they
belong to the same sub-population.
"""
import sys
sys.path.insert(0, sys.argv[1])
import warnings
warnings.filterwarnings('ignore')

import numpy as np
import chi

n = 20000
model = chi.CovariatePopulationModel(
    chi.TruncatedGaussianModel(), chi.LinearCovariateModel())
# Mu = 1 + 0.5 * cov, Sigma = 1 + 0 * cov
parameters = [1., 1., 0.5, 0.]

bad = False
for seed in [0, 1, 2]:
    samples = model.sample(
        parameters, covariates=[1.], n_samples=n, seed=seed)[:, 0]
    n_unique = len(np.unique(samples))
    print('seed %d: %d samples, %d distinct values (%d repeated draws)' % (
        seed, n, n_unique, n - n_unique))
    if n_unique != n:
        bad = True

# Same through a composed model (as used by PopulationPredictiveModel)
composed = chi.ComposedPopulationModel([model, chi.GaussianModel()])
samples = composed.sample(
    parameters + [0., 1.], covariates=[1.], n_samples=n, seed=3)
u0 = len(np.unique(samples[:, 0]))
u1 = len(np.unique(samples[:, 1]))
print('composed: distinct values truncated Gaussian dim: %d, '
      'Gaussian dim: %d (of %d)' % (u0, u1, n))
if u0 != n:
    bad = True

# Reference: the plain truncated Gaussian model has no ties
plain = chi.TruncatedGaussianModel().sample([1.5, 1.], n_samples=n, seed=0)
print('plain TruncatedGaussianModel: %d distinct values' % len(
    np.unique(plain)))

if bad:
    print('VIOLATION: ties have probability zero under the scored '
          'continuous density; the individuals are not sampled independently')
sys.exit(1 if bad else 0)
