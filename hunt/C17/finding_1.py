"""
C17 finding 1: a ComposedPopulationModel built from the SAME sub-model object
several times (the natural idiom ``[chi.LogNormalModel()] * 3``) publishes
duplicate parameter names with default naming, and every later
set_dim_names / set_parameter_names on the composite only "sticks" for the last
occurrence. A sampling run then silently loses parameters (xarray variables are
keyed by name).
"""
import sys
import warnings
sys.path.insert(0, sys.argv[1])
warnings.simplefilter('ignore')

import numpy as np
import chi


class Toy(chi.MechanisticModel):
    # y(t) = p0 + p1 * t
    def __init__(self):
        super().__init__()
        self._s = False

    def enable_sensitivities(self, enabled, parameter_names=None):
        self._s = bool(enabled)

    def has_sensitivities(self):
        return self._s

    def n_outputs(self):
        return 1

    def n_parameters(self):
        return 2

    def outputs(self):
        return ['y']

    def parameters(self):
        return ['p0', 'p1']

    def simulate(self, parameters, times):
        t = np.asarray(times, dtype=float)
        y = (parameters[0] + parameters[1] * t)[np.newaxis, :]
        if not self._s:
            return y
        s = np.zeros((len(t), 1, 2))
        s[:, 0, 0] = 1
        s[:, 0, 1] = t
        return y, s


violated = False

# 1. Stand-alone composite
pop = chi.ComposedPopulationModel([chi.LogNormalModel()] * 3)
names = pop.get_parameter_names()
print('n_parameters       :', pop.n_parameters())
print('parameter names    :', names)
print('dim names          :', pop.get_dim_names())
if len(set(names)) != len(names):
    print('-> %d parameters but only %d distinct default names'
          % (len(names), len(set(names))))
    violated = True

# 2. Renaming through the composite does not help: only the last name sticks
pop.set_dim_names(['a', 'b', 'c'])
print('after set_dim_names(["a", "b", "c"]):', pop.get_dim_names())
if pop.get_dim_names() != ['a', 'b', 'c']:
    violated = True

# 3. Hierarchical log-likelihood: names prefixed by ID are not distinct
pop = chi.ComposedPopulationModel([chi.LogNormalModel()] * 3)
lls = [
    chi.LogLikelihood(
        Toy(), chi.GaussianErrorModel(),
        np.array([1., 1.5, 2.]) + 0.1 * i, [0.5, 1., 2.])
    for i in range(2)]
hll = chi.HierarchicalLogLikelihood(lls, pop)
names = hll.get_parameter_names(include_ids=True)
print('HLL n_parameters   :', hll.n_parameters(),
      ' distinct names:', len(set(names)))
if len(set(names)) != hll.n_parameters():
    violated = True

# Reference: separately constructed sub-models behave
ref = chi.ComposedPopulationModel([chi.LogNormalModel() for _ in range(3)])
print('reference (3 separate objects):', ref.get_parameter_names())

sys.exit(1 if violated else 0)
