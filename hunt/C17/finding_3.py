"""
C17 finding 3: ReducedPopulationModel (and CovariatePopulationModel right after
construction) do not report the number of individuals of the model they wrap:
n_ids() is always 1. A ComposedPopulationModel built around such a wrapper of a
HeterogeneousModel with n_ids > 1 therefore records n_ids = 1, and its
set_n_ids(1) takes the "nothing changed" shortcut. Used for a single
individual the heterogeneous part keeps its 3 individuals:
n_hierarchical_parameters / HierarchicalLogLikelihood.n_parameters() disagree
with n_parameters(), the names and the IDs, and the likelihood cannot be
evaluated.
"""
import sys
import warnings
sys.path.insert(0, sys.argv[1])
warnings.simplefilter('ignore')

import numpy as np
import chi


class Toy(chi.MechanisticModel):
    # y(t) = p0 * t
    def __init__(self):
        super().__init__()
        self._s = False

    def enable_sensitivities(self, enabled, parameter_names=None):
        self._s = bool(enabled)

    def has_sensitivities(self):
        return self._s

    def n_outputs(self):
        return 1

    def n_parameters(self):
        return 1

    def outputs(self):
        return ['y']

    def parameters(self):
        return ['p0']

    def simulate(self, parameters, times):
        t = np.asarray(times, dtype=float)
        y = (parameters[0] * t)[np.newaxis, :]
        if not self._s:
            return y
        return y, t.reshape(len(t), 1, 1)


violated = False

# The wrapper does not know the number of individuals of the wrapped model
reduced = chi.ReducedPopulationModel(chi.HeterogeneousModel(n_ids=3))
print('Reduced(Heterogeneous(n_ids=3)).n_ids() =', reduced.n_ids(),
      '| n_parameters =', reduced.n_parameters())
reduced.set_n_ids(3)
print('... after set_n_ids(3): n_ids() =', reduced.n_ids())

# Composite for ONE individual
pop = chi.ComposedPopulationModel([reduced, chi.PooledModel()])
pop.set_n_ids(1)
n_bottom, n_top = pop.n_hierarchical_parameters(1)
names = pop.get_parameter_names()
print('composite: n_ids() = %d, n_parameters() = %d, names = %s'
      % (pop.n_ids(), pop.n_parameters(), names))
print('composite: n_hierarchical_parameters(1) =', (n_bottom, n_top))
if n_top != pop.n_parameters():
    print('-> number of top-level parameters %d != n_parameters() %d'
          % (n_top, pop.n_parameters()))
    violated = True

# Hierarchical log-likelihood with one individual
ll = chi.LogLikelihood(
    Toy(), chi.GaussianErrorModel(), [1., 2., 3.], [1., 2., 3.])
hll = chi.HierarchicalLogLikelihood([ll], pop)
n = int(hll.n_parameters())
names = hll.get_parameter_names()
ids = hll.get_id()
print('HLL: n_parameters() = %d, n_parameters(top) = %d, names = %s, ids = %s'
      % (n, hll.n_parameters(exclude_bottom_level=True), names, ids))
if not (n == len(names) == len(ids)):
    print('-> counts disagree')
    violated = True
try:
    print('HLL score:', hll(np.ones(n)))
except Exception as e:
    print('-> HLL evaluation with n_parameters() values raises '
          '%s: %s' % (type(e).__name__, e))
    violated = True

# Same root for the covariate wrapper: the composite for one individual keeps
# three heterogeneous individuals
cpop = chi.ComposedPopulationModel([
    chi.CovariatePopulationModel(
        chi.HeterogeneousModel(n_ids=3), chi.LinearCovariateModel()),
    chi.PooledModel()])
cpop.set_n_ids(1)
hll = chi.HierarchicalLogLikelihood([ll], cpop, covariates=np.ones((1, 1)))
print('Covariate variant, 1 individual:', hll.get_parameter_names())
n_id_params = sum(
    1 for name in hll.get_parameter_names()
    if name.startswith('ID ') and 'Cov.' not in name)
if n_id_params != 1:
    print('-> %d heterogeneous parameters for 1 individual' % n_id_params)
    violated = True

sys.exit(1 if violated else 0)
