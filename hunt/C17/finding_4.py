"""
C17 finding 4: ComposedPopulationModel caches the number of parameters (and the
number of top / bottom level entries used for reduced gradients) of its
sub-models. set_population_parameters (CovariatePopulationModel) and
fix_parameters (ReducedPopulationModel) only exist on the sub-models, so inside
a composition they have to be called on the objects returned by
get_population_models(). Afterwards the composite's n_parameters() no longer
equals the number of names, the gradient of compute_sensitivities has the stale
length, and a HierarchicalLogLikelihood built on the composite marks a
bottom-level entry as population parameter and cannot be evaluated.
"""
import sys
import warnings
sys.path.insert(0, sys.argv[1])
warnings.simplefilter('ignore')

import numpy as np
import chi


class Toy(chi.MechanisticModel):
    # y(t) = p0 * t
    def __init__(self):
        super().__init__()
        self._s = False

    def enable_sensitivities(self, enabled, parameter_names=None):
        self._s = bool(enabled)

    def has_sensitivities(self):
        return self._s

    def n_outputs(self):
        return 1

    def n_parameters(self):
        return 1

    def outputs(self):
        return ['y']

    def parameters(self):
        return ['p0']

    def simulate(self, parameters, times):
        t = np.asarray(times, dtype=float)
        y = (parameters[0] * t)[np.newaxis, :]
        if not self._s:
            return y
        return y, t.reshape(len(t), 1, 1)


violated = False

# A. Covariate sub-model: select the parameters modelled by the covariates
pop = chi.ComposedPopulationModel([
    chi.CovariatePopulationModel(
        chi.LogNormalModel(), chi.LinearCovariateModel()),
    chi.PooledModel()])
print('A before: n_parameters = %d, names = %s'
      % (pop.n_parameters(), pop.get_parameter_names()))
pop.get_population_models()[0].set_population_parameters([[0, 0]])
names = pop.get_parameter_names()
print('A after : n_parameters = %d, names = %s' % (pop.n_parameters(), names))
if pop.n_parameters() != len(names):
    print('-> n_parameters() %d != %d names' % (pop.n_parameters(), len(names)))
    violated = True

ll = chi.LogLikelihood(
    Toy(), chi.GaussianErrorModel(), [1., 2., 3.], [1., 2., 3.])
hll = chi.HierarchicalLogLikelihood([ll], pop, covariates=np.ones((1, 1)))
n = int(hll.n_parameters())
names = hll.get_parameter_names()
ids = hll.get_id()
print('A HLL   : n_parameters = %d, names = %s, ids = %s' % (n, names, ids))
n_top = len(pop.get_parameter_names())
expected_ids = ['Log-likelihood 1'] * (len(names) - n_top) + [None] * n_top
if (n != len(names)) or (ids != expected_ids):
    print('-> counts / IDs are inconsistent (expected ids %s)' % expected_ids)
    violated = True
try:
    score, grad = hll.evaluateS1(np.ones(n))
    print('A HLL   : score %.3f, gradient length %d' % (score, len(grad)))
    if len(grad) != n:
        violated = True
except Exception as e:
    print('-> evaluation raises %s: %s' % (type(e).__name__, e))
    violated = True

# B. Reduced sub-model: fix a parameter
reduced = chi.ReducedPopulationModel(chi.GaussianModel())
pop = chi.ComposedPopulationModel([reduced, chi.PooledModel()])
pop.get_population_models()[0].fix_parameters({'Std. Dim. 1': 1})
names = pop.get_parameter_names()
print('B after : n_parameters = %d, names = %s' % (pop.n_parameters(), names))
if pop.n_parameters() != len(names):
    print('-> n_parameters() %d != %d names' % (pop.n_parameters(), len(names)))
    violated = True
_, _, dtheta = pop.compute_sensitivities(
    np.ones(len(names)), np.ones((2, 2)))
print('B       : gradient w.r.t. population parameters has length',
      len(dtheta))
if len(dtheta) != len(names):
    violated = True

sys.exit(1 if violated else 0)
