"""
C17 finding 2: a HierarchicalLogPosterior obtained from
ProblemModellingController.get_log_posterior() keeps a reference to the
controller's own population model, while HierarchicalLogLikelihood caches its
parameter counts at construction. Reconfiguring the controller afterwards
(fix_parameters on an already reduced model, or set_data with another number
of individuals) silently changes the population model inside the posterior that
was already handed out: its n_parameters() no longer equals the number of
names / IDs and it can no longer be evaluated with a vector of the reported
length.
"""
import sys
import warnings
sys.path.insert(0, sys.argv[1])
warnings.simplefilter('ignore')

import numpy as np
import pandas as pd
import pints
import chi


class Toy(chi.MechanisticModel):
    # y(t) = p0 + p1 * t
    def __init__(self):
        super().__init__()
        self._s = False

    def enable_sensitivities(self, enabled, parameter_names=None):
        self._s = bool(enabled)

    def has_sensitivities(self):
        return self._s

    def n_outputs(self):
        return 1

    def n_parameters(self):
        return 2

    def outputs(self):
        return ['y']

    def parameters(self):
        return ['p0', 'p1']

    def simulate(self, parameters, times):
        t = np.asarray(times, dtype=float)
        y = (parameters[0] + parameters[1] * t)[np.newaxis, :]
        if not self._s:
            return y
        s = np.zeros((len(t), 1, 2))
        s[:, 0, 0] = 1
        s[:, 0, 1] = t
        return y, s


def data(n_ids):
    rows = []
    for i in range(n_ids):
        for t in [0.5, 1., 2.]:
            rows.append({
                'ID': i + 1, 'Time': t, 'Observable': 'y',
                'Value': 1. + 0.3 * t + 0.1 * i})
    return pd.DataFrame(rows)


def prior(n):
    return pints.ComposedLogPrior(
        *[pints.LogNormalLogPrior(0, 1) for _ in range(n)])


def consistent(tag, post):
    n = int(post.n_parameters())
    names = post.get_parameter_names()
    ids = post.get_id()
    n_top = post.n_parameters(exclude_bottom_level=True)
    top = post.get_parameter_names(exclude_bottom_level=True)
    ok = (n == len(names) == len(ids)) and (n_top == len(top))
    msg = ''
    try:
        score, grad = post.evaluateS1(np.ones(n))
        ok = ok and np.isfinite(score) and (len(grad) == n)
        msg = 'score %.3f, gradient length %d' % (score, len(grad))
    except Exception as e:
        ok = False
        msg = 'evaluation raises %s: %s' % (type(e).__name__, e)
    print('%-34s n_parameters=%d names=%d ids=%d | %s'
          % (tag, n, len(names), len(ids), msg))
    return ok


violated = False

# Scenario A: fix one parameter, get posterior, fix another one
problem = chi.ProblemModellingController(Toy(), chi.GaussianErrorModel())
problem.set_population_model(chi.ComposedPopulationModel([
    chi.GaussianModel(), chi.PooledModel(), chi.PooledModel()]))
problem.set_data(data(3))
problem.fix_parameters({'Pooled Sigma': 0.5})
problem.set_log_prior(prior(problem.get_n_parameters()))
post_1 = problem.get_log_posterior()
violated |= not consistent('A: posterior 1 (fresh)', post_1)

problem.fix_parameters({'Std. p0': 0.3})
problem.set_log_prior(prior(problem.get_n_parameters()))
post_2 = problem.get_log_posterior()
violated |= not consistent('A: posterior 1 (after 2nd fix)', post_1)
violated |= not consistent('A: posterior 2', post_2)

# Scenario B: heterogeneous model, new dataset with fewer individuals
problem = chi.ProblemModellingController(Toy(), chi.GaussianErrorModel())
problem.set_population_model(chi.ComposedPopulationModel([
    chi.HeterogeneousModel(), chi.PooledModel(), chi.PooledModel()]))
problem.set_data(data(3))
problem.set_log_prior(prior(problem.get_n_parameters()))
post_a = problem.get_log_posterior()
violated |= not consistent('B: posterior 3 IDs (fresh)', post_a)
problem.set_data(data(2))
problem.set_log_prior(prior(problem.get_n_parameters()))
post_b = problem.get_log_posterior()
violated |= not consistent('B: posterior 3 IDs (after set_data)', post_a)
violated |= not consistent('B: posterior 2 IDs', post_b)

sys.exit(1 if violated else 0)
