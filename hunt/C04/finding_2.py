# Finding 2: LogNormalErrorModel scores NaN for observations <= 0.
# The documented log-normal density has support y > 0 and integrates to one
# there, so a measured value of 0 (e.g. a below-quantification-limit record) or
# a negative value has density 0, i.e. log-likelihood -inf (the convention the
# model already applies to non-positive model outputs).  Instead the total, the
# pointwise value and all sensitivities come back as NaN (np.log(0) = -inf gives
# inf - inf; np.log(<0) gives NaN), for perfectly valid sigma_log and outputs.
import sys
sys.path.insert(0, sys.argv[1] if len(sys.argv) > 1 else '/repo')
import numpy as np
np.seterr(all='ignore')
import chi

model = chi.LogNormalErrorModel()
params = [0.5]
outputs = np.array([1.0, 2.0, 3.0])
sens = np.ones((3, 2))
good_pw = model.compute_pointwise_ll(params, outputs, [1.5, 2.5, 2.0])

failed = False
for label, obs in [('zero', [0.0, 2.5, 2.0]), ('negative', [-1.0, 2.5, 2.0])]:
    score = model.compute_log_likelihood(params, outputs, obs)
    pw = model.compute_pointwise_ll(params, outputs, obs)
    score_s, dscore = model.compute_sensitivities(params, outputs, sens, obs)
    print('observations with a %s value: %s' % (label, obs))
    print('  compute_log_likelihood   :', score, '(expected -inf)')
    print('  compute_pointwise_ll     :', pw,
          '(expected [-inf, %.6f, %.6f])' % (good_pw[1], good_pw[2]))
    print('  compute_sensitivities    :', score_s, dscore)
    if not np.isneginf(score):
        print('  -> VIOLATION: total is not -inf')
        failed = True
    rest_ok = np.all(np.isneginf(pw[1:]) | np.isclose(pw[1:], good_pw[1:]))
    if not (np.isneginf(pw[0]) and rest_ok):
        print('  -> VIOLATION: pointwise value of the impossible observation '
              'is not -inf')
        failed = True
    if not np.isneginf(score_s):
        print('  -> VIOLATION: score from compute_sensitivities is not -inf')
        failed = True

sys.exit(1 if failed else 0)
