# Finding 4 (borderline input): for column-shaped (n, 1) observations or model
# outputs (e.g. df[['Value']].to_numpy(), or simulate(...).T of a
# single-output model) compute_log_likelihood / compute_pointwise_ll silently
# broadcast the (n, 1) array against the (n,) array to an (n, n) matrix and sum
# the log-density over all n^2 pairs.  compute_sensitivities reshapes both to
# (n, 1) and returns the correct score, so for the SAME arguments the two
# public methods return different log-likelihoods, and the "pointwise" values
# neither have n entries nor sum to the total that the sensitivities belong to.
import sys
sys.path.insert(0, sys.argv[1] if len(sys.argv) > 1 else '/repo')
import numpy as np
np.seterr(all='ignore')
import chi

models = [
    (chi.GaussianErrorModel(), [0.5]),
    (chi.MultiplicativeGaussianErrorModel(), [0.5]),
    (chi.ConstantAndMultiplicativeGaussianErrorModel(), [0.5, 0.5]),
    (chi.LogNormalErrorModel(), [0.5]),
]
y = np.array([1.0, 2.0, 3.0])
obs = np.array([1.5, 2.5, 2.0])
obs_col = obs.reshape(3, 1)          # same measured values, column layout
sens = np.ones((3, 2))

failed = False
for model, params in models:
    name = type(model).__name__
    ref = model.compute_log_likelihood(params, y, obs)
    try:
        score = model.compute_log_likelihood(params, y, obs_col)
        pw = np.asarray(model.compute_pointwise_ll(params, y, obs_col))
        score_s, _ = model.compute_sensitivities(params, y, sens, obs_col)
    except ValueError as e:
        # Rejecting the layout loudly is fine
        print(name, 'raises', e)
        continue
    print(name)
    print('  1-d reference score                 :', ref)
    print('  compute_log_likelihood, (n,1) obs   :', score)
    print('  compute_sensitivities score, same   :', score_s)
    print('  compute_pointwise_ll shape, same    :', pw.shape)
    if not np.isclose(score, score_s):
        print('  -> VIOLATION: compute_log_likelihood and '
              'compute_sensitivities disagree on the same arguments')
        failed = True
    if not np.isclose(score, ref):
        print('  -> VIOLATION: log-likelihood is summed over all n^2 '
              '(output, observation) pairs')
        failed = True
    if pw.size != len(obs):
        print('  -> VIOLATION: pointwise log-likelihood has %d entries for '
              '%d observations' % (pw.size, len(obs)))
        failed = True
sys.exit(1 if failed else 0)
