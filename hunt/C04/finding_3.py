# Finding 3 (minor): LogNormalErrorModel.compute_pointwise_ll is not pointwise
# when one model output is non-positive.  The documented pointwise value is
# log p(y_j | psi, sigma, t_j), which depends on the j-th output only, but a
# single output <= 0 (e.g. a drug concentration of exactly 0 at the pre-dose
# time point) turns the value of EVERY observation into -inf, including those
# whose own model output is positive and whose log-density is finite.
import sys
sys.path.insert(0, sys.argv[1] if len(sys.argv) > 1 else '/repo')
import numpy as np
np.seterr(all='ignore')
import chi

model = chi.LogNormalErrorModel()
params = [0.5]
obs = np.array([0.4, 2.5, 2.0])
outputs_ok = np.array([1.0, 2.0, 3.0])
outputs_pre_dose = np.array([0.0, 2.0, 3.0])   # first output is 0

ref = model.compute_pointwise_ll(params, outputs_ok, obs)
pw = model.compute_pointwise_ll(params, outputs_pre_dose, obs)
total = model.compute_log_likelihood(params, outputs_pre_dose, obs)
print('pointwise, all outputs positive :', ref)
print('pointwise, first output = 0     :', pw)
print('expected                        : [-inf, %.8f, %.8f]' % (ref[1], ref[2]))
print('total                           :', total)

failed = False
if not np.isneginf(total):
    print('-> VIOLATION: total is not -inf')
    failed = True
if not np.isneginf(pw[0]):
    print('-> VIOLATION: the observation with the non-positive output does '
          'not score -inf')
    failed = True
if not np.allclose(pw[1:], ref[1:]):
    print('-> VIOLATION: observations with positive outputs do not score '
          'their own log-density log p(y_j | output_j, sigma)')
    failed = True
sys.exit(1 if failed else 0)
