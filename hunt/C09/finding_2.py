"""
C09 finding 2: PKPDModel.set_dosing_regimen(dose, period=..., num=0)
administers infinitely many doses.

``num`` is documented as "Number of administered doses"; only ``None`` is
documented to mean "indefinitely".  The value 0 is handed unchanged to
myokit.pacing.blocktrain(limit=0), where 0 means "no limit", so a regimen of
zero doses (e.g. the control arm of a loop over numbers of doses) is simulated
as an infinite train of doses.
"""
import sys
sys.path.insert(0, '/tmp/seedhelp')
sys.path.insert(0, sys.argv[1])
import refsim  # noqa
refsim.install()
import numpy as np  # noqa
import chi  # noqa
import chi.library  # noqa

times = np.array([0.5, 1.5, 2.5, 3.5, 4.5])
parameters = [0, 1, 1]   # amount_0 = 0: without doses the solution is 0

results = {}
violated = False
for num in [3, 2, 1, 0]:
    model = chi.library.ModelLibrary().one_compartment_pk_model()
    model.set_administration('central')
    try:
        model.set_dosing_regimen(dose=2, start=0, duration=0.01, period=1,
                                 num=num)
    except ValueError as e:
        print('num=%d rejected: %s' % (num, e))
        continue
    out = model.simulate(parameters, times)[0]
    # Exact: bolus-like infusions of 2 units at t = 0, 1, ..., num-1
    ref = np.zeros(len(times))
    d = 0.01
    for k in range(num):
        s = float(k)
        off = times > s + d
        ref[off] += (2 / d) * (1 - np.exp(-d)) * np.exp(-(times[off] - s - d))
    print('num=%d  simulated %s' % (num, np.round(out, 5)))
    print('       expected  %s' % np.round(ref, 5))
    if np.abs(out - ref).max() > 1e-4:
        print('VIOLATION for num=%d: %d doses requested, simulated output is '
              'that of an unlimited dose train' % (num, num))
        violated = True
sys.exit(1 if violated else 0)
