"""
C09 finding 3: SBMLModel.simulate integrates one full time unit past the last
requested time (``run(times[-1] + 1, ...)``).

If the solution of the initial-value problem exists (and is perfectly
representable) on the requested grid, but overflows / ceases to exist within
one time unit after ``times[-1]``, simulate raises instead of returning the
solution at the requested times.  Here dx/dt = k x with k = 900 per day (a fast
process in a model whose time unit is days): x(0.1) = e^90 ~ 1.2e39 is
requested, but the solver is driven to t = 1.1 where e^990 overflows.
With k = 600 (e^660 still finite at t = 1.1) the very same call works, which
shows that the grid itself is unproblematic.
"""
import os
import sys
import tempfile
sys.path.insert(0, '/tmp/seedhelp')
sys.path.insert(0, sys.argv[1])
import refsim  # noqa
refsim.install()
import numpy as np  # noqa
import chi  # noqa

SBML = """<?xml version="1.0" encoding="UTF-8"?>
<sbml xmlns="http://www.sbml.org/sbml/level3/version2/core" level="3" version="2">
  <model id="growth">
    <listOfParameters>
      <parameter id="x" value="1" constant="false"/>
      <parameter id="k" value="1" constant="true"/>
    </listOfParameters>
    <listOfRules>
      <rateRule variable="x">
        <math xmlns="http://www.w3.org/1998/Math/MathML">
          <apply><times/><ci> k </ci><ci> x </ci></apply>
        </math>
      </rateRule>
    </listOfRules>
  </model>
</sbml>
"""
with tempfile.TemporaryDirectory() as d:
    path = os.path.join(d, 'growth.xml')
    with open(path, 'w') as f:
        f.write(SBML)
    model = chi.SBMLModel(path)

times = np.array([0, 0.025, 0.05, 0.1])
violated = False
for k in [600.0, 900.0]:
    exact = np.exp(k * times)
    print('k = %g, requested times %s, exact solution %s'
          % (k, times, exact))
    try:
        out = model.simulate([1.0, k], times)[0]
    except Exception as e:  # myokit.SimulationError
        print('  simulate raised %s: %s'
              % (type(e).__name__, str(e).splitlines()[0]))
        print('VIOLATION: the solution exists and is finite at all requested '
              'times (max %.3g), but simulate integrates to times[-1] + 1 = '
              '%g and fails there.' % (exact.max(), times[-1] + 1))
        violated = True
        continue
    err = np.abs(out / exact - 1).max()
    print('  simulate returned, max relative error %.1e' % err)
    if not np.all(np.isfinite(out)) or err > 1e-4:
        print('VIOLATION: wrong values')
        violated = True
sys.exit(1 if violated else 0)
