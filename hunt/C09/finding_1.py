"""
C09 finding 1: PKPDModel.set_dosing_regimen keeps a reference to the caller's
myokit.Protocol (no copy) while the simulator works on a clone.

After the caller touches the protocol again (or the object returned by
dosing_regimen()), the regimen the model reports and the regimen it simulates
disagree, and the simulated output of the *same* model with the *same*
parameters changes as soon as anything rebuilds the simulator
(enable_sensitivities, set_outputs with sensitivities on, set_administration,
copy).  The "solution" returned next to the sensitivities is then not the
solution returned without sensitivities.
"""
import sys
sys.path.insert(0, '/tmp/seedhelp')
sys.path.insert(0, sys.argv[1])
import refsim  # noqa
refsim.install()
import numpy as np  # noqa
import myokit  # noqa
import chi  # noqa
import chi.library  # noqa

model = chi.library.ModelLibrary().one_compartment_pk_model()
model.set_administration('central')

protocol = myokit.Protocol()
protocol.schedule(level=2, start=0, duration=1)
model.set_dosing_regimen(protocol)

# The caller keeps building his protocol object (a second infusion at t=2)
protocol.schedule(level=5, start=2, duration=1)

times = [0.5, 1.5, 2.5, 3.5]
parameters = [0, 1, 1]   # amount_0, volume, elimination rate

n_reported = len(model.dosing_regimen().events())
before = model.simulate(parameters, times)
model.enable_sensitivities(True)
after, _ = model.simulate(parameters, times)
model.enable_sensitivities(False)
again = model.simulate(parameters, times)

# Exact solution with one / two infusions
def exact(events):
    t = np.array(times)
    c = np.zeros(len(t))
    for lvl, s, d in events:
        on = (t > s) & (t <= s + d)
        off = t > s + d
        c[on] += lvl * (1 - np.exp(-(t[on] - s)))
        c[off] += lvl * (1 - np.exp(-d)) * np.exp(-(t[off] - s - d))
    return c

one = exact([(2, 0, 1)])
two = exact([(2, 0, 1), (5, 2, 1)])
print('events reported by model.dosing_regimen():', n_reported)
print('simulate, no sensitivities      :', before[0])
print('simulate, sensitivities enabled :', after[0])
print('simulate, disabled again        :', again[0])
print('exact, 1 infusion               :', one)
print('exact, 2 infusions              :', two)

violated = False
if np.abs(before - after).max() > 1e-6:
    print('VIOLATION: same model, same parameters, same times: output changes '
          'when sensitivities are enabled.')
    violated = True
reported = two if n_reported == 2 else one
if np.abs(before[0] - reported).max() > 1e-4:
    print('VIOLATION: simulate() does not solve the IVP with the regimen the '
          'model reports (%d events).' % n_reported)
    violated = True
sys.exit(1 if violated else 0)
