"""
C09 finding 4: sensitivities with respect to the free parameters cannot be
obtained from a ReducedMechanisticModel that wraps another
ReducedMechanisticModel (around an SBML model).

ReducedMechanisticModel accepts any chi.MechanisticModel, and simulation of the
doubly wrapped model works, but ReducedMechanisticModel.enable_sensitivities
drops the ``parameter_names`` argument of the base-class signature
(MechanisticModel.enable_sensitivities(enabled, parameter_names=None)), while
the outer wrapper calls the inner one with exactly that argument ->
TypeError.  So d(output)/d(free parameters) is unavailable for this model.
"""
import sys
sys.path.insert(0, '/tmp/seedhelp')
sys.path.insert(0, sys.argv[1])
import refsim  # noqa
refsim.install()
import numpy as np  # noqa
import chi  # noqa
import chi.library  # noqa

lib = chi.library.ModelLibrary()
full = lib.tumour_growth_inhibition_model_koch()
names = full.parameters()
values = np.array([1.0, 0.3, 0.5, 0.7, 0.9])
times = [0.5, 1.0, 2.0]

inner = chi.ReducedMechanisticModel(lib.tumour_growth_inhibition_model_koch())
inner.fix_parameters({'global.kappa': values[names.index('global.kappa')]})
outer = chi.ReducedMechanisticModel(inner)
outer.fix_parameters(
    {'global.lambda_0': values[names.index('global.lambda_0')]})

free = outer.parameters()
idx = [names.index(n) for n in free]
print('free parameters of doubly reduced model:', free)

full.enable_sensitivities(True)
ref_out, ref_sens = full.simulate(values, times)

out = outer.simulate(values[idx], times)
print('simulate without sensitivities agrees with full model:',
      bool(np.abs(out - ref_out).max() < 1e-8))

violated = False
try:
    outer.enable_sensitivities(True)
    out, sens = outer.simulate(values[idx], times)
except Exception as e:
    print('VIOLATION: enable_sensitivities(True) / simulate raised %s: %s'
          % (type(e).__name__, e))
    violated = True
else:
    expected = ref_sens[:, :, idx]
    if sens.shape != expected.shape or \
            np.abs(sens - expected).max() > 1e-6 or \
            np.abs(out - ref_out).max() > 1e-8:
        print('VIOLATION: sensitivities are not those with respect to the '
              'free parameters', sens.shape, expected.shape)
        violated = True
    else:
        print('sensitivities w.r.t. free parameters correct')
sys.exit(1 if violated else 0)
