"""
C19 finding 4: PKPDModel keeps a live reference to the caller's
myokit.Protocol while its simulator works on a clone, so the result of
simulate() depends on hidden history.

set_dosing_regimen(protocol) stores the caller's Protocol object in
self._dosing_regimen (also returned by dosing_regimen()), whereas
myokit.Simulation.set_protocol clones it.  When the protocol object is
changed afterwards (re-used to define the next scenario, or extended through
the object returned by model.dosing_regimen()), simulate() keeps using the
old regimen - until the simulator is rebuilt by an evaluation-mode switch
(enable_sensitivities, as done implicitly by LogLikelihood.evaluateS1 /
__call__), from which point the *new* regimen is simulated.  The same
simulate(parameters, times) call therefore returns different values
depending on whether sensitivities were toggled in between, and
model.dosing_regimen() / copies of the model (PredictiveModel, LogLikelihood)
disagree with what the model itself simulates.

Exit code 1 if the property is violated, 0 otherwise.
"""
import os
import sys
import warnings

repo = sys.argv[1] if len(sys.argv) > 1 else '/repo'
if os.path.isdir('/tmp/seedhelp'):
    # solver stand-in for sandboxes without sundials (see README there)
    sys.path.insert(0, '/tmp/seedhelp')
sys.path.insert(0, repo)
try:
    import refsim
    refsim.install()
except ImportError:
    pass

import myokit  # noqa
import numpy as np  # noqa
import chi  # noqa
from chi import library  # noqa

warnings.simplefilter('ignore')

model = library.ModelLibrary().one_compartment_pk_model()
model.set_administration('central', direct=True)
parameters = [0.0, 3.0, 0.5]
times = [0.5, 1, 2, 3.5]

regimen = myokit.Protocol()
regimen.add(myokit.ProtocolEvent(level=100, start=0.2, duration=0.01))
model.set_dosing_regimen(regimen)
y1 = model.simulate(parameters, times)

# The caller re-uses / extends the protocol object
regimen.add(myokit.ProtocolEvent(level=500, start=1.2, duration=0.01))
y2 = model.simulate(parameters, times)
n_events = len(list(model.dosing_regimen().events()))

# Evaluation with sensitivities and back (what LogLikelihood.evaluateS1 and
# LogLikelihood.__call__ do with their mechanistic model)
model.enable_sensitivities(True)
y3, _ = model.simulate(parameters, times)
model.enable_sensitivities(False)
y4 = model.simulate(parameters, times)


print('simulate, regimen with 1 dose event         :', y1.ravel())
print('simulate, after the caller extended protocol:', y2.ravel())
print('   model.dosing_regimen() reports %d dose events' % n_events)
print('simulate, sensitivities enabled             :', y3.ravel())
print('simulate, sensitivities disabled again      :', y4.ravel())

violated = False
if np.allclose(y1, y2) and n_events == 2:
    print('VIOLATION: the model reports a regimen (2 events) that it does '
          'not simulate (1 event).')
    violated = True
if not (np.allclose(y2, y3, rtol=1e-4) and np.allclose(y2, y4, rtol=1e-4)):
    print('VIOLATION: the same simulate call returns different outputs after '
          'switching sensitivities on and off.')
    violated = True

sys.exit(1 if violated else 0)
