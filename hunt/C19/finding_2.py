"""
C19 finding 2: HierarchicalLogLikelihood keeps (and reconfigures) the
caller's population model instead of a copy.

The constructor calls population_model.set_n_ids(...) on the user's object and
stores that very object.  A second hierarchical likelihood built from the same
population model for a dataset with another number of individuals therefore
silently reconfigures the first one: the first likelihood, which evaluated
fine before, now raises (or returns other values) for the same parameters.
(PopulationFilterLogPosterior and CovariatePopulationModel deep-copy the
population model they are given, LogLikelihood copies its mechanistic and error
models - HierarchicalLogLikelihood is the exception.)

Exit code 1 if the property is violated, 0 otherwise.
"""
import sys
import warnings

repo = sys.argv[1] if len(sys.argv) > 1 else '/repo'
sys.path.insert(0, repo)

import numpy as np  # noqa
import chi  # noqa

warnings.simplefilter('ignore')


class Decay(chi.MechanisticModel):
    """Analytic toy model y = a exp(-b t) with sensitivities."""
    def __init__(self):
        super(Decay, self).__init__()
        self._sens = False

    def enable_sensitivities(self, enabled, parameter_names=None):
        self._sens = bool(enabled)

    def has_sensitivities(self):
        return self._sens

    def n_outputs(self):
        return 1

    def n_parameters(self):
        return 2

    def outputs(self):
        return ['y']

    def parameters(self):
        return ['a', 'b']

    def simulate(self, parameters, times):
        a, b = parameters
        t = np.asarray(times, dtype=float)
        y = (a * np.exp(-b * t))[np.newaxis, :]
        if not self._sens:
            return y
        s = np.empty((len(t), 1, 2))
        s[:, 0, 0] = np.exp(-b * t)
        s[:, 0, 1] = -a * t * np.exp(-b * t)
        return y, s


def likelihoods(n_ids, seed):
    rng = np.random.default_rng(seed)
    return [
        chi.LogLikelihood(
            Decay(), chi.GaussianErrorModel(), rng.uniform(0.5, 1, 4),
            [1, 2, 3, 4])
        for _ in range(n_ids)]


def evaluate(log_pdf, p):
    try:
        return ('value', float(log_pdf(p)))
    except Exception as e:  # noqa
        return ('raises', type(e).__name__ + ': ' + str(e)[:60])


def evaluate_s1(log_pdf, p):
    try:
        s, ds = log_pdf.evaluateS1(p)
        return ('value', float(s), np.round(ds, 10).tolist())
    except Exception as e:  # noqa
        return ('raises', type(e).__name__ + ': ' + str(e)[:60])


violated = False
models = {
    'LogNormalModel(3)': lambda: chi.LogNormalModel(n_dim=3),
    'Composed[Pooled, LogNormal, Gaussian]': lambda:
        chi.ComposedPopulationModel([
            chi.PooledModel(1), chi.LogNormalModel(1), chi.GaussianModel(1)]),
    'PooledModel(3)': lambda: chi.PooledModel(n_dim=3),
    'HeterogeneousModel(3)': lambda: chi.HeterogeneousModel(n_dim=3),
}
for name, make in models.items():
    population_model = make()

    # Study A: 3 individuals
    h_a = chi.HierarchicalLogLikelihood(likelihoods(3, 1), population_model)
    p = np.random.default_rng(0).uniform(0.5, 1.5, h_a.n_parameters())
    before = (evaluate(h_a, p), evaluate_s1(h_a, p))

    # Study B: 2 individuals, same population model object
    chi.HierarchicalLogLikelihood(likelihoods(2, 2), population_model)

    after = (evaluate(h_a, p), evaluate_s1(h_a, p))
    ok = before == after
    print(name)
    print('   h_a(p), h_a.evaluateS1(p) before building h_b:',
          before[0], before[1][:2])
    print('   h_a(p), h_a.evaluateS1(p) after  building h_b:',
          after[0], after[1][:2])
    print('   n_ids of the shared population model: %d (h_a models %d)' % (
        population_model.n_ids(), h_a.n_log_likelihoods()))
    if not ok:
        print('   VIOLATION: a sibling likelihood changed h_a.')
        violated = True

sys.exit(1 if violated else 0)
