"""
C19 finding 1: ProblemModellingController.get_log_posterior is not pure.

Building the log-posterior of an individual leaves that individual's dosing
regimen on the controller's own mechanistic model.  The regimen then leaks
into everything that is built afterwards from the controller:

 (a) get_predictive_model() returns a different model (other regimen, other
     samples for the same seed) depending on which posteriors were built
     before;
 (b) after set_data(...) with a dataset WITHOUT dose information, the new
     log-posteriors are silently scored with the regimen of the individual
     that happened to be processed last for the previous dataset.

Exit code 1 if the property is violated, 0 otherwise.
"""
import os
import sys
import warnings

repo = sys.argv[1] if len(sys.argv) > 1 else '/repo'
if os.path.isdir('/tmp/seedhelp'):
    # solver stand-in for sandboxes without sundials (see README there)
    sys.path.insert(0, '/tmp/seedhelp')
sys.path.insert(0, repo)
try:
    import refsim
    refsim.install()
except ImportError:
    pass

import numpy as np  # noqa
import pandas as pd  # noqa
import pints  # noqa
import chi  # noqa
from chi import library  # noqa

warnings.simplefilter('ignore')

OBS = 'central.drug_concentration'


def dataset(with_dose):
    rows = []
    values = {'1': [0.30, 0.20, 0.10], '2': [0.60, 0.40, 0.25]}
    doses = {'1': 1.0, '2': 5.0}
    for _id in ['1', '2']:
        if with_dose:
            rows.append(dict(
                ID=_id, Time=0, Observable=OBS, Value=np.nan,
                Dose=doses[_id], Duration=0.01))
        for t, v in zip([1, 2, 4], values[_id]):
            rows.append(dict(
                ID=_id, Time=t, Observable=OBS, Value=v, Dose=np.nan,
                Duration=np.nan))
    return pd.DataFrame(rows)


def controller():
    model = library.ModelLibrary().one_compartment_pk_model()
    model.set_administration('central', direct=True)
    return chi.ProblemModellingController(model, chi.GaussianErrorModel())


prior = pints.ComposedLogPrior(*[pints.UniformLogPrior(0, 10)] * 4)
params = [0.0, 3.0, 0.5, 0.2]
times = [0.5, 1, 2]
violated = False

# (a) get_predictive_model depends on the history of get_log_posterior calls
c = controller()
c.set_data(dataset(with_dose=True))
c.set_log_prior(prior)
before = c.get_predictive_model()
s_before = before.sample(params, times, seed=1, return_df=False)
c.get_log_posterior(individual='2')
after = c.get_predictive_model()
s_after = after.sample(params, times, seed=1, return_df=False)
print('(a) regimen of get_predictive_model() before get_log_posterior:',
      before.get_dosing_regimen())
print('    regimen of get_predictive_model() after  get_log_posterior:')
print(after.get_dosing_regimen())
print('    seeded samples before:', s_before.ravel())
print('    seeded samples after :', s_after.ravel())
if not np.allclose(s_before, s_after):
    print('    VIOLATION: the controller was changed by get_log_posterior.')
    violated = True

# (b) stale regimen is used for a later dataset without dose information
fresh = controller()
fresh.set_data(dataset(with_dose=False), dose_key=None, dose_duration_key=None)
fresh.set_log_prior(prior)
expected = [fresh.get_log_posterior(individual=i)(params) for i in '12']

used = controller()
used.set_data(dataset(with_dose=True))
used.set_log_prior(prior)
used.get_log_posterior(individual='2')      # any earlier use
used.set_data(dataset(with_dose=False), dose_key=None, dose_duration_key=None)
used.set_log_prior(prior)
print('(b) dosing regimens of the controller:', used.get_dosing_regimens())
observed = [used.get_log_posterior(individual=i)(params) for i in '12']
print('    scores, fresh controller, data without doses:', expected)
print('    scores, used  controller, data without doses:', observed)
if not np.allclose(expected, observed):
    print('    VIOLATION: posteriors for a dose-free dataset are scored with '
          'the stale regimen of a previously processed individual.')
    violated = True

sys.exit(1 if violated else 0)
