"""
C19 finding 3: ProblemModellingController hands its live population model to
the posteriors and predictive models it creates.

get_log_posterior() and get_predictive_model() pass the controller's own
(Reduced)PopulationModel object on (HierarchicalLogLikelihood and
PopulationPredictiveModel keep it without copying).  The controller, all
posteriors and all predictive models derived from it therefore share one
mutable object:

 (a) fixing a parameter of a predictive model obtained from the controller
     changes the controller itself (its number of parameters no longer
     matches its own log-prior) and breaks a posterior obtained earlier;
 (b) fixing a further parameter on the controller after a posterior and a
     predictive model were obtained changes / breaks those objects, although
     the mechanistic and error models are properly copied.

Exit code 1 if the property is violated, 0 otherwise.
"""
import sys
import warnings

repo = sys.argv[1] if len(sys.argv) > 1 else '/repo'
sys.path.insert(0, repo)

import numpy as np  # noqa
import pandas as pd  # noqa
import pints  # noqa
import chi  # noqa

warnings.simplefilter('ignore')


class Decay(chi.MechanisticModel):
    """Analytic toy model y = a exp(-b t) with sensitivities."""
    def __init__(self):
        super(Decay, self).__init__()
        self._sens = False

    def enable_sensitivities(self, enabled, parameter_names=None):
        self._sens = bool(enabled)

    def has_sensitivities(self):
        return self._sens

    def n_outputs(self):
        return 1

    def n_parameters(self):
        return 2

    def outputs(self):
        return ['y']

    def parameters(self):
        return ['a', 'b']

    def simulate(self, parameters, times):
        a, b = parameters
        t = np.asarray(times, dtype=float)
        y = (a * np.exp(-b * t))[np.newaxis, :]
        if not self._sens:
            return y
        s = np.empty((len(t), 1, 2))
        s[:, 0, 0] = np.exp(-b * t)
        s[:, 0, 1] = -a * t * np.exp(-b * t)
        return y, s


def controller():
    rng = np.random.default_rng(0)
    rows = []
    for _id in 'abc':
        for t in [1, 2, 3]:
            rows.append(dict(
                ID=_id, Time=t, Observable='y', Value=rng.uniform(0.3, 1)))
    c = chi.ProblemModellingController(Decay(), chi.GaussianErrorModel())
    c.set_data(pd.DataFrame(rows))
    c.set_population_model(chi.ComposedPopulationModel([
        chi.LogNormalModel(1), chi.PooledModel(1), chi.PooledModel(1)]))
    # ['Log mean a', 'Log std. a', 'Pooled b', 'Pooled Sigma']
    c.fix_parameters({'Pooled Sigma': 0.2})
    n = c.get_n_parameters()
    c.set_log_prior(
        pints.ComposedLogPrior(*[pints.UniformLogPrior(0.01, 3)] * n))
    return c


def evaluate(f):
    try:
        return ('value', np.round(np.asarray(f(), dtype=float), 10).tolist())
    except Exception as e:  # noqa
        return ('raises', type(e).__name__ + ': ' + str(e)[:70])


violated = False

# (a) configuring a derived predictive model changes controller and posterior
c = controller()
posterior = c.get_log_posterior()
x = posterior.sample_initial_parameters(seed=1)[0]
before = evaluate(lambda: posterior(x))
n_before = c.get_n_parameters()
predictive_model = c.get_predictive_model()
predictive_model.fix_parameters({'Log std. a': 0.5})
after = evaluate(lambda: posterior(x))
n_after = c.get_n_parameters()
print('(a) controller: n_parameters before/after fixing a parameter of the '
      'predictive model: %d / %d (log-prior of the controller still has %d '
      'dimensions)' % (n_before, n_after, c.get_log_prior().n_parameters()))
print('    posterior(x) before:', before)
print('    posterior(x) after :', after)
if (n_before != n_after) or (before != after):
    print('    VIOLATION: a sibling object changed controller / posterior.')
    violated = True

# (b) later configuration of the controller changes objects handed out before
c = controller()
posterior = c.get_log_posterior()
predictive_model = c.get_predictive_model()
x = posterior.sample_initial_parameters(seed=1)[0]
theta = x[-c.get_n_parameters():]
p_before = evaluate(lambda: posterior(x))
s_before = evaluate(lambda: predictive_model.sample(
    theta, [1, 2], n_samples=3, seed=5, return_df=False))
c.fix_parameters({'Log std. a': 0.5})
p_after = evaluate(lambda: posterior(x))
s_after = evaluate(lambda: predictive_model.sample(
    theta, [1, 2], n_samples=3, seed=5, return_df=False))
print('(b) posterior(x) before / after controller.fix_parameters:')
print('   ', p_before)
print('   ', p_after)
print('    predictive_model.sample(seed=5) before / after:')
print('   ', s_before[0], '...')
print('   ', s_after)
if (p_before != p_after) or (s_before != s_after):
    print('    VIOLATION: objects obtained earlier follow later changes of '
          'the controller.')
    violated = True

sys.exit(1 if violated else 0)
