"""
C05 finding 3 (minor): ReducedPopulationModel accepts the documented
(n_param_per_dim, n_dim) matrix layout of its parameters in
compute_log_likelihood and compute_sensitivities (both flatten), but
compute_individual_parameters - documented for the same layouts - raises as
soon as one parameter is fixed.  The same parameter values are therefore
accepted for the likelihood and its gradient, but not for psi(theta, eta),
the map the upstream sensitivities are propagated through.
"""
import sys
sys.path.insert(0, sys.argv[1])
import numpy as np
import chi

n_dim = 2
eta = np.array([[0.1, 0.2], [0.3, 0.4], [0.5, 0.6]])
dlogp_dpsi = np.array([[1.0, -2.0], [0.5, 0.25], [-1.0, 3.0]])
model = chi.ReducedPopulationModel(
    chi.GaussianModel(n_dim=n_dim, centered=False))
model.fix_parameters({'Std. Dim. 1': 0.5, 'Std. Dim. 2': 0.6})
flat = np.array([1.0, 2.0])            # (n_parameters,)
matrix = flat.reshape(1, n_dim)        # (n_param_per_dim, n_dim)

v_flat = model.compute_log_likelihood(flat, eta)
v_mat = model.compute_log_likelihood(matrix, eta)
s_flat = model.compute_sensitivities(flat, eta, dlogp_dpsi=dlogp_dpsi)
s_mat = model.compute_sensitivities(matrix, eta, dlogp_dpsi=dlogp_dpsi)
print('log-likelihood flat / matrix:', v_flat, v_mat)
print('dtheta flat / matrix:', s_flat[2], s_mat[2])
same = np.isclose(v_flat, v_mat) and np.allclose(s_flat[2], s_mat[2]) \
    and np.allclose(s_flat[1], s_mat[1])

psi_flat = model.compute_individual_parameters(flat, eta)
expected = np.array([1.0, 2.0]) + np.array([0.5, 0.6]) * eta
print('psi flat layout correct:', np.allclose(psi_flat, expected))
failed = False
try:
    psi_mat = model.compute_individual_parameters(matrix, eta)
    failed = not np.allclose(psi_mat, expected)
    print('psi matrix layout:', psi_mat)
except Exception as e:
    failed = True
    print('psi matrix layout raises %s: %s' % (type(e).__name__, e))

# Without a fixed parameter the very same object type accepts the layout
free = chi.ReducedPopulationModel(
    chi.GaussianModel(n_dim=n_dim, centered=False))
m = np.array([[1.0, 2.0], [0.5, 0.6]])
print('no fixed parameter, matrix layout works:', np.allclose(
    free.compute_individual_parameters(m, eta), expected))

if failed or not same:
    print('VIOLATION: the matrix layout is accepted by the likelihood and '
          'its sensitivities, but not by compute_individual_parameters.')
    sys.exit(1)
sys.exit(0)
