"""
C05 finding 2 (minor): population models compute in the dtype of their
inputs.  For single-precision individual parameters and/or population
parameters the log-likelihood and the sensitivities are evaluated in float32
(log, squares, sums), so the same parameter VALUES give another score than
when they are stored in double precision.  (The error models were repaired
for the same defect in a9d60ec; the population models were not.)
"""
import sys
sys.path.insert(0, sys.argv[1])
import numpy as np
import chi

rng = np.random.default_rng(1)
n_ids = 200
violations = 0
for cls in (chi.GaussianModel, chi.LogNormalModel,
            chi.TruncatedGaussianModel):
    model = cls()
    # values that are exactly representable in single precision
    theta32 = np.array([2.0, 0.05], dtype=np.float32)
    centre = 2.0 if cls is chi.LogNormalModel else np.log(2.0)
    psi32 = np.exp(rng.normal(centre, 0.05, size=(n_ids, 1))).astype(
        np.float32)
    theta64 = theta32.astype(np.float64)
    psi64 = psi32.astype(np.float64)
    assert np.all(theta64 == theta32) and np.all(psi64 == psi32)

    ref = model.compute_log_likelihood(theta64, psi64)
    ref_s, ref_dpsi, ref_dtheta = model.compute_sensitivities(theta64, psi64)
    for label, th, ps in [
            ('psi float32, theta float64', theta64, psi32),
            ('psi float32, theta float32', theta32, psi32)]:
        val = model.compute_log_likelihood(th, ps)
        s, dpsi, dtheta = model.compute_sensitivities(th, ps)
        err_v = abs(float(val) - ref) / abs(ref)
        err_g = np.max(np.abs(
            np.asarray(dtheta, dtype=float) - ref_dtheta)
            / np.abs(ref_dtheta))
        bad = (err_v > 1e-12) or (err_g > 1e-10)
        violations += int(bad)
        print('%-24s %-28s value %.12f (double: %.12f) rel.err %.1e | '
              'max rel.err dtheta %.1e | result dtype %s' % (
                  cls.__name__, label, float(val), ref, err_v, err_g,
                  np.asarray(val).dtype))

if violations:
    print('VIOLATION: %d of 6 evaluations with single-precision inputs '
          'differ from the evaluation of the same values in double '
          'precision.' % violations)
    sys.exit(1)
sys.exit(0)
