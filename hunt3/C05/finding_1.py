"""
C05 finding 1: the documented flat layout of eta, shape (n_ids * n_dim,), is
only accepted for the number of individuals stored in the model, although
Gaussian-type models are documented to ignore set_n_ids ("The behaviour of
most population models is the same for any number of individuals, in which
case n_ids is ignored"), n_dim is known to the model, and the same call works
with eta of shape (n_ids, n_dim).

psi(theta, eta) is the map through which upstream sensitivities are
propagated (non-centred models), so the chain rule cannot be evaluated for
the flat layout on a fresh model.
"""
import sys
sys.path.insert(0, sys.argv[1])
import numpy as np
import chi

n_ids, n_dim = 3, 2
eta2d = np.arange(1, n_ids * n_dim + 1, dtype=float).reshape(n_ids, n_dim) / 10
flat = eta2d.flatten()
theta = np.array([1.0, 2.0, 0.5, 0.6])

fixed = chi.ReducedPopulationModel(chi.GaussianModel(n_dim=n_dim, centered=False))
fixed.fix_parameters({'Std. Dim. 1': 0.5})
models = {
    'GaussianModel(centered=False)': (
        chi.GaussianModel(n_dim=n_dim, centered=False), theta),
    'LogNormalModel(centered=False)': (
        chi.LogNormalModel(n_dim=n_dim, centered=False), theta),
    'GaussianModel()': (chi.GaussianModel(n_dim=n_dim), theta),
    'TruncatedGaussianModel()': (
        chi.TruncatedGaussianModel(n_dim=n_dim), theta),
    'ReducedPopulationModel(Gaussian, 1 fixed)': (
        fixed, np.array([1.0, 2.0, 0.6])),
}

violations = 0
for name, (model, th) in models.items():
    ref = np.asarray(model.compute_individual_parameters(th, eta2d))
    try:
        out = np.asarray(model.compute_individual_parameters(th, flat))
        ok = out.shape == ref.shape and np.allclose(out, ref)
        print('%-45s flat eta -> %s' % (name, 'same as 2-d' if ok else out))
        violations += 0 if ok else 1
    except Exception as e:
        violations += 1
        print('%-45s flat eta -> %s: %s' % (name, type(e).__name__, e))

# The same objects accept the same flat eta after set_n_ids(3): the layout is
# accepted, but only for the stored number of individuals.
m = chi.GaussianModel(n_dim=n_dim, centered=False)
m.set_n_ids(n_ids)
print('after set_n_ids(3):', np.allclose(
    m.compute_individual_parameters(theta, flat),
    theta[:2] + theta[2:] * eta2d))

if violations:
    print('VIOLATION: %d models reject the documented flat eta layout for a '
          'number of individuals other than the stored one.' % violations)
    sys.exit(1)
sys.exit(0)
