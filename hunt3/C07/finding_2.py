"""
C07 / finding 2

CovariatePopulationModel.__init__ calls
``self._population_model.set_dim_names(dim_names)`` unconditionally. With the
default ``dim_names=None`` this RESETS the dimension names of the wrapped
population model to 'Dim. 1', 'Dim. 2', ... (custom parameter names of the
wrapped model are kept, and a ReducedPopulationModel wrapper keeps the
dimension names, too).

The names of the covariate coefficients are built from these dimension names,
so they no longer identify the dimension they act on: inside a composed model
the coefficient of the model's SECOND dimension (which the user called 'CL')
is published as '... Dim. 1 Age'.
"""
import sys

sys.path.insert(0, sys.argv[1] if len(sys.argv) > 1 else '/repo')

import chi  # noqa: E402

violated = False

# 1. Bare wrapper
base = chi.LogNormalModel(n_dim=2, dim_names=['CL', 'V'])
cpop = chi.CovariatePopulationModel(
    base, chi.LinearCovariateModel(cov_names=['Age']))
cpop.set_population_parameters([[0, 1]])     # log mean of V
print('wrapped model    :', base.get_dim_names(), base.get_parameter_names())
print('covariate model  :', cpop.get_dim_names(), cpop.get_parameter_names())
if cpop.get_dim_names() != ['CL', 'V']:
    violated = True
    print('-> the dimension names of the wrapped model are lost')
if 'Log mean V Age' not in cpop.get_parameter_names():
    violated = True
    print('-> the coefficient is not named after the dimension V')

# 2. Inside a composite the default name points to the wrong dimension
pop = chi.ComposedPopulationModel([
    chi.PooledModel(n_dim=2, dim_names=['Dim. 2', 'V']),
    chi.CovariatePopulationModel(
        chi.LogNormalModel(dim_names=['CL']),
        chi.LinearCovariateModel(cov_names=['Age']))])
print('composite dims   :', pop.get_dim_names())
print('composite names  :', pop.get_parameter_names())
# The covariate sub-model is the third dimension of the composite, named 'CL'
# by the user
beta_names = [n for n in pop.get_parameter_names() if n.endswith('Age')]
if pop.get_dim_names()[2] != 'CL' or any('CL' not in n for n in beta_names):
    violated = True
    print('-> coefficients', beta_names, 'act on dimension 3 (CL) of the '
          'composite, but are labelled with dimension name',
          repr(pop.get_dim_names()[2]))

# 3. For comparison: the other wrapper keeps the names
red = chi.ReducedPopulationModel(chi.LogNormalModel(dim_names=['CL']))
print('reduced wrapper  :', red.get_dim_names(), red.get_parameter_names())

if violated:
    print('VIOLATED')
    sys.exit(1)
print('holds')
sys.exit(0)
