"""
C07 / finding 1

A ReducedPopulationModel around a CovariatePopulationModel is documented
(ReducedPopulationModel._refresh, commit a935d2d) to follow a wrapped model
that is reconfigured after wrapping, "e.g. by selecting other parameters of a
covariate population model. Parameters stay fixed by name."

The reconfiguration is only detected through a change of the parameter COUNT.
Moving the covariate selection to another population parameter keeps the
count, so the positional mask survives: the value that was fixed for the
coefficient of one population parameter is silently applied to the
coefficient of another one, which nobody fixed and which disappears from the
parameter names.
"""
import sys

sys.path.insert(0, sys.argv[1] if len(sys.argv) > 1 else '/repo')

import numpy as np  # noqa: E402
import chi  # noqa: E402

cpop = chi.CovariatePopulationModel(
    chi.GaussianModel(), chi.LinearCovariateModel(n_cov=2))
cpop.set_population_parameters([[0, 0]])          # covariates act on the mean
reduced = chi.ReducedPopulationModel(cpop)
reduced.fix_parameters({'Mean Dim. 1 Cov. 2': 0.3})
print('names before re-selection :', reduced.get_parameter_names())

# Let the covariates act on the standard deviation instead
reduced.get_population_model().set_population_parameters([[1, 0]])
wrapped_names = reduced.get_population_model().get_parameter_names()
names = reduced.get_parameter_names()
print('names of wrapped model    :', wrapped_names)
print('names of reduced model    :', names)

violated = False

# 1. 'Mean Dim. 1 Cov. 2' does not exist any more, so nothing that the user
#    fixed is left: every coefficient of the new selection has to be free.
missing = [n for n in wrapped_names if n not in names]
if missing:
    violated = True
    print('never fixed, but missing from the reduced model:', missing)

# 2. The hidden coefficient shifts the standard deviation by 0.3 * covariate
covariates = np.array([[1.0, 2.0], [0.5, -1.0], [0.0, 1.0]])
psi = np.array([[1.0], [2.0], [0.7]])
free = [1.0, 1.0, 0.1]    # Mean, Std., 'Std. Dim. 1 Cov. 1'
if len(free) == reduced.n_parameters():
    score = reduced.compute_log_likelihood(free, psi, covariates=covariates)
    # model the names describe: sd_i = 1 + 0.1 chi_i1 (second coefficient
    # absent / zero)
    sd = 1.0 + 0.1 * covariates[:, 0]
    expected = np.sum(
        -np.log(2 * np.pi * sd**2) / 2 - (psi[:, 0] - 1.0)**2 / 2 / sd**2)
    sd = 1.0 + 0.1 * covariates[:, 0] + 0.3 * covariates[:, 1]
    hidden = np.sum(
        -np.log(2 * np.pi * sd**2) / 2 - (psi[:, 0] - 1.0)**2 / 2 / sd**2)
    print('log-likelihood of reduced model          :', score)
    print('reference, std. shifted by Cov. 1 only   :', expected)
    print('reference, 0.3 * Cov. 2 added to the std.:', hidden)
    if not np.isclose(score, expected) and np.isclose(score, hidden):
        violated = True
        print('the value fixed for the MEAN coefficient acts on the STD.')

if violated:
    print('VIOLATED')
    sys.exit(1)
print('holds')
sys.exit(0)
