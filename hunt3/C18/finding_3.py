# compute_pointwise_loglikelihood cannot select the columns when the
# param_map sends two likelihood parameters to the same posterior variable
# (e.g. the noise parameters of two outputs to one posterior variable):
# _filter_top_parameters drops every name that occurs more than once from the
# population-level list, _format_posterior then treats it as an
# individual-level variable and indexes ids=None -> TypeError.
# PosteriorPredictiveModel accepts the same dataset and the same map.
import sys
import warnings

sys.path.insert(0, sys.argv[1])
warnings.filterwarnings('ignore')

import numpy as np  # noqa
import xarray as xr  # noqa
import chi  # noqa


class Toy(chi.MechanisticModel):
    """Two outputs: y = p1 + p2 t, z = 2 y + 1."""
    def __init__(self):
        super().__init__()
        self._sens = False

    def enable_sensitivities(self, enabled, parameter_names=None):
        self._sens = bool(enabled)

    def has_sensitivities(self):
        return self._sens

    def n_outputs(self):
        return 2

    def n_parameters(self):
        return 2

    def outputs(self):
        return ['y', 'z']

    def parameters(self):
        return ['p1', 'p2']

    def simulate(self, parameters, times):
        p = np.asarray(parameters, dtype=float)
        t = np.asarray(times, dtype=float)
        y = p[0] + p[1] * t
        out = np.vstack([y, 2 * y + 1])
        if not self._sens:
            return out
        s = np.zeros((len(t), 2, 2))
        s[:, 0, 0] = 1
        s[:, 0, 1] = t
        s[:, 1] = 2 * s[:, 0]
        return out, s


error_models = [chi.GaussianErrorModel(), chi.GaussianErrorModel()]
log_likelihood = chi.LogLikelihood(
    Toy(), error_models, [[1., 2.], [3., 5., 7.]], [[1., 2.], [1., 2., 3.]])
print('likelihood parameters:', log_likelihood.get_parameter_names())

# Posterior samples in the format of SamplingController: (chain, draw)
n_chains, n_draws = 2, 3
rng = np.random.default_rng(0)
raw = rng.uniform(0.5, 1, size=(n_chains, n_draws, 3))
samples = xr.Dataset(
    dict(
        (name, (('chain', 'draw'), raw[:, :, k]))
        for k, name in enumerate(['p1', 'p2', 'Sigma'])),
    coords={'chain': list(range(n_chains)), 'draw': list(range(n_draws))})
param_map = {'y Sigma': 'Sigma', 'z Sigma': 'Sigma'}

# Expected: columns p1, p2, Sigma, Sigma of each draw
expected = np.array([[
    log_likelihood.compute_pointwise_ll(raw[c, d, [0, 1, 2, 2]])
    for d in range(n_draws)] for c in range(n_chains)])

predictive = chi.PosteriorPredictiveModel(
    chi.PredictiveModel(Toy(), error_models), samples, param_map=param_map)
df = predictive.sample([1., 2.], n_samples=2, seed=1)
print('PosteriorPredictiveModel accepts the map: %d rows sampled' % len(df))

try:
    pw = chi.compute_pointwise_loglikelihood(
        log_likelihood, samples, param_map=param_map)
except Exception as e:  # noqa
    print('compute_pointwise_loglikelihood raised %s: %s'
          % (type(e).__name__, e))
    print('VIOLATION: the matching columns are not selected.')
    sys.exit(1)

if (pw.shape != expected.shape) or not np.allclose(pw.values, expected):
    print('VIOLATION: pointwise log-likelihoods differ from the values for '
          'the mapped columns.')
    sys.exit(1)
print('pointwise log-likelihoods agree with the mapped columns')
sys.exit(0)
