# Heterogeneously modelled parameters are individual-level parameters, but
# the inference output identifies them by POSITION ('ID 1 <name>',
# 'ID 2 <name>', ... in order of first appearance in the data) and with the
# ID None, not by the individual's ID.  For a dataset whose IDs are 3, 1, 2
# the posterior variable / table row 'ID 1 p1' belongs to individual '3',
# 'ID 2 p1' to individual '1' and 'ID 3 p1' to individual '2': estimates and
# draws are attributed to another existing individual.
import sys
import warnings

sys.path.insert(0, sys.argv[1])
warnings.filterwarnings('ignore')

import numpy as np  # noqa
import pandas as pd  # noqa
import pints  # noqa
import chi  # noqa


class Toy(chi.MechanisticModel):
    def __init__(self):
        super().__init__()
        self._sens = False

    def enable_sensitivities(self, enabled, parameter_names=None):
        self._sens = bool(enabled)

    def has_sensitivities(self):
        return self._sens

    def n_outputs(self):
        return 1

    def n_parameters(self):
        return 2

    def outputs(self):
        return ['y']

    def parameters(self):
        return ['p1', 'p2']

    def simulate(self, parameters, times):
        p = np.asarray(parameters, dtype=float)
        t = np.asarray(times, dtype=float)
        y = (p[0] + p[1] * t)[np.newaxis, :]
        if not self._sens:
            return y
        s = np.zeros((len(t), 1, 2))
        s[:, 0, 0] = 1
        s[:, 0, 1] = t
        return y, s


# Individuals 3, 1, 2 (in this order in the file) with baselines 30, 10, 20
rows = []
for _id, level in [(3, 30.), (1, 10.), (2, 20.)]:
    for t in [1., 2., 3.]:
        rows.append({
            'ID': _id, 'Time': t, 'Observable': 'y', 'Value': level + 0.1 * t})
data = pd.DataFrame(rows)

problem = chi.ProblemModellingController(Toy(), [chi.GaussianErrorModel()])
problem.set_population_model(chi.ComposedPopulationModel([
    chi.HeterogeneousModel(), chi.PooledModel(), chi.PooledModel()]))
problem.set_data(data)
n = problem.get_n_parameters()
problem.set_log_prior(pints.ComposedLogPrior(*[
    pints.UniformLogPrior(0, 100) for _ in range(n)]))
log_posterior = problem.get_log_posterior()

names = log_posterior.get_parameter_names()
ids = log_posterior.get_id()
print('parameters:', names)
print('IDs       :', ids)
print('individuals:', log_posterior.get_id(unique=True))

# Optimisation table (few iterations are enough to see the pairing)
controller = chi.OptimisationController(log_posterior, seed=1)
controller.set_n_runs(1)
controller.set_parallel_evaluation(False)
controller.set_optimiser(pints.CMAES)
np.random.seed(1)
table = controller.run(n_max_iterations=1500)
print(table[['ID', 'Parameter', 'Estimate']].to_string(index=False))

# Which individual does 'ID k p1' belong to?  Change only that parameter and
# look which individual's likelihood (from the same controller without
# population model) accounts for the change of the log-posterior.
reference = chi.ProblemModellingController(Toy(), [chi.GaussianErrorModel()])
reference.set_data(data)
reference.set_log_prior(pints.ComposedLogPrior(*[
    pints.UniformLogPrior(0, 100) for _ in range(3)]))
real_ids = [str(i) for i in log_posterior.get_id(unique=True)]
individual_lls = dict(
    (_id, reference.get_log_posterior(individual=_id).get_log_likelihood())
    for _id in real_ids)

base = np.array([20.] * 3 + [0.1, 1.])
assert len(base) == len(names)
violations = []
for k in range(3):
    label = 'ID %d p1' % (k + 1)
    index = names.index(label)
    changed = base.copy()
    changed[index] = 25.
    delta = log_posterior(changed) - log_posterior(base)
    owner = None
    for _id, ll in individual_lls.items():
        d = ll([25., 0.1, 1.]) - ll([20., 0.1, 1.])
        if np.isclose(d, delta, rtol=1e-9, atol=1e-9) and abs(d) > 1e-6:
            owner = _id
    estimate = float(
        table[table['Parameter'] == label]['Estimate'].iloc[0])
    print("%s (ID column: %s, estimate %.1f) is the parameter of "
          "individual '%s'" % (label, ids[index], estimate, owner))
    if (owner != str(k + 1)) and (str(k + 1) in real_ids):
        violations.append((label, owner))

if violations:
    print('VIOLATION: heterogeneous individual-level parameters are paired '
          'with the label of another existing individual and carry no ID: '
          + str(violations))
    sys.exit(1)
sys.exit(0)
