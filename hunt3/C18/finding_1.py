# compute_pointwise_loglikelihood is documented for a
# chi.HierarchicalLogLikelihood ("pointwise log-likelihoods are by default
# computed and aggregated per individual"), but feeding it the dataset that
# SamplingController returns for the hierarchical posterior raises TypeError
# (stale call get_id(individual_ids=True)); behind it
# HierarchicalLogLikelihood.compute_pointwise_ll raises NotImplementedError.
import sys
import warnings

sys.path.insert(0, sys.argv[1])
warnings.filterwarnings('ignore')

import numpy as np  # noqa
import pints  # noqa
import chi  # noqa


class Toy(chi.MechanisticModel):
    def __init__(self):
        super().__init__()
        self._sens = False

    def enable_sensitivities(self, enabled, parameter_names=None):
        self._sens = bool(enabled)

    def has_sensitivities(self):
        return self._sens

    def n_outputs(self):
        return 1

    def n_parameters(self):
        return 2

    def outputs(self):
        return ['y']

    def parameters(self):
        return ['p1', 'p2']

    def simulate(self, parameters, times):
        p = np.asarray(parameters, dtype=float)
        t = np.asarray(times, dtype=float)
        y = (p[0] + p[1] * t)[np.newaxis, :]
        if not self._sens:
            return y
        s = np.zeros((len(t), 1, 2))
        s[:, 0, 0] = 1
        s[:, 0, 1] = t
        return y, s


rng = np.random.default_rng(1)
times = np.array([1., 2., 3., 4.])
log_likelihoods = []
for _id in ['a', 'b', 'c']:
    y = 1 + 0.5 * times + rng.normal(0, 0.1, size=4)
    ll = chi.LogLikelihood(Toy(), chi.GaussianErrorModel(), y, times)
    ll.set_id(_id)
    log_likelihoods.append(ll)

population_model = chi.ComposedPopulationModel([
    chi.GaussianModel(), chi.PooledModel(), chi.LogNormalModel()])
hierarchical_ll = chi.HierarchicalLogLikelihood(
    log_likelihoods, population_model)
log_prior = pints.ComposedLogPrior(*[
    pints.LogNormalLogPrior(0, 0.3) for _ in range(5)])
log_posterior = chi.HierarchicalLogPosterior(hierarchical_ll, log_prior)

controller = chi.SamplingController(log_posterior, seed=1)
controller.set_n_runs(2)
controller.set_parallel_evaluation(False)
np.random.seed(2)
samples = controller.run(n_iterations=5)
print('dataset variables:', dict(
    (name, samples[name].dims) for name in samples.data_vars))

failed = False
for per_individual in [True, False]:
    try:
        pw = chi.compute_pointwise_loglikelihood(
            hierarchical_ll, samples, per_individual=per_individual)
        print('per_individual=%s: pointwise log-likelihoods of shape %s'
              % (per_individual, str(pw.shape)))
    except BaseException as e:  # noqa
        failed = True
        print('per_individual=%s: compute_pointwise_loglikelihood('
              'HierarchicalLogLikelihood, dataset of SamplingController) '
              'raised %s: %s' % (per_individual, type(e).__name__, e))

# The same dataset works for the likelihood of one individual
pw = chi.compute_pointwise_loglikelihood(
    log_likelihoods[1], samples, individual='b',
    param_map={'p2': 'Pooled Dim. 1'})
print('individual log-likelihood b: shape', pw.shape)

if failed:
    print('VIOLATION: the documented hierarchical pointwise evaluation '
          'cannot use the posterior dataset.')
    sys.exit(1)
sys.exit(0)
