"""
C19 - evaluateS1 returns uninitialised memory for rejected points: repeating
the evaluation with the same input returns different "sensitivities".

(a) PopulationFilterLogPosterior.evaluateS1 allocates its gradient with
    np.empty and returns it as it is when the log-prior rejects the point
    (also when the simulation fails): the entries of the bottom-level
    parameters and noise realisations are whatever was in memory before.
(b) HierarchicalLogPosterior.evaluateS1 / HierarchicalLogLikelihood.evaluateS1
    hand on the np.empty arrays that the population models return together
    with a score of -inf (TruncatedGaussianModel for a negative individual
    parameter, Gaussian / LogNormal / TruncatedGaussian for sigma < 0, ...).

Gradient-based samplers use the gradient of intermediate leapfrog positions
without looking at the score (e.g. pints.HamiltonianMCMC), so the trajectories
of a seeded run depend on the memory content of the (worker) process.

The script fills freed memory with a recognisable number before each of three
identical evaluations; a pure evaluation cannot notice that.
"""
import sys
sys.path.insert(0, sys.argv[1])
import numpy as np
import pints
import chi


class Decay(chi.MechanisticModel):
    """y = a exp(-k t), analytic sensitivities."""
    def __init__(self):
        super(Decay, self).__init__()
        self._s = False

    def enable_sensitivities(self, enabled, parameter_names=None):
        self._s = bool(enabled)

    def has_sensitivities(self):
        return self._s

    def n_outputs(self):
        return 1

    def n_parameters(self):
        return 2

    def outputs(self):
        return ['y']

    def parameters(self):
        return ['a', 'k']

    def simulate(self, parameters, times):
        a, k = parameters
        t = np.asarray(times, dtype=float)
        y = (a * np.exp(-k * t))[np.newaxis, :]
        if not self._s:
            return y
        s = np.empty((len(t), 1, 2))
        s[:, 0, 0] = np.exp(-k * t)
        s[:, 0, 1] = -a * t * np.exp(-k * t)
        return y, s


def dirty_memory(value, sizes):
    """Allocates, fills and frees arrays (a legitimate thing to happen
    between two evaluations)."""
    for size in sizes:
        junk = np.full(size, value)
        del junk
    junk = [np.full(size, value) for size in sizes]
    del junk


def repeat(log_pdf, x, sizes):
    results = []
    for value in [1.0, 2.0, 3.0]:
        dirty_memory(value, sizes)
        score, gradient = log_pdf.evaluateS1(x)
        results.append((score, np.array(gradient, copy=True)))
    return results


rng = np.random.default_rng(5)
times = [1., 2., 3.]
violated = False

# (a) Filter posterior, point outside the support of the log-prior
obs = rng.uniform(0.5, 2, size=(6, 1, 3))
population_model = chi.ComposedPopulationModel([
    chi.LogNormalModel(), chi.LogNormalModel()])
log_prior = pints.ComposedLogPrior(*[pints.UniformLogPrior(0, 5)] * 5)
log_posterior = chi.PopulationFilterLogPosterior(
    chi.GaussianFilter(obs), times, Decay(), population_model, log_prior,
    n_samples=4)
n = log_posterior.n_parameters()
x = rng.uniform(0.3, 1.2, size=n)
x[0] = -1.0
results = repeat(log_posterior, x, [n])
print('(a) PopulationFilterLogPosterior, log-prior rejects the point')
for score, gradient in results:
    print('    score', score, 'gradient[3:11]', gradient[3:11])
same = all(
    np.array_equal(results[0][1], g, equal_nan=True) for _, g in results)
print('    identical results for identical input:', same)
violated = violated or not same

# (b) Hierarchical posterior, truncated Gaussian population model, negative
# bottom-level parameter (bottom-level parameters have no prior that could
# reject them first)
t = np.array(times)
log_likelihoods = [
    chi.LogLikelihood(
        Decay(), chi.GaussianErrorModel(), 2 * np.exp(-0.5 * t), t)
    for _ in range(3)]
log_likelihood = chi.HierarchicalLogLikelihood(
    log_likelihoods, chi.TruncatedGaussianModel(n_dim=3))
log_posterior = chi.HierarchicalLogPosterior(
    log_likelihood, pints.ComposedLogPrior(
        *[pints.GaussianLogPrior(1, 1)] * 6))
n = log_posterior.n_parameters()
x = rng.uniform(0.3, 1.2, size=n)
x[0] = -0.2
results = repeat(log_posterior, x, list(range(1, 40)))
print('(b) HierarchicalLogPosterior, TruncatedGaussianModel, psi < 0')
for score, gradient in results:
    print('    score', score, 'gradient[:6]', gradient[:6])
same = all(
    np.array_equal(results[0][1], g, equal_nan=True) for _, g in results)
print('    identical results for identical input:', same)
violated = violated or not same

if violated:
    print('VIOLATION: evaluateS1 returns uninitialised memory; repeated '
          'evaluations of the same input differ.')
    sys.exit(1)
print('property holds (no difference observed)')
sys.exit(0)
