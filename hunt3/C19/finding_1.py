"""
C19 - PopulationFilterLogPosterior.evaluateS1 depends on the call history.

A user-defined (analytic) mechanistic model whose sensitivities were enabled
for a selection of parameters (documented: enable_sensitivities(enabled,
parameter_names)) is handed to a PopulationFilterLogPosterior. The posterior
keeps the sensitivity state of its copy: evaluateS1 trusts has_sensitivities()
and uses the one selected column for ALL parameters (silently broadcast), until
a plain __call__ switches the sensitivities off, after which evaluateS1
re-enables all of them. So the same object returns two different gradients for
the same input, depending on whether __call__ was evaluated in between.
"""
import sys
sys.path.insert(0, sys.argv[1])
import numpy as np
import pints
import chi


class Decay(chi.MechanisticModel):
    """y = a exp(-k t), analytic sensitivities."""
    def __init__(self):
        super(Decay, self).__init__()
        self._names = ['a', 'k']
        self._selected = None     # None: sensitivities disabled

    def enable_sensitivities(self, enabled, parameter_names=None):
        if not enabled:
            self._selected = None
            return None
        if parameter_names is None:
            parameter_names = self._names
        self._selected = [
            i for i, n in enumerate(self._names) if n in parameter_names]

    def has_sensitivities(self):
        return self._selected is not None

    def n_outputs(self):
        return 1

    def n_parameters(self):
        return 2

    def outputs(self):
        return ['y']

    def parameters(self):
        return list(self._names)

    def simulate(self, parameters, times):
        a, k = parameters
        t = np.asarray(times, dtype=float)
        y = (a * np.exp(-k * t))[np.newaxis, :]
        if self._selected is None:
            return y
        full = np.empty((len(t), 1, 2))
        full[:, 0, 0] = np.exp(-k * t)
        full[:, 0, 1] = -a * t * np.exp(-k * t)
        return y, full[:, :, self._selected]


rng = np.random.default_rng(1)
times = [1., 2., 3.]
obs = rng.uniform(0.5, 2, size=(6, 1, 3))

user_model = Decay()
user_model.enable_sensitivities(True, parameter_names=['k'])

population_model = chi.ComposedPopulationModel([
    chi.LogNormalModel(), chi.LogNormalModel()])
log_prior = pints.ComposedLogPrior(*[pints.UniformLogPrior(0, 5)] * 5)
log_posterior = chi.PopulationFilterLogPosterior(
    chi.GaussianFilter(obs), times, user_model, population_model, log_prior,
    n_samples=4)

x = rng.uniform(0.3, 1.2, size=log_posterior.n_parameters())

violated = False
try:
    score_1, grad_1 = log_posterior.evaluateS1(x)
    grad_1 = np.array(grad_1)
except Exception as e:
    print('evaluateS1 raises before any __call__: %r' % e)
    violated = True
    grad_1 = None

score = log_posterior(x)            # plain evaluation in between
score_2, grad_2 = log_posterior.evaluateS1(x)   # same object, same input
grad_2 = np.array(grad_2)

# Reference: central finite differences of __call__
fd = np.empty(len(x))
for i in range(len(x)):
    h = 1e-6
    xp = x.copy(); xp[i] += h
    xm = x.copy(); xm[i] -= h
    fd[i] = (log_posterior(xp) - log_posterior(xm)) / (2 * h)

if grad_1 is not None:
    print('score:', score_1, score, score_2)
    print('gradient before __call__      :', grad_1[:13])
    print('gradient after  __call__      :', grad_2[:13])
    print('finite differences of __call__:', fd[:13])
    print('max |first - second| =', np.max(np.abs(grad_1 - grad_2)))
    print('max |first - FD|     =', np.max(np.abs(grad_1 - fd)))
    print('max |second - FD|    =', np.max(np.abs(grad_2 - fd)))
    if not np.allclose(grad_1, grad_2, rtol=1e-8, atol=1e-10):
        violated = True

if violated:
    print('VIOLATION: evaluateS1 of the same posterior at the same point '
          'depends on whether __call__ was evaluated before.')
    sys.exit(1)
print('property holds')
sys.exit(0)
