"""
C16 finding 1 (minor): an unsigned 64-bit NumPy integer seed is accepted by
the error, population, predictive, population predictive, posterior
predictive models and by LogPosterior.sample_initial_parameters (and gives
exactly the draws of the equal Python int), but

    PriorPredictiveModel.sample
    HierarchicalLogPosterior.sample_initial_parameters
    PopulationFilterLogPosterior.sample_initial_parameters
    OptimisationController / SamplingController (seed=...)

raise TypeError, because they do arithmetic on the seed (seed + sample_id,
seed += 1) and uint64 (+) int64 is float64 in NumPy.

np.uint64 seeds are what np.random.SeedSequence(...).generate_state(n,
dtype=np.uint64) and rng.integers(..., dtype=np.uint64) return, and both
np.random.seed and np.random.default_rng accept them.

Exit code 1 when a routine cannot be seeded with np.uint64(7) or does not
reproduce the draws of seed=7.
"""
import copy
import sys

sys.path.insert(0, sys.argv[1])

import numpy as np  # noqa: E402
import pints  # noqa: E402

import chi  # noqa: E402


class Toy(chi.MechanisticModel):
    """Analytic two-parameter, one-output model (no solver needed)."""
    def __init__(self):
        super(Toy, self).__init__()

    def copy(self):
        return copy.deepcopy(self)

    def enable_sensitivities(self, enabled, parameter_names=None):
        pass

    def has_sensitivities(self):
        return False

    def n_outputs(self):
        return 1

    def n_parameters(self):
        return 2

    def outputs(self):
        return ['y']

    def parameters(self):
        return ['a', 'b']

    def set_outputs(self, outputs):
        pass

    def set_output_names(self, names):
        pass

    def set_parameter_names(self, names):
        pass

    def simulate(self, parameters, times):
        a, b = parameters
        return (a + b * np.asarray(times, dtype=float))[np.newaxis, :]

    def supports_dosing(self):
        return False


def values(result):
    if hasattr(result, 'columns'):
        return np.asarray(result['Value'], dtype=float)
    return np.asarray(result, dtype=float)


model = Toy()
times = [1., 2., 3.]
predictive = chi.PredictiveModel(model, [chi.GaussianErrorModel()])
population = chi.ComposedPopulationModel([
    chi.GaussianModel(), chi.TruncatedGaussianModel(), chi.PooledModel()])
pop_predictive = chi.PopulationPredictiveModel(predictive, population)
prior3 = pints.ComposedLogPrior(*[pints.LogNormalLogPrior(-1, .1)] * 3)
prior5 = pints.ComposedLogPrior(*[pints.LogNormalLogPrior(-1, .1)] * 5)
prior_predictive = chi.PriorPredictiveModel(predictive, prior3)

log_likelihoods = [
    chi.LogLikelihood(
        model, chi.GaussianErrorModel(), [1. + i, 2., 3.], [1., 2., 3.])
    for i in range(2)]
log_posterior = chi.LogPosterior(log_likelihoods[0], prior3)
hierarchical = chi.HierarchicalLogPosterior(
    chi.HierarchicalLogLikelihood(log_likelihoods, population), prior5)
filter_posterior = chi.PopulationFilterLogPosterior(
    chi.GaussianFilter(np.arange(1, 13, dtype=float).reshape(4, 1, 3)),
    times, model, chi.ComposedPopulationModel([
        chi.GaussianModel(), chi.TruncatedGaussianModel()]),
    pints.ComposedLogPrior(*[pints.LogNormalLogPrior(-1, .1)] * 4),
    sigma=[0.1], n_samples=3)

routines = [
    ('GaussianErrorModel.sample',
     lambda s: chi.GaussianErrorModel().sample([1], [1., 2.], seed=s)),
    ('TruncatedGaussianModel.sample',
     lambda s: chi.TruncatedGaussianModel().sample([1, 1], 3, seed=s)),
    ('ComposedPopulationModel.sample',
     lambda s: population.sample([1, .1, 2, .2, .1], 3, seed=s)),
    ('PredictiveModel.sample',
     lambda s: predictive.sample([1, 2, .1], times, seed=s)),
    ('PopulationPredictiveModel.sample',
     lambda s: pop_predictive.sample([1, .1, 2, .2, .1], times, seed=s)),
    ('LogPosterior.sample_initial_parameters',
     lambda s: log_posterior.sample_initial_parameters(2, seed=s)),
    ('PriorPredictiveModel.sample',
     lambda s: prior_predictive.sample(times, 2, seed=s)),
    ('HierarchicalLogPosterior.sample_initial_parameters',
     lambda s: hierarchical.sample_initial_parameters(2, seed=s)),
    ('PopulationFilterLogPosterior.sample_initial_parameters',
     lambda s: filter_posterior.sample_initial_parameters(2, seed=s)),
    ('SamplingController(seed=...)',
     lambda s: chi.SamplingController(hierarchical, seed=s)._initial_params),
]

violated = False
for name, routine in routines:
    reference = values(routine(7))
    try:
        result = values(routine(np.uint64(7)))
    except Exception as error:
        violated = True
        print('%-55s seed=np.uint64(7) RAISES %s: %s' % (
            name, type(error).__name__, error))
        continue
    same = np.array_equal(reference, result)
    print('%-55s seed=np.uint64(7) reproduces seed=7: %s' % (name, same))
    if not same:
        violated = True

if violated:
    print(
        'VIOLATION: some sampling routines cannot be seeded with an integer '
        'seed that all the others (and numpy itself) accept.')
    sys.exit(1)
print('Property holds.')
sys.exit(0)
