"""
C11 - the sensitivity selection of a model that is wrapped by a
ReducedMechanisticModel is lost at the first fix_parameters call.

enable_sensitivities(True, [names]) + fix_parameters({other: value}) gives
different simulation results depending on whether the sensitivities were
enabled before or after the model was wrapped: fixing an unrelated parameter
ADDS sensitivity columns when the model was configured before wrapping.
"""
import sys
sys.path.insert(0, sys.argv[1])
try:
    # (stand-in for the compiled myokit simulation where sundials is missing)
    sys.path.insert(1, '/tmp/seedhelp')
    import refsim
    refsim.install()
except Exception:
    pass
import numpy as np
import chi
import chi.library

times = [0.0, 1.0, 2.0]
lib = chi.library.ModelLibrary()

# Order 1: select sensitivities, wrap, fix another parameter
model = lib.one_compartment_pk_model()
model.enable_sensitivities(True, ['central.size'])
first = chi.ReducedMechanisticModel(model)
shape_before = first.simulate([1, 1, 1], times)[1].shape
first.fix_parameters({'global.elimination_rate': 1})
_, sens_1 = first.simulate([1, 1], times)

# Order 2: wrap, select sensitivities, fix another parameter
model = lib.one_compartment_pk_model()
second = chi.ReducedMechanisticModel(model)
second.enable_sensitivities(True, ['central.size'])
second.fix_parameters({'global.elimination_rate': 1})
_, sens_2 = second.simulate([1, 1], times)

# Order 3: wrap, fix, select
model = lib.one_compartment_pk_model()
third = chi.ReducedMechanisticModel(model)
third.fix_parameters({'global.elimination_rate': 1})
third.enable_sensitivities(True, ['central.size'])
_, sens_3 = third.simulate([1, 1], times)

print('free parameters in all three models:', first.parameters())
print('select -> wrap          : sensitivities', shape_before)
print('select -> wrap -> fix k_e: sensitivities', sens_1.shape)
print('wrap -> select -> fix k_e: sensitivities', sens_2.shape)
print('wrap -> fix k_e -> select: sensitivities', sens_3.shape)

if sens_1.shape != sens_2.shape or sens_2.shape != sens_3.shape:
    print('VIOLATION: the same net configuration (sensitivities w.r.t. '
          'central.size, elimination rate fixed) gives different simulation '
          'results; fixing the elimination rate added a sensitivity column '
          'for central.drug_amount.')
    sys.exit(1)
sys.exit(0)
