"""
C11 - ReducedMechanisticModel.copy() of a custom (non-SBML) mechanistic model
keeps the sensitivities of the wrapped model enabled but forgets its own
sensitivity bookkeeping (selection / "all parameters fixed" flag).

The copy is therefore identical to the original at the moment of copying, but
the same later configuration call (fix_parameters) gives different sensitivity
columns on the copy than on the original and than on a freshly configured
model.  For an all-fixed model the copy loses the sensitivities altogether,
although copies of partially fixed models keep them.
"""
import sys
sys.path.insert(0, sys.argv[1])
import numpy as np
import chi


class Toy(chi.MechanisticModel):
    """y = a * exp(-b t) + c, analytic sensitivities, honours the selection."""
    def __init__(self):
        super(Toy, self).__init__()
        self._names = ['a', 'b', 'c']
        self._sens = None  # None or list of parameter indices

    def enable_sensitivities(self, enabled, parameter_names=None):
        if not enabled:
            self._sens = None
            return None
        if parameter_names is None:
            self._sens = [0, 1, 2]
        else:
            self._sens = [
                i for i, n in enumerate(self._names)
                if n in list(parameter_names)]

    def has_sensitivities(self):
        return self._sens is not None

    def n_outputs(self):
        return 1

    def n_parameters(self):
        return 3

    def outputs(self):
        return ['y']

    def parameters(self):
        return list(self._names)

    def simulate(self, parameters, times):
        a, b, c = [float(p) for p in parameters]
        t = np.asarray(times, dtype=float)
        y = (a * np.exp(-b * t) + c)[np.newaxis, :]
        if self._sens is None:
            return y
        full = np.stack(
            [np.exp(-b * t), -a * t * np.exp(-b * t), np.ones(len(t))], axis=1)
        return y, full[:, np.newaxis, self._sens]


def describe(model, parameters, times):
    out = model.simulate(parameters, times)
    if isinstance(out, tuple):
        return 'sensitivities of shape ' + str(out[1].shape)
    return 'no sensitivities'


times = [0.0, 0.5, 1.0, 2.0]
failed = False

# --- 1. selection is lost on the copy --------------------------------------
original = chi.ReducedMechanisticModel(Toy())
original.enable_sensitivities(True, ['a'])
duplicate = original.copy()

same_at_copy = (
    original.has_sensitivities() == duplicate.has_sensitivities()
    and describe(original, [1, 2, 3], times)
    == describe(duplicate, [1, 2, 3], times))
print('at the moment of copying: original', describe(
    original, [1, 2, 3], times), '| copy', describe(
    duplicate, [1, 2, 3], times))

# The same configuration call on both
original.fix_parameters({'c': 0.5})
duplicate.fix_parameters({'c': 0.5})

# Fresh model with the net configuration
fresh = chi.ReducedMechanisticModel(Toy())
fresh.fix_parameters({'c': 0.5})
fresh.enable_sensitivities(True, ['a'])

d_o = describe(original, [1, 2], times)
d_c = describe(duplicate, [1, 2], times)
d_f = describe(fresh, [1, 2], times)
print('after fix_parameters({"c": 0.5}) on both:')
print('   original:', d_o)
print('   copy    :', d_c)
print('   fresh   :', d_f)
if same_at_copy and (d_c != d_o or d_c != d_f):
    print('VIOLATION: copy and original diverge under the same later '
          'configuration call (selection of the copy was dropped while its '
          'wrapped model kept the sensitivities enabled).')
    failed = True

# --- 2. all parameters fixed: copy loses the sensitivities -----------------
original = chi.ReducedMechanisticModel(Toy())
original.enable_sensitivities(True)
partial = chi.ReducedMechanisticModel(Toy())
partial.enable_sensitivities(True)
partial.fix_parameters({'a': 1})
original.fix_parameters({'a': 1, 'b': 2, 'c': 3})
print('partially fixed: original has sensitivities', partial.has_sensitivities(),
      '| copy', partial.copy().has_sensitivities())
print('all fixed      : original has sensitivities',
      original.has_sensitivities(), '| copy',
      original.copy().has_sensitivities())
if partial.copy().has_sensitivities() != original.copy().has_sensitivities():
    print('VIOLATION: whether a copy keeps the sensitivities depends on '
          'whether a parameter is left free.')
    failed = True

sys.exit(1 if failed else 0)
