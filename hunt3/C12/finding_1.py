"""
C12 finding 1: the population filters compute their statistics in the
precision of the dtype of the *simulated* measurements.

Commit 19a3987 made the filters convert the measurements to float64, but the
simulated measurements are still used in whatever dtype they arrive:
np.log(<float32 / int16 array>) is a float32 array (float16 for int8), and
np.mean / np.var of a float32 array are float32.  The same numerical values
therefore give different log-likelihoods and sensitivities depending on the
dtype of the container, and the result is not the documented density
evaluated at the documented estimates (errors up to 1e-3 relative for
ordinary data, while the float64 result is exact to 1e-15).

Usage: python finding_1.py <path to repository>
"""
import sys
import warnings

sys.path.insert(0, sys.argv[1])
warnings.filterwarnings('ignore')

import numpy as np  # noqa: E402
import chi  # noqa: E402


def reference_lognormal(obs, sim):
    """Documented LogNormalFilter score, loops, double precision."""
    sim = np.asarray(sim, dtype=float)
    n_sim = sim.shape[0]
    total = 0.0
    for r in range(obs.shape[1]):
        for j in range(obs.shape[2]):
            logs = np.log(sim[:, r, j])
            mu = np.sum(logs) / n_sim
            var = np.sum((logs - mu)**2) / (n_sim - 1)
            for y in obs[:, r, j]:
                if np.isnan(y):
                    continue
                total += (
                    - np.log(2 * np.pi) / 2 - np.log(var) / 2 - np.log(y)
                    - (np.log(y) - mu)**2 / var / 2)
    return total


rng = np.random.default_rng(1)
n_ids, n_obs, n_times, n_sim = 5, 2, 3, 20

# Measurements of size ~1000 with 0.2 % variability (e.g. cell counts)
observations = 1000 * np.exp(0.002 * rng.normal(size=(n_ids, n_obs, n_times)))
observations[0, 0, 1] = np.nan
simulated = 1000 * np.exp(0.002 * rng.normal(size=(n_sim, n_obs, n_times)))

cases = {
    'float32': simulated.astype(np.float32),
    'int16': np.round(simulated).astype(np.int16),
}
filters = {
    'GaussianFilter': chi.GaussianFilter(observations),
    'LogNormalFilter': chi.LogNormalFilter(observations),
    'GaussianKDEFilter': chi.GaussianKDEFilter(observations),
    'LogNormalKDEFilter': chi.LogNormalKDEFilter(observations),
    'GaussianMixtureFilter': chi.GaussianMixtureFilter(observations),
}

violated = False
for dtype_name, sim in cases.items():
    # Exactly the same numbers, stored as doubles
    sim64 = sim.astype(np.float64)
    assert np.array_equal(sim64, sim)
    for name, f in filters.items():
        v = f.compute_log_likelihood(sim)
        v64 = f.compute_log_likelihood(sim64)
        s, g = f.compute_sensitivities(sim)
        s64, g64 = f.compute_sensitivities(sim64)
        err_v = abs(v - v64) / abs(v64)
        err_s = abs(s - s64) / abs(s64)
        err_g = np.max(np.abs(np.asarray(g) - np.asarray(g64))) \
            / np.max(np.abs(np.asarray(g64)))
        flag = max(err_v, err_s, err_g) > 1e-9
        violated = violated or flag
        print(
            '%-8s %-22s score %.10f  (float64 container: %.10f)  '
            'rel.err score %.1e, S1 score %.1e, sensitivities %.1e %s' % (
                dtype_name, name, v, v64, err_v, err_s, err_g,
                '<-- differs' if flag else ''))

# Against the documented formula
f = filters['LogNormalFilter']
ref = reference_lognormal(observations, cases['float32'])
v = f.compute_log_likelihood(cases['float32'])
print()
print('LogNormalFilter, documented formula in double precision: %.10f' % ref)
print('LogNormalFilter.compute_log_likelihood(float32 array)  : %.10f' % v)
print('LogNormalFilter.compute_log_likelihood(same as float64): %.10f'
      % f.compute_log_likelihood(cases['float32'].astype(float)))
if abs(v - ref) > 1e-9 * abs(ref):
    violated = True

if violated:
    print('\nVIOLATION: the filter scores / sensitivities depend on the dtype '
          'of the simulated measurements (same values, other container).')
    sys.exit(1)
print('\nProperty holds.')
sys.exit(0)
