"""
C10 finding 1: dose rows with Duration 0 (the usual encoding of a bolus, e.g.
RATE=0 records; chi documents a *missing* duration as a bolus) are accepted by
ProblemModellingController.set_data, but the derived regimen holds an event
with an infinite dose rate and zero duration:

* applied to a model, the event is never active, so the individual receives
  no drug at all (and the regimen table lists the dose as NaN);
* get_log_posterior() cannot be built: copying the model with this regimen
  raises myokit's ParseError (Unexpected token NAME "inf").
"""
import sys
import warnings

repo = sys.argv[1] if len(sys.argv) > 1 else '/repo'
sys.path.insert(0, '/tmp/seedhelp')
sys.path.insert(0, repo)
try:  # solver stand-in for sandboxes without sundials
    import refsim
    refsim.install()
except Exception:
    pass

import numpy as np
import pandas as pd
import pints
import chi
from chi.library import ModelLibrary

warnings.simplefilter('ignore')

amount = 5.0
rows = [
    dict(ID='a', Time=t, Observable='central.drug_amount', Value=v,
         Dose=np.nan, Duration=np.nan)
    for t, v in [(2.0, 4.0), (4.0, 3.0)]]
rows += [dict(
    ID='a', Time=1.0, Observable=np.nan, Value=np.nan, Dose=amount,
    Duration=0.0)]
data = pd.DataFrame(rows)

model = ModelLibrary().one_compartment_pk_model()
model.set_administration('central', direct=True)
model.set_outputs(['central.drug_amount'])
problem = chi.ProblemModellingController(model, [chi.GaussianErrorModel()])
try:
    problem.set_data(data)
except ValueError as e:
    # An explicit refusal of the row would be fine
    print('set_data refuses the dose row: ', e)
    sys.exit(0)

violated = False
regimen = problem.get_dosing_regimens()['a']
print('dose row: time 1, duration 0, amount', amount)
print('derived regimen events (start, duration, rate):', [
    (e.start(), e.duration(), e.level()) for e in regimen.events()])

# 1. Amount in the dosed compartment without elimination = cumulative input
model.set_dosing_regimen(regimen)
times = np.array([0.5, 1.5, 2, 4])
# (parameters: initial amount, volume, elimination rate)
delivered = model.simulate([0, 1, 0], times)[0]
print('cumulative input at t =', times, ':', delivered)
if not np.allclose(delivered[1:], amount, rtol=1e-6):
    print(
        'VIOLATION: the dataset schedules %s units at t=1, the regimen '
        'derived from it administers %s.' % (amount, delivered[-1]))
    violated = True

# 2. The posterior of the individual
problem.set_log_prior(pints.ComposedLogPrior(
    *[pints.UniformLogPrior(0, 10)] * problem.get_n_parameters()))
try:
    log_likelihood = problem.get_log_posterior().get_log_likelihood()
    m = log_likelihood.get_submodels()['Mechanistic model']
    in_likelihood = m.simulate([0, 1, 0], times)[0]
    print('cumulative input in the log-likelihood:', in_likelihood)
    if not np.allclose(in_likelihood[1:], amount, rtol=1e-6):
        print('VIOLATION: the log-likelihood simulates another input.')
        violated = True
except Exception as e:
    print(
        'VIOLATION: set_data accepted the dose row, but get_log_posterior '
        'raises %s: %s' % (type(e).__name__, e))
    violated = True

sys.exit(1 if violated else 0)
