"""
C10 finding 2 (minor): set_dosing_regimen(dose, num=0) without a period
administers one dose. The earlier repair ("administers no dose for num=0")
only looks at num when a period is given; without a period num is overwritten
by myokit's sentinel 0 and the single dose is scheduled. The regimen table of
the predictive model lists the dose as well.
"""
import sys
import warnings

repo = sys.argv[1] if len(sys.argv) > 1 else '/repo'
sys.path.insert(0, '/tmp/seedhelp')
sys.path.insert(0, repo)
try:  # solver stand-in for sandboxes without sundials
    import refsim
    refsim.install()
except Exception:
    pass

import numpy as np
import chi
from chi.library import ModelLibrary

warnings.simplefilter('ignore')

violated = False
times = np.array([0.5, 2, 10])
for direct in [True, False]:
    model = ModelLibrary().one_compartment_pk_model()
    model.set_administration('central', direct=direct)
    outputs = ['central.drug_amount']
    if not direct:
        outputs += ['dose.drug_amount']
    model.set_outputs(outputs)

    # Reference: num=0 with a period
    model.set_dosing_regimen(dose=10, start=1, period=2, num=0)
    parameters = [0, 1, 0] if direct else [0, 0, 1, 2, 0]
    reference = model.simulate(parameters, times).sum(axis=0)

    # num=0 without a period
    try:
        model.set_dosing_regimen(dose=10, start=1, num=0)
    except ValueError as e:
        print('refused:', e)
        continue
    total = model.simulate(parameters, times).sum(axis=0)
    pm = chi.PredictiveModel(
        model, [chi.GaussianErrorModel()] * len(outputs))
    table = pm.get_dosing_regimen(final_time=10)
    print('direct =', direct)
    print('  num=0, period=2   : cumulative input', reference)
    print('  num=0, period=None: cumulative input', total)
    print('  regimen table:', None if table is None else table.values.tolist())
    if np.any(np.abs(total) > 1e-9) or (table is not None):
        print('  VIOLATION: zero doses were requested, one is administered.')
        violated = True

sys.exit(1 if violated else 0)
