#
# C06 finding 1 (low severity): the samplers of GaussianErrorModel,
# LogNormalErrorModel and MultiplicativeGaussianErrorModel cannot draw for a
# parameter container that their own log-likelihood scores.
#
# ``parameters`` is documented as "an array-like object with the error model
# parameters" for compute_log_likelihood, compute_pointwise_ll,
# compute_sensitivities AND sample.  The scoring methods convert it with
# np.asarray, sample() reads ``parameters[0]``.  For a pandas Series that is
# indexed by the parameter names (or by any labels other than 0, e.g. a slice
# of a longer estimate vector) ``parameters[0]`` is a label lookup and raises
# KeyError, so no sample of the scored distribution can be drawn.  The
# ConstantAndMultiplicativeGaussianErrorModel (tuple unpacking) and every
# ReducedErrorModel with a fixed parameter (positional mask assignment) accept
# the same container.
#
import sys

sys.path.insert(0, sys.argv[1])

import numpy as np  # noqa: E402
import pandas as pd  # noqa: E402

import chi  # noqa: E402

model_output = np.array([1.0, 2.0, 4.0])
observations = np.array([1.1, 1.9, 4.3])

violations = 0
for error_model in [
        chi.GaussianErrorModel(),
        chi.LogNormalErrorModel(),
        chi.MultiplicativeGaussianErrorModel()]:
    name = type(error_model).__name__
    names = error_model.get_parameter_names()

    containers = {
        'Series indexed by the parameter names':
            pd.Series([0.5], index=names),
        'slice of a longer Series (label 2)':
            pd.Series([1.0, 2.0, 0.5, 3.0])[2:3],
    }
    for label, parameters in containers.items():
        # The density is defined for this container ...
        score = error_model.compute_log_likelihood(
            parameters, model_output, observations)
        reference = error_model.compute_log_likelihood(
            [0.5], model_output, observations)
        assert np.isfinite(score) and score == reference

        # ... so the sampler has to draw from it
        try:
            samples = error_model.sample(
                parameters, model_output, n_samples=5, seed=1)
        except Exception as error:
            violations += 1
            print(
                '%s, %s: the log-likelihood is %.4f, but sample raises '
                '%s(%s)' % (name, label, score, type(error).__name__, error))
            continue

        expected = error_model.sample(
            [0.5], model_output, n_samples=5, seed=1)
        if not np.array_equal(samples, expected):
            violations += 1
            print('%s, %s: samples differ from those for [0.5]' % (
                name, label))

if violations:
    print('VIOLATION: %d sampler calls failed for scored parameters.'
          % violations)
    sys.exit(1)

print('Property holds.')
sys.exit(0)
