"""
C17 - n_hierarchical_parameters(n_ids) of the wrapper models ignores n_ids for
the population-level count.

PopulationModel.n_hierarchical_parameters(n_ids) is documented to return the
number of individual-level and of population-level parameters "that this
model expects in context of a HierarchicalLogLikelihood, when n_ids
individuals are modelled" (this is how a prior is sized before the likelihood
exists).  HeterogeneousModel and ComposedPopulationModel answer for the
requested number of individuals.  ReducedPopulationModel (as soon as one
parameter is fixed) and CovariatePopulationModel answer the population-level
count for the number of individuals they happen to be configured for, and the
individual-level count for the requested one: the tuple is not the count of
any configuration, and differs from what the HierarchicalLogLikelihood for
n_ids individuals reports.
"""
import copy
import sys
sys.path.insert(0, sys.argv[1])
import numpy as np
import chi


class Toy(chi.MechanisticModel):
    def __init__(self, n):
        super().__init__()
        self._n = n

    def enable_sensitivities(self, enabled, parameter_names=None):
        pass

    def has_sensitivities(self):
        return False

    def n_outputs(self):
        return 1

    def n_parameters(self):
        return self._n

    def outputs(self):
        return ['y']

    def parameters(self):
        return ['a%d' % i for i in range(self._n)]

    def simulate(self, parameters, times):
        t = np.asarray(times, dtype=float)
        return (np.sum(parameters) * (1 + t))[np.newaxis, :]


def likelihood_counts(model, n_ids):
    lls = []
    for _ in range(n_ids):
        ll = chi.LogLikelihood(
            Toy(model.n_dim()), chi.GaussianErrorModel(), [1., 2.], [1., 2.])
        ll.fix_parameters({'Sigma': 1})
        lls.append(ll)
    cov = None
    if model.n_covariates() > 0:
        cov = np.ones((n_ids, model.n_covariates()))
    h = chi.HierarchicalLogLikelihood(lls, model, covariates=cov)
    n_top = h.n_parameters(exclude_bottom_level=True)
    return (h.n_parameters() - n_top, n_top)


n_ids = 4
models = {}
models['HeterogeneousModel'] = chi.HeterogeneousModel()
models['Composed([Heterogeneous, Gaussian])'] = chi.ComposedPopulationModel(
    [chi.HeterogeneousModel(), chi.GaussianModel()])
m = chi.ReducedPopulationModel(chi.HeterogeneousModel())
m.fix_parameters({'ID 1 Dim. 1': 1})
models['Reduced(Heterogeneous), ID 1 fixed'] = m
m = chi.ReducedPopulationModel(chi.ComposedPopulationModel(
    [chi.HeterogeneousModel(), chi.GaussianModel()]))
m.fix_parameters({'Std. Dim. 1': 1})
models['Reduced(Composed([Heterogeneous, Gaussian])), Std. fixed'] = m
models['Covariate(Heterogeneous)'] = chi.CovariatePopulationModel(
    chi.HeterogeneousModel(), chi.LinearCovariateModel())
models['Composed([Covariate(Heterogeneous), Pooled])'] = \
    chi.ComposedPopulationModel([
        chi.CovariatePopulationModel(
            chi.HeterogeneousModel(), chi.LinearCovariateModel()),
        chi.PooledModel()])

violated = False
for label, model in models.items():
    reported = tuple(int(n) for n in model.n_hierarchical_parameters(n_ids))
    configured = copy.deepcopy(model)
    configured.set_n_ids(n_ids)
    after = tuple(
        int(n) for n in configured.n_hierarchical_parameters(n_ids))
    used = likelihood_counts(model, n_ids)
    ok = (reported == after) and (reported == used)
    print('%-62s n_hierarchical_parameters(%d) = %s; after set_n_ids(%d): '
          '%s; HierarchicalLogLikelihood of %d individuals: %s  %s' % (
              label, n_ids, reported, n_ids, after, n_ids, used,
              '' if ok else '<-- differs'))
    violated = violated or (not ok)

sys.exit(1 if violated else 0)
