"""
C17 - HierarchicalLogLikelihood / HierarchicalLogPosterior keep the parameter
count from construction time, while names, IDs, the evaluated vector and the
gradient follow the population model.

The likelihood works on its own copy of the population model (so the caller's
object can no longer be used to reconfigure it) and hands that copy out with
get_population_model().  Fixing a population parameter on it - the only way
to do so after construction - is picked up by get_parameter_names(), get_id(),
n_parameters(exclude_bottom_level=True), __call__ and evaluateS1, but not by
n_parameters(): the reported number of parameters no longer is the length of
the vector that the object evaluates.
"""
import sys
sys.path.insert(0, sys.argv[1])
import numpy as np
import pints
import chi


class Toy(chi.MechanisticModel):
    def __init__(self):
        super().__init__()
        self._s = False

    def enable_sensitivities(self, enabled, parameter_names=None):
        self._s = bool(enabled)

    def has_sensitivities(self):
        return self._s

    def n_outputs(self):
        return 1

    def n_parameters(self):
        return 1

    def outputs(self):
        return ['y']

    def parameters(self):
        return ['a']

    def simulate(self, parameters, times):
        t = np.asarray(times, dtype=float)
        y = (parameters[0] * (1 + t))[np.newaxis, :]
        if self._s:
            return y, (1 + t)[:, np.newaxis, np.newaxis]
        return y


pop = chi.ReducedPopulationModel(chi.ComposedPopulationModel([
    chi.GaussianModel(), chi.PooledModel()]))
lls = [
    chi.LogLikelihood(Toy(), chi.GaussianErrorModel(), [1., 2.], [1., 2.])
    for _ in range(3)]
h = chi.HierarchicalLogLikelihood(lls, pop)
post = chi.HierarchicalLogPosterior(h, pints.ComposedLogPrior(
    *[pints.LogNormalLogPrior(0, 1)] * 3))
print('before: n_parameters %d, names %d, ids %d' % (
    h.n_parameters(), len(h.get_parameter_names()), len(h.get_id())))

# Fix the population standard deviation
h.get_population_model().fix_parameters({'Std. Dim. 1': 0.5})

n = h.n_parameters()
n_top = h.n_parameters(exclude_bottom_level=True)
names = h.get_parameter_names()
ids = h.get_id()
x = np.ones(len(names))
score, grad = h.evaluateS1(x)
print('after : n_parameters %d (top-level %d), names %d, ids %d, '
      'gradient %d, score of a vector of length %d: %s' % (
          n, n_top, len(names), len(ids), len(grad), len(x), h(x)))
try:
    h(np.ones(n))
    accepted = True
except Exception as e:
    accepted = False
    print('a vector of the reported length %d is rejected: %s: %s' % (
        n, type(e).__name__, e))
print('posterior: n_parameters %d, names %d' % (
    post.n_parameters(), len(post.get_parameter_names())))

violated = (n != len(names)) or (n != len(grad)) or (n != len(ids)) \
    or (post.n_parameters() != len(post.get_parameter_names()))
sys.exit(1 if violated else 0)
