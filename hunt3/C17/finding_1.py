"""
C17 - a composite with default names publishes duplicate parameter names once
the number of individuals is set.

ComposedPopulationModel checks that its (default) parameter names are unique
only once, in the constructor, and only among the names that are visible at
that moment.  Names that appear later (parameters of a HeterogeneousModel for
the 2nd, 3rd, ... individual; parameters that are fixed in a
ReducedPopulationModel sub-model) are never checked.

Here: dimension 1 is heterogeneous with the value of the first individual
fixed (ReducedPopulationModel), dimension 2 is heterogeneous.  For one
individual the only visible name is 'ID 1 Dim. 1', so the constructor sees no
duplicates and leaves both dimensions called 'Dim. 1'.  As soon as the number
of individuals is set (set_n_ids, or any HierarchicalLogLikelihood, which
calls it), distinct parameters carry the same name.
"""
import sys
sys.path.insert(0, sys.argv[1])
import numpy as np
import pints
import chi


class Toy(chi.MechanisticModel):
    def __init__(self):
        super().__init__()
        self._s = False

    def enable_sensitivities(self, enabled, parameter_names=None):
        self._s = bool(enabled)

    def has_sensitivities(self):
        return self._s

    def n_outputs(self):
        return 1

    def n_parameters(self):
        return 1

    def outputs(self):
        return ['y']

    def parameters(self):
        return ['a']

    def simulate(self, parameters, times):
        t = np.asarray(times, dtype=float)
        y = (parameters[0] * (1 + t))[np.newaxis, :]
        if self._s:
            return y, (1 + t)[:, np.newaxis, np.newaxis]
        return y


def build():
    first = chi.ReducedPopulationModel(chi.HeterogeneousModel())
    first.fix_parameters({'ID 1 Dim. 1': 1.0})
    return chi.ComposedPopulationModel([first, chi.HeterogeneousModel()])


violated = False

# 1. population model alone
pm = build()
pm.set_n_ids(3)
names = pm.get_parameter_names()
print('n_parameters:', pm.n_parameters())
print('names       :', names)
if len(set(names)) != len(names):
    print('-> %d parameters, only %d distinct names'
          % (len(names), len(set(names))))
    violated = True

# 2. the same through a hierarchical log-likelihood / posterior / sampler
lls = [
    chi.LogLikelihood(Toy(), chi.GaussianErrorModel(), [1., 2.], [1., 2.])
    for _ in range(3)]
h = chi.HierarchicalLogLikelihood(lls, build())
names = h.get_parameter_names(include_ids=True)
print('hierarchical n_parameters:', h.n_parameters())
print('hierarchical names (with IDs):', names)
if len(set(names)) != len(names):
    violated = True
    post = chi.HierarchicalLogPosterior(h, pints.ComposedLogPrior(
        *[pints.LogNormalLogPrior(0, 1)] * h.n_parameters()))
    c = chi.SamplingController(post, seed=1)
    c.set_n_runs(1)
    c.set_parallel_evaluation(False)
    samples = c.run(n_iterations=5)
    print('posterior has %d parameters, the sampled dataset has %d '
          'variables: %s' % (
              post.n_parameters(), len(samples.data_vars),
              list(samples.data_vars)))

sys.exit(1 if violated else 0)
