"""
C15 finding 1: dose events (and the array format) requested with a numpy
boolean are silently not delivered.

PredictiveModel.sample, PosteriorPredictiveModel.sample,
PriorPredictiveModel.sample and PAMPredictiveModel.sample test the flag with
`include_regimen is True`, PredictiveModel.sample and
PopulationPredictiveModel.sample test `return_df is False`.  A numpy boolean
(e.g. the result of `np.any(...)`, `series.notnull().any()`, `a == b` on numpy
scalars) is a boolean flag, but it is never *identical* to the Python
singletons, so the request is ignored without any message:

* include_regimen=np.True_ -> table without the dose rows, although the same
  call on a PopulationPredictiveModel (which tests `if include_regimen:`)
  returns them;
* return_df=np.False_ -> a DataFrame instead of the documented numpy array.
"""
import sys
sys.path.insert(0, sys.argv[1])

import numpy as np
import pandas as pd
import pints
import xarray as xr
import chi


class DosedModel(chi.MechanisticModel):
    """Analytic one compartment model with bolus doses (no solver needed)."""
    def __init__(self):
        super(DosedModel, self).__init__()
        self._protocol = None

    def enable_sensitivities(self, enabled, parameter_names=None):
        pass

    def has_sensitivities(self):
        return False

    def n_outputs(self):
        return 1

    def n_parameters(self):
        return 2

    def outputs(self):
        return ['conc']

    def parameters(self):
        return ['volume', 'elimination rate']

    def supports_dosing(self):
        return True

    def set_dosing_regimen(
            self, dose, start=0, duration=0.01, period=None, num=None):
        import myokit
        self._protocol = myokit.pacing.blocktrain(
            period=period or 0, duration=duration, offset=start,
            level=dose / duration, limit=(num or 0) if period else 0)

    def dosing_regimen(self):
        return self._protocol

    def simulate(self, parameters, times):
        v, k = parameters
        times = np.asarray(times, dtype=float)
        out = np.zeros(len(times))
        if self._protocol is not None:
            for e in self._protocol.events():
                n = e.multiplier() if e.period() > 0 else 1
                for i in range(n):
                    t0 = e.start() + i * e.period()
                    mask = times >= t0
                    out[mask] += e.level() * e.duration() / v * np.exp(
                        -k * (times[mask] - t0))
        return out[np.newaxis, :]


model = chi.PredictiveModel(DosedModel(), [chi.GaussianErrorModel()])
model.set_dosing_regimen(dose=10, start=0, period=2, num=3)
parameters = [2, 0.5, 0.1]
times = [1, 3, 5]

flag = np.any(np.array([True]))     # numpy.bool_ True
assert isinstance(flag, np.bool_) and flag

failed = False


def n_dose_rows(df):
    if 'Dose' not in df.columns:
        return 0
    return int(df['Dose'].notnull().sum())


# Reference with the Python singleton
ref = model.sample(parameters, times, seed=1, include_regimen=True)
print('PredictiveModel, include_regimen=True      : %d dose rows'
      % n_dose_rows(ref))

df = model.sample(parameters, times, seed=1, include_regimen=flag)
print('PredictiveModel, include_regimen=np.True_  : %d dose rows'
      % n_dose_rows(df))
if n_dose_rows(df) != n_dose_rows(ref):
    failed = True

pop_model = chi.PopulationPredictiveModel(model, chi.PooledModel(n_dim=3))
df = pop_model.sample(parameters, times, seed=1, include_regimen=flag)
print('PopulationPredictiveModel, np.True_        : %d dose rows (honoured)'
      % n_dose_rows(df))

coords = {'chain': [0, 1], 'draw': [0, 1, 2]}
posterior = xr.Dataset({
    name: xr.DataArray(
        np.full((2, 3), value), dims=['chain', 'draw'], coords=coords)
    for name, value in zip(model.get_parameter_names(), parameters)})
post = chi.PosteriorPredictiveModel(model, posterior)
ref_n = n_dose_rows(post.sample(times, seed=1, include_regimen=True))
n = n_dose_rows(post.sample(times, seed=1, include_regimen=flag))
print('PosteriorPredictiveModel, True / np.True_  : %d / %d dose rows'
      % (ref_n, n))
if n != ref_n:
    failed = True

prior = chi.PriorPredictiveModel(model, pints.ComposedLogPrior(
    pints.UniformLogPrior(1, 2), pints.UniformLogPrior(0.1, 1),
    pints.UniformLogPrior(0.1, 0.2)))
ref_n = n_dose_rows(prior.sample(times, seed=1, include_regimen=True))
n = n_dose_rows(prior.sample(times, seed=1, include_regimen=flag))
print('PriorPredictiveModel, True / np.True_      : %d / %d dose rows'
      % (ref_n, n))
if n != ref_n:
    failed = True

pam = chi.PAMPredictiveModel([post, post], [1, 1])
ref_n = n_dose_rows(pam.sample(times, seed=1, include_regimen=True))
n = n_dose_rows(pam.sample(times, seed=1, include_regimen=flag))
print('PAMPredictiveModel, True / np.True_        : %d / %d dose rows'
      % (ref_n, n))
if n != ref_n:
    failed = True

# return_df
off = np.all(np.array([False]))     # numpy.bool_ False
out = model.sample(parameters, times, seed=1, return_df=off)
print('PredictiveModel, return_df=np.False_       : returns',
      type(out).__name__)
if not isinstance(out, np.ndarray):
    failed = True
out = pop_model.sample(parameters, times, seed=1, return_df=off)
print('PopulationPredictiveModel, np.False_       : returns',
      type(out).__name__)
if not isinstance(out, np.ndarray):
    failed = True

if failed:
    print('VIOLATION: a numpy boolean flag is silently ignored.')
    sys.exit(1)
print('OK')
sys.exit(0)
