"""
C15 finding 2: PosteriorPredictiveModel.sample cannot select the default
individual of a posterior whose individual coordinate is not of string type.

The documentation promises that `individual=None` simulates the first ID.  The
default is built with `str(ids.data[0])` and then looked up in the coordinate,
so for a dataset whose `individual` coordinate holds integers (e.g. individual
posteriors concatenated with `xr.concat(..., dim=pd.Index([1, 2, 3],
name='individual'))`) the default individual '1' "could not be found", although
the same dataset is sampled correctly when the ID is passed explicitly.
"""
import sys
sys.path.insert(0, sys.argv[1])

import numpy as np
import pandas as pd
import xarray as xr
import chi


class Constant(chi.MechanisticModel):
    def enable_sensitivities(self, enabled, parameter_names=None):
        pass

    def has_sensitivities(self):
        return False

    def n_outputs(self):
        return 1

    def n_parameters(self):
        return 1

    def outputs(self):
        return ['y']

    def parameters(self):
        return ['level']

    def simulate(self, parameters, times):
        return np.full((1, len(times)), float(parameters[0]))


model = chi.PredictiveModel(Constant(), [chi.GaussianErrorModel()])

# Posterior of three individuals (2 chains, 4 draws), IDs 1, 2, 3
coords = {'chain': [0, 1], 'draw': [0, 1, 2, 3]}
datasets = []
for _id in [1, 2, 3]:
    datasets.append(xr.Dataset({
        'level': xr.DataArray(
            np.full((2, 4), 100. * _id), dims=['chain', 'draw'],
            coords=coords),
        'Sigma': xr.DataArray(
            np.full((2, 4), 1e-3), dims=['chain', 'draw'], coords=coords)}))
posterior = xr.concat(datasets, dim=pd.Index([1, 2, 3], name='individual'))
posterior = posterior.transpose('chain', 'draw', 'individual')

post = chi.PosteriorPredictiveModel(model, posterior)

# Explicit ID works
df = post.sample([1., 2.], individual=2, seed=1)
print('individual=2    ->', np.round(df.Value.values.astype(float), 1))

# Default: "If None, either the first ID or the population is simulated."
try:
    df = post.sample([1., 2.], seed=1)
    values = df.Value.values.astype(float)
    print('individual=None ->', np.round(values, 1))
    ok = np.allclose(values, 100, atol=1)
except Exception as e:
    print('individual=None -> %s: %s' % (type(e).__name__, e))
    ok = False

if not ok:
    print('VIOLATION: the default individual (first ID) cannot be sampled.')
    sys.exit(1)
print('OK')
sys.exit(0)
