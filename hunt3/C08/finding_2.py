"""
C08 finding 2: ReducedMechanisticModel around a model whose sensitivities were
enabled for a selection of parameters BEFORE it was wrapped.

The wrapper reports has_sensitivities() == True and simulate returns the
selected columns - until any parameter is fixed: fix_parameters then calls
_set_sensitivities() with an empty selection record and enables the
sensitivities of ALL free parameters.  Fixing an unrelated parameter thereby
adds columns, and releasing it again does not restore the previous behaviour
(1 column before, 3 columns after fix + release).

(The repair of "fix_parameters drops the sensitivity selection" only records a
selection that is made through ReducedMechanisticModel.enable_sensitivities.)

Usage: python finding_2.py <path to repository>
"""
import sys

sys.path.insert(0, sys.argv[1])

import numpy as np  # noqa: E402
import chi  # noqa: E402


class Model(chi.MechanisticModel):
    """
    y = a * exp(-b t) + c, with analytic sensitivities that honour the
    parameter selection (like chi.SBMLModel.enable_sensitivities).
    """
    def __init__(self):
        super(Model, self).__init__()
        self._selection = None

    def enable_sensitivities(self, enabled, parameter_names=None):
        if not enabled:
            self._selection = None
            return None
        names = self.parameters()
        if parameter_names is None:
            parameter_names = names
        parameter_names = list(parameter_names)
        self._selection = [
            i for i, n in enumerate(names) if n in parameter_names]

    def has_sensitivities(self):
        return self._selection is not None

    def n_outputs(self):
        return 1

    def n_parameters(self):
        return 3

    def outputs(self):
        return ['y']

    def parameters(self):
        return ['a', 'b', 'c']

    def simulate(self, parameters, times):
        a, b, c = parameters
        t = np.asarray(times, dtype=float)
        y = (a * np.exp(-b * t) + c)[np.newaxis, :]
        if self._selection is None:
            return y
        s = np.empty((len(t), 1, 3))
        s[:, 0, 0] = np.exp(-b * t)
        s[:, 0, 1] = -a * t * np.exp(-b * t)
        s[:, 0, 2] = 1
        return y, s[:, :, self._selection]


def main():
    times = [0.5, 1, 2]
    full = np.array([1.2, 0.7, 0.3])

    # Unfixed object: sensitivities w.r.t. 'a' only
    model = Model()
    model.enable_sensitivities(True, ['a'])
    reduced = chi.ReducedMechanisticModel(model)
    assert reduced.has_sensitivities()
    _, ref = reduced.simulate(full, times)
    print('wrapped, nothing fixed : dy/dp has shape', ref.shape)

    violated = False

    # Fix the unrelated parameter 'c' at the value it has in full
    reduced.fix_parameters({'c': full[2]})
    _, s = reduced.simulate(full[:2], times)
    print("after fixing 'c'       : dy/dp has shape", s.shape)
    # Restricted sensitivities: 'a' is free and selected, 'c' was not selected
    if s.shape != ref.shape or not np.allclose(s, ref):
        violated = True
        print(
            "  -> fixing 'c' changed the sensitivities of the free "
            "parameters (expected the column of 'a' only).")

    # Release 'c' again: previous behaviour has to be restored
    reduced.fix_parameters({'c': None})
    assert reduced.n_fixed_parameters() == 0
    _, s = reduced.simulate(full, times)
    print("after releasing 'c'    : dy/dp has shape", s.shape)
    if s.shape != ref.shape or not np.allclose(s, ref):
        violated = True
        print(
            '  -> releasing the parameter does not restore the previous '
            'behaviour.')

    if violated:
        print('PROPERTY VIOLATED')
        sys.exit(1)

    print('property holds')
    sys.exit(0)


if __name__ == '__main__':
    main()
