"""
C08 finding 1: ReducedPopulationModel.set_parameter_names truncates the names
of FIXED parameters to 50 characters (np.array(..., dtype='U50')), so a fixed
covariate parameter is renamed behind the user's back and can no longer be
released (or re-fixed) by the name under which it was fixed.

Usage: python finding_1.py <path to repository>
"""
import sys

sys.path.insert(0, sys.argv[1])

import numpy as np  # noqa: E402
import chi  # noqa: E402


def main():
    # A dimension named like an error parameter of a two-output PK model,
    # e.g. what ProblemModellingController.set_population_model assigns
    dim = 'peripheral_1.drug_concentration Sigma base'    # 42 characters

    def make():
        model = chi.CovariatePopulationModel(
            chi.LogNormalModel(centered=False),
            chi.LinearCovariateModel(cov_names=['Age']))
        model.set_dim_names([dim])
        return model

    reference = make()
    names = reference.get_parameter_names()
    # ['Log mean <dim>', 'Log std. <dim>', 'Log mean <dim> Age',
    #  'Log std. <dim> Age']

    model = chi.ReducedPopulationModel(make())
    fixed = {names[2]: 0.3, names[3]: 0.1}
    model.fix_parameters(fixed)
    assert model.n_fixed_parameters() == 2
    assert model.get_parameter_names() == names[:2]

    # Rename the two FREE parameters (here: to the names they already have,
    # in the form that set_parameter_names expects, i.e. without dimension)
    free = model.get_parameter_names(exclude_dim_names=True)
    model.set_parameter_names(free)

    violated = False

    # 1. The fixed parameters must keep their names
    all_names = model.get_population_model().get_parameter_names()
    if all_names != names:
        violated = True
        print('Names of the wrapped model changed although only the free '
              'parameters were (re)named:')
        for before, after in zip(names, all_names):
            if before != after:
                print('   %r\n-> %r' % (before, after))

    # 2. Releasing the fixed parameters by the names they were fixed with
    #    must restore the unfixed model
    model.fix_parameters(dict((name, None) for name in fixed))
    if model.n_fixed_parameters() != 0:
        violated = True
        print(
            'fix_parameters({name: None}) for the %d fixed names left %d '
            'parameters fixed; free parameters: %s' % (
                len(fixed), model.n_fixed_parameters(),
                model.get_parameter_names()))
    else:
        # Behaviour is restored?
        theta = np.array([0.2, 0.5, 0.3, 0.1])
        eta = np.array([[0.1], [-0.4], [0.7]])
        cov = np.array([[0.1], [0.2], [0.3]])
        a = reference.compute_log_likelihood(theta, eta, covariates=cov)
        b = model.compute_log_likelihood(theta, eta, covariates=cov)
        if not np.isclose(a, b):
            violated = True
            print('Released model differs from unfixed model', a, b)

    if violated:
        print('PROPERTY VIOLATED')
        sys.exit(1)

    print('property holds')
    sys.exit(0)


if __name__ == '__main__':
    main()
