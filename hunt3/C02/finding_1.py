"""
C02 finding 1: the names published for heterogeneous dimensions number the
individuals by their position in the list of log-likelihoods ('ID 1', 'ID 2',
...), not by their IDs, and get_id() publishes None for them.

With log-likelihoods whose IDs are '2' and '1' (e.g. a dataset whose first
rows belong to individual 2), the position named 'ID 1 Dim. 1' controls the
parameter of the individual with ID '2' and 'ID 2 Dim. 1' the one of the
individual with ID '1', while the bottom-level entries of the same vector are
labelled with the true IDs ('2 Sigma', '1 Sigma').
"""
import sys
import warnings

import numpy as np

sys.path.insert(0, sys.argv[1])
import chi  # noqa: E402

warnings.simplefilter('ignore')


class Toy(chi.MechanisticModel):
    """y(t) = p1 * cos(0.3 t) (analytic, no solver needed)."""
    def __init__(self):
        super().__init__()
        self._s = False

    def enable_sensitivities(self, enabled, parameter_names=None):
        self._s = bool(enabled)

    def has_sensitivities(self):
        return self._s

    def n_outputs(self):
        return 1

    def n_parameters(self):
        return 1

    def outputs(self):
        return ['y']

    def parameters(self):
        return ['p1']

    def simulate(self, parameters, times):
        p = np.asarray(parameters, dtype=float)
        t = np.asarray(times, dtype=float)
        w = np.cos(0.3 * t)[None, :]
        y = p[0] * w
        if self._s:
            return y, w.T[:, None, :]
        return y


rng = np.random.default_rng(3)
ids = ['2', '1', '3']
lls = []
for _id in ids:
    times = np.arange(1, 5, dtype=float)
    obs = 1 + rng.normal(0, 0.3, len(times))
    ll = chi.LogLikelihood(Toy(), chi.GaussianErrorModel(), obs, times)
    ll.set_id(_id)
    lls.append(ll)

# p1 differs between individuals without constraint, Sigma is Gaussian
pop = chi.ComposedPopulationModel([
    chi.HeterogeneousModel(), chi.GaussianModel()])
h = chi.HierarchicalLogLikelihood(lls, pop)
names = h.get_parameter_names(include_ids=True)
pids = h.get_id()
print('published names:', names)
print('published IDs:  ', pids)

vec = np.array([0.4, 0.5, 0.6, 1.0, 1.1, 1.2, 0.5, 0.2])
n_bottom = len(vec) - h.n_parameters(exclude_bottom_level=True)


def individual_parameters(v):
    """The parameters each individual is evaluated at (published order)."""
    sigma = v[:n_bottom]
    p1 = v[n_bottom:n_bottom + len(ids)]
    return np.vstack([p1, sigma]).T


violated = False
for k in range(n_bottom, n_bottom + len(ids)):
    v = vec.copy()
    v[k] += 0.1
    # Which individual's log-likelihood contribution changes?
    base = [ll(p) for ll, p in zip(lls, individual_parameters(vec))]
    new = [ll(p) for ll, p in zip(lls, individual_parameters(v))]
    assert np.isclose(h(v) - h(vec), sum(new) - sum(base))
    changed = [i for i in range(len(ids)) if new[i] != base[i]]
    assert len(changed) == 1
    controlled = ids[changed[0]]
    named = names[k].split(' ')[1]
    print("position %d is published as name '%s', ID %s; it controls p1 of "
          "the individual with ID '%s'" % (k, names[k], pids[k], controlled))
    if named != controlled and named in ids:
        violated = True

if violated:
    print("VIOLATION: a position named 'ID <x>' controls an individual whose "
          "ID is not <x> (another individual has that ID).")
    sys.exit(1)
print('property holds')
sys.exit(0)
