"""
C02 finding 2: a non-centred dimension whose scale is negative for one
individual gives nan instead of a log-likelihood value.

With a covariate-dependent standard deviation sigma_i = sigma + beta * chi_i
(all published parameters are ordinary real numbers; beta is naturally
signed) the scale of one individual can be negative.  The centred model
scores such a vector -inf (outside the support).  The non-centred model
publishes "psi = mu + sigma * eta, eta standard normal": the population score
is the finite standard-normal density of eta, but
compute_individual_parameters returns nan for ALL individuals, the individual
log-likelihoods are evaluated at nan, and HierarchicalLogLikelihood returns
nan from __call__ and from evaluateS1 (neither the value of the published
transform nor -inf).  The same happens without covariates for sigma < 0.
"""
import sys
import warnings

import numpy as np

sys.path.insert(0, sys.argv[1])
import chi  # noqa: E402

warnings.simplefilter('ignore')


class Toy(chi.MechanisticModel):
    """y(t) = p1 * cos(0.3 t) (analytic, no solver needed)."""
    def __init__(self):
        super().__init__()
        self._s = False

    def enable_sensitivities(self, enabled, parameter_names=None):
        self._s = bool(enabled)

    def has_sensitivities(self):
        return self._s

    def n_outputs(self):
        return 1

    def n_parameters(self):
        return 1

    def outputs(self):
        return ['y']

    def parameters(self):
        return ['p1']

    def simulate(self, parameters, times):
        p = np.asarray(parameters, dtype=float)
        t = np.asarray(times, dtype=float)
        w = np.cos(0.3 * t)[None, :]
        y = p[0] * w
        if self._s:
            return y, w.T[:, None, :]
        return y


rng = np.random.default_rng(3)
n_ids = 3
lls = []
for _ in range(n_ids):
    times = np.arange(1, 5, dtype=float)
    obs = 1 + rng.normal(0, 0.3, len(times))
    lls.append(chi.LogLikelihood(
        Toy(), chi.GaussianErrorModel(), obs, times))

covariates = np.array([[0.], [1.], [2.]])
results = {}
for centered in [True, False]:
    pop = chi.ComposedPopulationModel([
        chi.CovariatePopulationModel(
            chi.GaussianModel(centered=centered),
            chi.LinearCovariateModel()),
        chi.PooledModel()])
    h = chi.HierarchicalLogLikelihood(lls, pop, covariates)
    if centered:
        print('parameters:', h.get_parameter_names(include_ids=True))
    #      p1 / eta of the 3 individuals, mean, std, beta_mean, beta_std, Sigma
    vec = np.array([0.5, 0.6, 0.7, 1.0, 1.0, 0.1, -0.6, 0.4])
    # -> sigma_i = 1.0, 0.4, -0.2
    value = h(vec)
    s1, _ = h.evaluateS1(vec)
    results[centered] = (value, s1)
    print('centered=%s: __call__ = %s, evaluateS1 = %s' % (
        centered, value, s1))

    # Control: a vector with positive scales for everybody is fine
    ok = vec.copy()
    ok[6] = 0.3
    assert np.isfinite(h(ok)) and np.isclose(h(ok), h.evaluateS1(ok)[0])

violated = any(np.isnan(v) for pair in results.values() for v in pair)
if violated:
    print('VIOLATION: the hierarchical log-likelihood is nan (the centred '
          'parametrisation of the same model gives -inf).')
    sys.exit(1)
print('property holds')
sys.exit(0)
