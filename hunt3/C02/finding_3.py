"""
C02 finding 3: the hierarchical log-likelihood is computed in the precision of
the dtype of the parameter vector.

A float32 (or float16) parameter vector whose entries are exactly
representable is a valid parameter vector (e.g. posterior draws stored in
single precision).  HierarchicalLogLikelihood.__call__ / evaluateS1 keep that
dtype (np.asarray(parameters)), the population models evaluate their densities
and the non-centred transform psi = exp(mu + sigma * eta) in that dtype, so
the returned value is not the sum of the individual log-likelihoods and the
population log-density at those parameters (error 1e-6 .. 1e-5 for float32,
1e-3 .. 1e-2 for float16), while the same values passed
as float64 give the exact answer.
"""
import sys
import warnings

import numpy as np

sys.path.insert(0, sys.argv[1])
import chi  # noqa: E402
from scipy.stats import norm, lognorm  # noqa: E402

warnings.simplefilter('ignore')


class Toy(chi.MechanisticModel):
    """y(t) = p1 * cos(0.3 t) + p2 (analytic, no solver needed)."""
    def __init__(self):
        super().__init__()
        self._s = False

    def enable_sensitivities(self, enabled, parameter_names=None):
        self._s = bool(enabled)

    def has_sensitivities(self):
        return self._s

    def n_outputs(self):
        return 1

    def n_parameters(self):
        return 2

    def outputs(self):
        return ['y']

    def parameters(self):
        return ['p1', 'p2']

    def simulate(self, parameters, times):
        p = np.asarray(parameters, dtype=float)
        t = np.asarray(times, dtype=float)
        w = np.vstack([np.cos(0.3 * t), np.ones(len(t))])
        y = (p[:, None] * w).sum(axis=0)[None, :]
        if self._s:
            return y, w.T[:, None, :]
        return y


rng = np.random.default_rng(1)
n_ids = 6
lls = []
for i in range(n_ids):
    times = np.arange(1, 5, dtype=float)
    obs = 1 + rng.normal(0, 0.3, len(times))
    lls.append(chi.LogLikelihood(
        Toy(), chi.GaussianErrorModel(), obs, times))

# p1: centred log-normal, p2: non-centred log-normal, Sigma: centred Gaussian
pop = chi.ComposedPopulationModel([
    chi.LogNormalModel(), chi.LogNormalModel(centered=False),
    chi.GaussianModel()])
h = chi.HierarchicalLogLikelihood(lls, pop)

# Values on a 1/64 grid: exactly representable in float16/32/64
bottom = np.round(rng.uniform(0.5, 1.5, (n_ids, 3)) * 64) / 64
top = np.array([0.25, 0.5, -0.125, 0.75, 1.0, 0.375])
vec = np.hstack([bottom.flatten(), top])
v32 = vec.astype(np.float32)
v16 = vec.astype(np.float16)
assert np.array_equal(v32.astype(float), vec)
assert np.array_equal(v16.astype(float), vec)

# Independent reference: sum of individual log-likelihoods + densities
psi = bottom.copy()
psi[:, 1] = np.exp(top[2] + top[3] * bottom[:, 1])
ref = lognorm.logpdf(bottom[:, 0], s=top[1], scale=np.exp(top[0])).sum()
ref += norm.logpdf(bottom[:, 1]).sum()
ref += norm.logpdf(bottom[:, 2], top[4], top[5]).sum()
ref += sum(ll(psi[i]) for i, ll in enumerate(lls))

violated = False
for name, v in [('float64', vec), ('float32', v32), ('float16', v16)]:
    value = h(v)
    s1, grad = h.evaluateS1(v)
    err = abs(value - ref)
    err1 = abs(s1 - ref)
    ok = (err <= 1e-10 * abs(ref)) and (err1 <= 1e-10 * abs(ref))
    print('%s vector: __call__ = %.12f, evaluateS1 = %.12f, reference = '
          '%.12f, error = %.1e  %s' % (
              name, value, s1, ref, max(err, err1),
              'ok' if ok else 'WRONG'))
    violated = violated or not ok

if violated:
    print('VIOLATION: the value depends on the dtype of the parameter '
          'vector, not only on its values.')
    sys.exit(1)
print('property holds')
sys.exit(0)
