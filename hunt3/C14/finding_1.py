"""
C14 finding 1: heterogeneous parameters are published as 'ID 1 ...',
'ID 2 ...' (running number in order of first appearance in the data frame),
not under the IDs of the dataset.  For a dataset whose IDs are e.g. 2 and 1
the parameter called 'ID 1 Sigma' is the noise parameter of the individual
with ID 2.  Fixing (or putting a prior on) 'ID 1 Sigma' therefore configures
the wrong individual, although all other bottom-level parameters of the same
posterior ARE labelled with the dataset IDs ('2 b', '1 b').

usage: python finding_1.py <path to repository>
"""
import sys
sys.path.insert(0, sys.argv[1])

import numpy as np
import pandas as pd
import pints

import chi


class Toy(chi.MechanisticModel):
    """ y = a * exp(-b t), analytic: no solver needed. """
    def __init__(self):
        super(Toy, self).__init__()
        self._s = False

    def simulate(self, parameters, times):
        a, b = parameters
        t = np.asarray(times, dtype=float)
        y = (a * np.exp(-b * t))[None, :]
        if not self._s:
            return y
        s = np.empty((len(t), 1, 2))
        s[:, 0, 0] = np.exp(-b * t)
        s[:, 0, 1] = -a * t * np.exp(-b * t)
        return y, s

    def enable_sensitivities(self, enabled, parameter_names=None):
        self._s = bool(enabled)

    def has_sensitivities(self):
        return self._s

    def n_outputs(self):
        return 1

    def n_parameters(self):
        return 2

    def outputs(self):
        return ['y']

    def parameters(self):
        return ['a', 'b']


# Dataset: the individual with ID 2 is listed before the individual with ID 1
data = pd.DataFrame({
    'ID': [2, 2, 2, 1, 1],
    'Time': [1., 2., 3., 1., 2.],
    'Observable': ['y'] * 5,
    'Value': [1.9, 1.2, 0.9, 0.7, 0.3]})
meas = {
    '2': ([1., 2., 3.], [1.9, 1.2, 0.9]),
    '1': ([1., 2.], [0.7, 0.3])}

controller = chi.ProblemModellingController(Toy(), chi.GaussianErrorModel())
controller.set_data(data)
controller.set_population_model(chi.ComposedPopulationModel([
    chi.PooledModel(), chi.GaussianModel(), chi.HeterogeneousModel()]))
print('parameters:', controller.get_parameter_names())

# The user knows the assay noise of the individual with ID 1 and fixes it
sigma_of_id_1 = 0.05
controller.fix_parameters({'ID 1 Sigma': sigma_of_id_1})
names = controller.get_parameter_names()
print('after fixing <ID 1 Sigma>:', names)
log_prior = pints.ComposedLogPrior(
    *[pints.UniformLogPrior(-10, 10)] * len(names))
controller.set_log_prior(log_prior)
posterior = controller.get_log_posterior()
all_names = posterior.get_parameter_names(include_ids=True)
print('posterior parameters:', all_names)

# Evaluate
values = {
    '2 b': 0.4, '1 b': 0.7, 'Pooled a': 2.5, 'Mean b': 0.5, 'Std. b': 0.3,
    'ID 2 Sigma': 0.4}
x = np.array([values[n] for n in all_names])
score = posterior(x)


def by_hand(sigma):
    """
    Posterior assembled by hand for per-individual noise parameters
    sigma = {dataset ID: value}.
    """
    total = log_prior([values[n] for n in names])
    total += chi.GaussianModel().compute_log_likelihood(
        [values['Mean b'], values['Std. b']],
        np.array([[values['2 b']], [values['1 b']]]))
    for _id, (times, obs) in meas.items():
        log_likelihood = chi.LogLikelihood(
            Toy(), chi.GaussianErrorModel(), obs, times)
        total += log_likelihood(
            [values['Pooled a'], values[_id + ' b'], sigma[_id]])
    return total


# What the names say: individual 1 has the fixed noise, 'ID 2 Sigma' belongs
# to individual 2
expected = by_hand({'1': sigma_of_id_1, '2': values['ID 2 Sigma']})
# What the controller does: k-th individual in order of appearance
swapped = by_hand({'2': sigma_of_id_1, '1': values['ID 2 Sigma']})

print('controller posterior                         :', score)
print('by hand, <ID 1 Sigma> = noise of ID 1        :', expected)
print('by hand, <ID 1 Sigma> = noise of ID 2 (1st row):', swapped)

if not np.isclose(score, expected, rtol=1e-10, atol=1e-10):
    print(
        'VIOLATION: the parameter <ID 1 Sigma> does not belong to the '
        'individual with ID 1 of the dataset (it belongs to the individual '
        'that appears first, ID 2), while the other bottom-level parameters '
        'are labelled with the dataset IDs.')
    sys.exit(1)
sys.exit(0)
