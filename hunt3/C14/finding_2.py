"""
C14 finding 2 (low severity, residual of the repair 6c94b8f): observable
labels whose str() differs from the string pandas converts the column to
(e.g. a datetime64 observable column, label pd.Timestamp) pass the validation
of set_data, but match no row of the cleaned data: the posterior silently
contains no measurement at all (posterior = prior).

usage: python finding_2.py <path to repository>
"""
import sys
sys.path.insert(0, sys.argv[1])

import numpy as np
import pandas as pd
import pints

import chi


class Toy(chi.MechanisticModel):
    """ y = a * exp(-b t), analytic: no solver needed. """
    def __init__(self):
        super(Toy, self).__init__()

    def simulate(self, parameters, times):
        a, b = parameters
        t = np.asarray(times, dtype=float)
        return (a * np.exp(-b * t))[None, :]

    def enable_sensitivities(self, enabled, parameter_names=None):
        pass

    def has_sensitivities(self):
        return False

    def n_outputs(self):
        return 1

    def n_parameters(self):
        return 2

    def outputs(self):
        return ['y']

    def parameters(self):
        return ['a', 'b']


# Observables are labelled by the date of the assay run
label = pd.Timestamp('2020-01-01')
other = pd.Timestamp('2020-02-01')
data = pd.DataFrame({
    'ID': [1, 1, 1, 1],
    'Time': [1., 2., 3., 1.],
    'Observable': [label, label, label, other],
    'Value': [1.9, 1.2, 0.9, 55.]})

log_prior = pints.ComposedLogPrior(*[pints.UniformLogPrior(0, 10)] * 3)
x = [2.5, 0.4, 0.3]
by_hand = chi.LogLikelihood(
    Toy(), chi.GaussianErrorModel(), [1.9, 1.2, 0.9], [1., 2., 3.])(x) \
    + log_prior(x)

failed = False
for name, mapping in [
        ('explicit mapping {y: Timestamp}', {'y': label})]:
    controller = chi.ProblemModellingController(
        Toy(), chi.GaussianErrorModel())
    controller.set_data(data, output_observable_dict=mapping)
    controller.set_log_prior(log_prior)
    posterior = controller.get_log_posterior()
    score = posterior(x)
    n_obs = posterior.get_log_likelihood().n_observations()
    print(name)
    print('  measurements in the likelihood:', n_obs, '(dataset: 3)')
    print('  controller:', score, ' by hand:', by_hand,
          ' prior only:', log_prior(x))
    if not np.isclose(score, by_hand):
        failed = True

if failed:
    print(
        'VIOLATION: set_data accepted the mapping, but the posterior '
        'contains none of the measurements of the mapped observable.')
    sys.exit(1)
sys.exit(0)
