"""
Non-centred GaussianModel / LogNormalModel with a negative standard deviation:
plain evaluation of a hierarchical log-likelihood does not reject the point,
evaluation with sensitivities does.

compute_log_likelihood of a non-centred model returns the standard normal
score of eta without looking at sigma, compute_individual_parameters returns
psi = NaN for sigma < 0, and compute_sensitivities returns -inf for sigma < 0.
HierarchicalLogLikelihood.__call__ therefore relies on the NaN reaching the
data. When it does not (here: the relative noise parameter of an output that
was not measured in any individual), plain evaluation yields a finite score
while evaluateS1 yields -inf at the same parameters.
"""
import sys
sys.path.insert(0, sys.argv[1] if len(sys.argv) > 1 else '/repo')
import warnings
import numpy as np
import chi


class Model(chi.MechanisticModel):
    """Two outputs: y1 = a exp(-t), y2 = a t."""
    def __init__(self):
        super().__init__()
        self._sens = False

    def enable_sensitivities(self, enabled, parameter_names=None):
        self._sens = bool(enabled)

    def has_sensitivities(self):
        return self._sens

    def n_outputs(self):
        return 2

    def n_parameters(self):
        return 1

    def outputs(self):
        return ['y1', 'y2']

    def parameters(self):
        return ['a']

    def simulate(self, parameters, times):
        a = float(parameters[0])
        t = np.asarray(times, dtype=float)
        y = np.vstack([a * np.exp(-t), a * t])
        if not self._sens:
            return y
        dy = np.stack([np.exp(-t), t], axis=-1)[:, :, np.newaxis]
        return y, dy


failed = False
for name, population_model_class in [
        ('GaussianModel', chi.GaussianModel),
        ('LogNormalModel', chi.LogNormalModel)]:
    # Output y2 was not measured in this study
    log_likelihoods = [
        chi.LogLikelihood(
            Model(),
            [chi.GaussianErrorModel(), chi.MultiplicativeGaussianErrorModel()],
            observations=[obs, []], times=[[0.5, 1.0, 2.0], []])
        for obs in ([0.7, 0.4, 0.2], [0.5, 0.3, 0.1])]
    population_model = chi.ComposedPopulationModel([
        chi.PooledModel(n_dim=2),
        population_model_class(centered=False)])
    log_likelihood = chi.HierarchicalLogLikelihood(
        log_likelihoods, population_model)

    print(name, log_likelihood.get_parameter_names())
    # eta_1, eta_2 (of 'y2 Sigma rel.'), pooled a, pooled 'y1 Sigma',
    # mean, std (negative)
    parameters = np.array([0.3, -0.2, 1.1, 0.2, 0.5, -0.4])

    with warnings.catch_warnings():
        warnings.simplefilter('ignore')
        score = log_likelihood(parameters)
        score_s1, sens = log_likelihood.evaluateS1(parameters)

    print('  plain evaluation:      ', score)
    print('  evaluateS1 score:      ', score_s1)
    if np.isfinite(score) != np.isfinite(score_s1) or (
            np.isfinite(score) and not np.isclose(score, score_s1)):
        print('  -> the two evaluations disagree at the same parameters')
        failed = True

sys.exit(1 if failed else 0)
