"""
PopulationFilterLogPosterior.evaluateS1 trusts has_sensitivities() of its copy
of the mechanistic model.

A custom chi.MechanisticModel (default copy() = deep copy, as the base class
documents) on which the user enabled the sensitivities of a subset of the
parameters beforehand keeps that selection inside the posterior. The first
evaluateS1 does not re-enable the sensitivities, the (n_times, n_outputs, 1)
array is silently broadcast into the (n_times, n_outputs, n_parameters)
buffer, and a wrong gradient is returned. (The same defect was repaired for
LogLikelihood and PredictiveModel, but not here.)
"""
import sys
sys.path.insert(0, sys.argv[1] if len(sys.argv) > 1 else '/repo')
import warnings
import numpy as np
import pints
import chi


class Model(chi.MechanisticModel):
    """y = a * exp(-b t) + c with analytic sensitivities."""
    def __init__(self):
        super().__init__()
        self._sens = False
        self._selection = None
        self._names = ['a', 'b', 'c']

    def enable_sensitivities(self, enabled, parameter_names=None):
        self._sens = bool(enabled)
        self._selection = None
        if self._sens and parameter_names is not None:
            self._selection = [
                i for i, n in enumerate(self._names)
                if n in list(parameter_names)]

    def has_sensitivities(self):
        return self._sens

    def n_outputs(self):
        return 1

    def n_parameters(self):
        return 3

    def outputs(self):
        return ['y']

    def parameters(self):
        return list(self._names)

    def simulate(self, parameters, times):
        a, b, c = [float(p) for p in parameters]
        t = np.asarray(times, dtype=float)
        y = (a * np.exp(-b * t) + c)[np.newaxis, :]
        if not self._sens:
            return y
        dy = np.stack(
            [np.exp(-b * t), -a * t * np.exp(-b * t), np.ones_like(t)],
            axis=-1)[:, np.newaxis, :]
        if self._selection is not None:
            dy = dy[:, :, self._selection]
        return y, dy


def numerical_gradient(f, x, h=1e-6):
    g = np.empty(len(x))
    for k in range(len(x)):
        hk = h * max(1.0, abs(x[k]))
        xp, xm = x.copy(), x.copy()
        xp[k] += hk
        xm[k] -= hk
        g[k] = (f(xp) - f(xm)) / (2 * hk)
    return g


rng = np.random.default_rng(3)
model = Model()
# e.g. left over from a sensitivity analysis of the decay rate
model.enable_sensitivities(True, ['b'])

observations = rng.uniform(0.5, 2, size=(5, 1, 3))
population_model = chi.ComposedPopulationModel([
    chi.GaussianModel(), chi.PooledModel(), chi.LogNormalModel()])
log_prior = pints.ComposedLogPrior(*[
    pints.GaussianLogPrior(1, 2) for _ in range(5)])
log_posterior = chi.PopulationFilterLogPosterior(
    chi.GaussianFilter(observations), [1., 2., 3.], model, population_model,
    log_prior, sigma=[0.3], n_samples=4)

n = log_posterior.n_parameters()
x = np.concatenate([
    [1, 0.5, 0.8, 0.1, 0.4], rng.uniform(0.5, 1.5, 8), rng.normal(size=12)])
assert len(x) == n

with warnings.catch_warnings():
    warnings.simplefilter('ignore')
    try:
        score_s1, grad = log_posterior.evaluateS1(x)   # first call
        error = None
    except Exception as e:  # a repair may also raise / not: only compare
        error = e
    score = log_posterior(x)
    reference = numerical_gradient(log_posterior, x)

if error is not None:
    print('plain score %r is finite, but evaluateS1 raised %r' % (score, error))
    sys.exit(1)

names = log_posterior.get_parameter_names()
bad = ~np.isclose(grad, reference, rtol=1e-4, atol=1e-5)
print('score: plain %.10f, evaluateS1 %.10f' % (score, score_s1))
if np.any(bad) or not np.isclose(score, score_s1):
    print('First evaluateS1 of a fresh PopulationFilterLogPosterior returns a '
          'gradient that is not the derivative of the log-posterior:')
    for k in np.where(bad)[0]:
        print('  %-22s analytic % .6f   finite difference % .6f' % (
            names[k], grad[k], reference[k]))
    _, grad2 = log_posterior.evaluateS1(x)
    print('(after one plain evaluation the same call returns the correct '
          'gradient: %s)' % np.allclose(grad2, reference, rtol=1e-4, atol=1e-5))
    sys.exit(1)

print('gradient of the first evaluateS1 is correct')
sys.exit(0)
