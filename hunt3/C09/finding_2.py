"""
C09 finding 2 (minor): an SBML model whose constants carry no default value
cannot be instantiated, although chi never uses the default values (every
constant is a published parameter and receives its value from the parameter
vector in simulate).

In SBML level 3 the attributes `value` (parameter) and `size` (compartment)
are optional; files written for parameter estimation often leave them out.
"""
import os
import sys
import tempfile
import warnings

repo = sys.argv[1] if len(sys.argv) > 1 else '/repo'
sys.path.insert(0, '/tmp/seedhelp')
sys.path.insert(0, repo)
try:
    import refsim   # solver stand-in (sundials is not installed here)
    refsim.install()
except ImportError:
    pass

warnings.simplefilter('ignore')
import numpy as np
import chi

TEMPLATE = '''<?xml version="1.0" encoding="UTF-8"?>
<sbml xmlns="http://www.sbml.org/sbml/level3/version2/core" level="3" version="2">
<model id="one_compartment">
<listOfCompartments><compartment id="central" %s constant="true"/></listOfCompartments>
<listOfSpecies><species id="drug" compartment="central" initialAmount="1" hasOnlySubstanceUnits="false" boundaryCondition="false" constant="false"/></listOfSpecies>
<listOfParameters><parameter id="ke" %s constant="true"/></listOfParameters>
<listOfReactions><reaction id="elimination" reversible="false">
<listOfReactants><speciesReference species="drug" constant="true"/></listOfReactants>
<kineticLaw><math xmlns="http://www.w3.org/1998/Math/MathML"><apply><times/><ci>ke</ci><ci>drug</ci><ci>central</ci></apply></math></kineticLaw>
</reaction></listOfReactions>
</model></sbml>'''

directory = tempfile.mkdtemp()
with_values = os.path.join(directory, 'with_values.xml')
without_values = os.path.join(directory, 'without_values.xml')
with open(with_values, 'w') as f:
    f.write(TEMPLATE % ('size="3"', 'value="7"'))
with open(without_values, 'w') as f:
    f.write(TEMPLATE % ('', ''))

parameters = [2.0, 1.5, 0.4]   # central.drug_amount, central.size, global.ke
times = [0.0, 0.5, 1.0, 2.5]
expected = parameters[0] * np.exp(-parameters[2] * np.array(times))

model = chi.SBMLModel(with_values)
print('with default values   :', model.parameters())
reference = model.simulate(parameters, times)
assert np.allclose(reference[0], expected, rtol=1e-6), reference
print('  simulate agrees with the analytic solution; the defaults '
      '(size=3, ke=7) play no role')

violated = False
try:
    model = chi.SBMLModel(without_values)
    names = model.parameters()
    print('without default values:', names)
    result = model.simulate(parameters, times)
    if names != ['central.drug_amount', 'central.size', 'global.ke'] \
            or not np.allclose(result[0], expected, rtol=1e-6):
        violated = True
        print('  wrong names or solution', names, result)
    else:
        print('  simulate agrees with the analytic solution')
except Exception as e:   # noqa
    violated = True
    print('without default values: chi.SBMLModel raised %s: %s' % (
        type(e).__name__, e))
    print('The same initial-value problem, for the same parameter vector, '
          'cannot be simulated.')

sys.exit(1 if violated else 0)
