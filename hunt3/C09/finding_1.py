"""
C09 finding 1: SBMLModel.simulate assigns the constants of a pandas Series
parameter vector by index LABEL while the initial values are assigned by
POSITION.

A parameter vector handed over as a pandas Series (array-like; e.g. the
'Estimate' column of a results table whose rows were re-ordered to the
model's parameter order, e.g. with [::-1] / .iloc / sort_values, so that the
labels are a permutation of 0..n-1) is silently simulated with the constants in the wrong
order.  With the default RangeIndex the same call raises KeyError: 0.
"""
import os
import sys
import warnings

repo = sys.argv[1] if len(sys.argv) > 1 else '/repo'
sys.path.insert(0, '/tmp/seedhelp')
sys.path.insert(0, repo)
try:
    import refsim   # solver stand-in (sundials is not installed here)
    refsim.install()
except ImportError:
    pass

warnings.simplefilter('ignore')
import numpy as np
import pandas as pd
import chi
import chi.library

model = chi.library.ModelLibrary().erlotinib_tumour_growth_inhibition_model()
names = model.parameters()
n = len(names)
values = np.array([2.0, 1.2, 1.5, 0.8, 0.6, 0.3, 0.9])[:n]
times = np.array([0.5, 1.0, 2.0, 3.5])

# A results table that lists the parameters in the reverse of the model's order
table = pd.DataFrame({
    'Parameter': names[::-1],
    'Estimate': values[::-1]})

# Bring the estimates into the order of model.parameters()
estimates = table['Estimate'][::-1]
assert list(table['Parameter'][::-1]) == names
assert np.array_equal(estimates.to_numpy(), values)
print('parameter names :', names)
print('Series (values in parameter order, index labels reversed):')
print(estimates)

reference = model.simulate(values, times)   # numpy array: i-th entry -> i-th name

violated = False
try:
    result = model.simulate(estimates, times)
    if result.shape != reference.shape or not np.allclose(
            result, reference, rtol=1e-6, atol=1e-9):
        violated = True
        print('simulate(Series) differs from simulate(Series.to_numpy()):')
        print('  ndarray :', reference)
        print('  Series  :', result)
        print('  max abs difference', np.abs(result - reference).max())
        print('The initial values were taken by position, the constants by '
              'index label.')
    else:
        print('Series with permuted labels: same result as ndarray.')
except Exception as e:   # noqa
    violated = True
    print('simulate(Series with permuted labels) raised',
          type(e).__name__, e)

# Default index: the constants cannot be found at all
try:
    result = model.simulate(pd.Series(values), times)
    if not np.allclose(result, reference, rtol=1e-6, atol=1e-9):
        violated = True
        print('simulate(Series with RangeIndex) differs from ndarray result')
    else:
        print('Series with default index: same result as ndarray.')
except Exception as e:   # noqa
    violated = True
    print('simulate(pd.Series(values)) with the default index raised',
          type(e).__name__, e)

sys.exit(1 if violated else 0)
