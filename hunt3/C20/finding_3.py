"""
C20 finding 3: with 20 samples per time point and the DEFAULT bulk probability
0.9 no lower limit is found, although it exists: the lowest of 20 samples has
the percentile rank 1/20 = 0.05 = 0.5 - 0.9/2 (documented rule: "the upper and
lower limit are determined from the rank of the samples"), and the band
[x_(1), x_(19)] encloses 19/20 >= 0.9 of the samples.

_compute_bulk_probs compares the ranks with 0.5 - bulk_prob / 2 evaluated in
floating point: 0.5 - 0.9 / 2 = 0.04999999999999999 < 0.05. The lower limit
is NaN at every time point, and the figure shades the area between the upper
limit and its own chord. Same for 10 samples with 0.8 and 25 samples with
0.92. The frame below is what PredictiveModel.sample(times, n_samples=20)
returns.
"""
import sys
import warnings
from fractions import Fraction

sys.path.insert(0, sys.argv[1])
warnings.simplefilter('ignore')

import numpy as np  # noqa
import pandas as pd  # noqa
import chi  # noqa
import chi.plots  # noqa


class Model(chi.MechanisticModel):
    """Analytic toy model y = a + b t (needs no ODE solver)."""
    def __init__(self):
        super(Model, self).__init__()
        self._outputs = ['y']

    def simulate(self, parameters, times):
        a, b = parameters
        return (a + b * np.asarray(times, dtype=float))[np.newaxis, :]

    def has_sensitivities(self):
        return False

    def enable_sensitivities(self, enabled, parameter_names=None):
        pass

    def n_outputs(self):
        return 1

    def n_parameters(self):
        return 2

    def outputs(self):
        return ['y']

    def parameters(self):
        return ['a', 'b']

    def set_outputs(self, outputs):
        pass

    def copy(self):
        return Model()


def get_samples(n_samples):
    try:
        model = chi.PredictiveModel(Model(), [chi.GaussianErrorModel()])
        frame = model.sample(
            parameters=[1, 1, 1], times=[0, 1, 2, 3], n_samples=n_samples,
            seed=1)
        frame['Dose'] = np.nan
        frame['Duration'] = np.nan
        return frame
    except Exception:
        # Fall back to a hand-made frame of the same layout
        rng = np.random.default_rng(1)
        times = np.repeat([0., 1., 2., 3.], n_samples)
        return pd.DataFrame({
            'ID': np.tile(np.arange(1, n_samples + 1), 4), 'Time': times,
            'Observable': 'y', 'Value': rng.normal(1 + times, 1.),
            'Dose': np.nan, 'Duration': np.nan})


n_bad = 0
for n_samples, prob in [(20, 0.9), (10, 0.8), (25, 0.92)]:
    frame = get_samples(n_samples)
    # Exact arithmetic: the lowest sample qualifies as lower limit and the
    # second highest as upper limit
    p = Fraction(str(prob))
    assert Fraction(1, n_samples) <= Fraction(1, 2) - p / 2
    assert Fraction(n_samples - 1, n_samples) >= Fraction(1, 2) + p / 2
    for cls in [chi.plots.PDPredictivePlot, chi.plots.PKPredictivePlot]:
        fig = cls()
        if prob == 0.9:
            fig.add_prediction(frame)  # default bulk_probs=[0.9]
        else:
            fig.add_prediction(frame, bulk_probs=[prob])
        band = [t for t in fig._fig.data if t.fill == 'toself'][0]
        x = np.asarray(band.x, dtype=float)
        y = np.asarray(band.y, dtype=float)
        for time in np.sort(frame['Time'].unique()):
            values = np.sort(
                frame[frame['Time'] == time]['Value'].to_numpy(dtype=float))
            limits = y[x == time]
            limits = limits[~np.isnan(limits)]
            expected = [values[0], values[-2]]
            ok = len(limits) == 2 and np.mean(
                (values >= limits.min()) & (values <= limits.max())) >= prob
            if not ok:
                n_bad += 1
            print('%s %s n=%d p=%s t=%s: drawn limits %s; lowest / second '
                  'highest sample %s' % (
                      'ok ' if ok else 'BAD', cls.__name__, n_samples, prob,
                      time, np.round(limits, 3), np.round(expected, 3)))

if n_bad:
    print('VIOLATION: %d time points without a band although both limits '
          'exist' % n_bad)
    sys.exit(1)
print('property holds')
sys.exit(0)
