"""
C20 finding 2: a limit that is missing at ONE time point misplaces the band at
the OTHER time points, where both limits exist.

_add_prediction_bulk_prob_trace builds the polygon [upper limits, reversed
lower limits] and hands NaN limits (no sample with a low / high enough rank at
that time) to plotly unchanged. A NaN inside the polygon splits the trace into
segments which plotly closes separately, so the shaded area left or right of
the gap is bounded by a chord instead of by the limit that exists there.

Two ordinary sample sets show it:
(a) predictions from two runs in one frame: 100 samples on a coarse time grid
    and 10 samples at one extra time (for 0.9 no lower limit among 10 samples),
(b) 100 samples per time, where at one time the lowest 10 samples are tied
    (e.g. values reported at a quantification limit): average ranks leave no
    sample with a rank <= 5%.
"""
import sys
import warnings

sys.path.insert(0, sys.argv[1])
warnings.simplefilter('ignore')

import numpy as np  # noqa
import pandas as pd  # noqa
import chi  # noqa
import chi.plots  # noqa

def shaded_intervals(x, y, c):
    """Vertical cross-section at x=c of the area plotly shades for a trace with
    fill='toself': every NaN-separated segment of the trace is closed on itself
    (plotly reference: "'toself' connects the endpoints of the trace (or each
    segment of the trace if it has gaps) into a closed shape")."""
    x = np.asarray(x, dtype=float)
    y = np.asarray(y, dtype=float)
    ok = ~(np.isnan(x) | np.isnan(y))
    segments, current = [], []
    for i in range(len(x)):
        if ok[i]:
            current.append((x[i], y[i]))
        elif current:
            segments.append(current)
            current = []
    if current:
        segments.append(current)
    intervals = []
    for seg in segments:
        if len(seg) < 3:
            continue
        pts = seg + [seg[0]]
        ys = []
        for (x0, y0), (x1, y1) in zip(pts[:-1], pts[1:]):
            if (x0 - c) * (x1 - c) < 0:
                ys.append(y0 + (y1 - y0) * (c - x0) / (x1 - x0))
        ys.sort()
        intervals += list(zip(ys[0::2], ys[1::2]))
    return intervals


def enclosed_fraction(values, intervals, tol=1e-3):
    values = np.asarray(values, dtype=float)
    values = values[~np.isnan(values)]
    inside = np.zeros(len(values), dtype=bool)
    for a, b in intervals:
        inside |= (values >= a - tol) & (values <= b + tol)
    return inside.mean()


def check_band(fig, frame, prob, times_to_check, label):
    """Returns the number of time points at which the shaded area of the band
    for ``prob`` encloses less than ``prob`` of the samples."""
    bands = [t for t in fig._fig.data if t.fill == 'toself'
             and str(t.text).startswith(str(prob))]
    if len(bands) != 1:
        print(label, ': expected one band for', prob, 'found', len(bands))
        return 1
    band = bands[0]
    all_times = np.sort(frame['Time'].dropna().unique())
    n_bad = 0
    for t in times_to_check:
        k = int(np.where(all_times == t)[0][0])
        other = all_times[k + 1] if k + 1 < len(all_times) else all_times[k-1]
        c = t + 1e-6 * (other - t)
        intervals = shaded_intervals(band.x, band.y, c)
        values = frame[frame['Time'] == t]['Value']
        frac = enclosed_fraction(values, intervals)
        status = 'ok ' if frac >= prob else 'BAD'
        print('  %s %s t=%s n=%d shaded=%s encloses %.2f (requested %.2f)' % (
            status, label, t, values.notna().sum(),
            [(round(a, 2), round(b, 2)) for a, b in intervals], frac, prob))
        if frac < prob:
            n_bad += 1
    return n_bad


def frame(times, values):
    return pd.DataFrame({
        'Time': times, 'Observable': 'A', 'Value': values,
        'Dose': np.nan, 'Duration': np.nan})


rng = np.random.default_rng(0)
times = np.repeat([0., 1., 2., 3., 4.], 100)
values = rng.normal(loc=times, scale=1.)
reference = frame(times, values)

# (a) ten more samples at an additional time point
case_a = pd.concat([
    reference, frame(np.full(10, 2.5), rng.normal(2.5, 1., 10))],
    ignore_index=True)

# (b) the ten lowest samples at t=2 are reported as the same value
case_b = reference.copy()
at_two = case_b.index[case_b['Time'] == 2.]
lowest = case_b.loc[at_two, 'Value'].sort_values().index[:10]
case_b.loc[lowest, 'Value'] = case_b.loc[lowest, 'Value'].max()

n_bad = 0
for cls in [chi.plots.PDPredictivePlot, chi.plots.PKPredictivePlot]:
    for name, data, check_times in [
            ('reference', reference, [0., 1., 2., 3., 4.]),
            ('(a) extra time with 10 samples', case_a, [0., 1., 2., 3., 4.]),
            ('(b) ties at t=2', case_b, [0., 1., 3., 4.])]:
        before = data.copy(deep=True)
        fig = cls()
        fig.add_prediction(data, bulk_probs=[0.9])
        if not before.equals(data):
            print('frame was altered')
            n_bad += 1
        band = [t for t in fig._fig.data if t.fill == 'toself'][0]
        print(cls.__name__, name)
        print('  x =', list(np.asarray(band.x, float)))
        print('  y =', list(np.round(np.asarray(band.y, float), 2)))
        # Only time points with 100 distinct samples are checked: both limits
        # exist there (the trace itself lists them)
        n_bad += check_band(fig, data, 0.9, check_times, cls.__name__)

if n_bad:
    print('VIOLATION: at %d time points with both limits the shaded area '
          'does not enclose the requested fraction of the samples' % n_bad)
    sys.exit(1)
print('property holds')
sys.exit(0)
