"""
C20 finding 1: one prediction row with a missing time destroys the band.

PDPredictivePlot / PKPredictivePlot.add_prediction: a sample row of the
plotted observable whose time is missing (NaN) becomes an extra "time point"
nan with limits nan. It is placed in the middle of the band polygon
(x = [t_0..t_n, nan, nan, t_n..t_0]), so plotly splits the trace into the
upper-limit line and the lower-limit line and closes each of them on itself:
the area between the two limits is not shaded at any time point, although both
limits exist at all of them.
"""
import sys
import warnings

sys.path.insert(0, sys.argv[1])
warnings.simplefilter('ignore')

import numpy as np  # noqa
import pandas as pd  # noqa
import chi  # noqa
import chi.plots  # noqa

def shaded_intervals(x, y, c):
    """Vertical cross-section at x=c of the area plotly shades for a trace with
    fill='toself': every NaN-separated segment of the trace is closed on itself
    (plotly reference: "'toself' connects the endpoints of the trace (or each
    segment of the trace if it has gaps) into a closed shape")."""
    x = np.asarray(x, dtype=float)
    y = np.asarray(y, dtype=float)
    ok = ~(np.isnan(x) | np.isnan(y))
    segments, current = [], []
    for i in range(len(x)):
        if ok[i]:
            current.append((x[i], y[i]))
        elif current:
            segments.append(current)
            current = []
    if current:
        segments.append(current)
    intervals = []
    for seg in segments:
        if len(seg) < 3:
            continue
        pts = seg + [seg[0]]
        ys = []
        for (x0, y0), (x1, y1) in zip(pts[:-1], pts[1:]):
            if (x0 - c) * (x1 - c) < 0:
                ys.append(y0 + (y1 - y0) * (c - x0) / (x1 - x0))
        ys.sort()
        intervals += list(zip(ys[0::2], ys[1::2]))
    return intervals


def enclosed_fraction(values, intervals, tol=1e-3):
    values = np.asarray(values, dtype=float)
    values = values[~np.isnan(values)]
    inside = np.zeros(len(values), dtype=bool)
    for a, b in intervals:
        inside |= (values >= a - tol) & (values <= b + tol)
    return inside.mean()


def check_band(fig, frame, prob, times_to_check, label):
    """Returns the number of time points at which the shaded area of the band
    for ``prob`` encloses less than ``prob`` of the samples."""
    bands = [t for t in fig._fig.data if t.fill == 'toself'
             and str(t.text).startswith(str(prob))]
    if len(bands) != 1:
        print(label, ': expected one band for', prob, 'found', len(bands))
        return 1
    band = bands[0]
    all_times = np.sort(frame['Time'].dropna().unique())
    n_bad = 0
    for t in times_to_check:
        k = int(np.where(all_times == t)[0][0])
        other = all_times[k + 1] if k + 1 < len(all_times) else all_times[k-1]
        c = t + 1e-6 * (other - t)
        intervals = shaded_intervals(band.x, band.y, c)
        values = frame[frame['Time'] == t]['Value']
        frac = enclosed_fraction(values, intervals)
        status = 'ok ' if frac >= prob else 'BAD'
        print('  %s %s t=%s n=%d shaded=%s encloses %.2f (requested %.2f)' % (
            status, label, t, values.notna().sum(),
            [(round(a, 2), round(b, 2)) for a, b in intervals], frac, prob))
        if frac < prob:
            n_bad += 1
    return n_bad


rng = np.random.default_rng(0)
times = np.repeat([0., 1., 2., 3., 4.], 100)
clean = pd.DataFrame({
    'ID': np.tile(np.arange(1, 101), 5),
    'Time': times,
    'Observable': 'A',
    'Value': rng.normal(loc=times, scale=1.),
    'Dose': np.nan,
    'Duration': np.nan})
# The same samples plus ONE row whose time stamp is missing
extra = pd.DataFrame({
    'ID': [101], 'Time': [np.nan], 'Observable': ['A'], 'Value': [1.0],
    'Dose': [np.nan], 'Duration': [np.nan]})
dirty = pd.concat([clean, extra], ignore_index=True)

n_bad = 0
check_times = [0., 1., 2., 3., 4.]
for cls in [chi.plots.PDPredictivePlot, chi.plots.PKPredictivePlot]:
    for name, frame in [('complete frame', clean), ('one NaN time', dirty)]:
        before = frame.copy(deep=True)
        fig = cls()
        fig.add_prediction(frame, bulk_probs=[0.9])
        if not before.equals(frame):
            print('frame was altered')
            n_bad += 1
        band = [t for t in fig._fig.data if t.fill == 'toself'][0]
        print(cls.__name__, name, 'x =', list(np.asarray(band.x, float)))
        bad = check_band(
            fig, frame, 0.9, check_times, cls.__name__ + ' ' + name)
        if name == 'complete frame' and bad:
            print('unexpected: reference case fails')
        n_bad += bad

if n_bad:
    print('VIOLATION: %d band cross-sections do not enclose the requested '
          'fraction of the samples' % n_bad)
    sys.exit(1)
print('property holds')
sys.exit(0)
