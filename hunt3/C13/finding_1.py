"""
PopulationFilterLogPosterior.evaluateS1 trusts has_sensitivities() of its copy
of the mechanistic model.

A mechanistic model whose sensitivities were enabled for a selection of its
parameters before the posterior was built (enable_sensitivities(True,
parameter_names=[...]), documented API) keeps that selection in the copy.
evaluateS1 only enables the sensitivities 'if not has_sensitivities()', so the
first evaluateS1 works with sensitivity arrays of the wrong width:

* one selected parameter: the (n_times, n_outputs, 1) array is broadcast over
  all parameter columns -> a finite but wrong gradient, silently;
* two of three selected: the assignment fails inside the try/except around the
  simulation -> evaluateS1 returns -inf (with a warning) where __call__ is finite.

After one __call__ (which disables the sensitivities) the same evaluateS1 call
returns the correct result: the answer depends on the call history.
(The same defect was repaired in LogLikelihood.__init__, commit 351830b, but
not in PopulationFilterLogPosterior.)
"""
import sys
import warnings

sys.path.insert(0, sys.argv[1])

import numpy as np  # noqa: E402
import pints  # noqa: E402
import chi  # noqa: E402


class ToyModel(chi.MechanisticModel):
    """Analytic model y(t) = 1 + sum_k c_k p_k^2 exp(-k t / 10) + p_k t / 20."""
    def __init__(self, n_parameters):
        super().__init__()
        self._n = n_parameters
        self._sens = False
        self._selection = None

    def enable_sensitivities(self, enabled, parameter_names=None):
        self._sens = bool(enabled)
        self._selection = None
        if enabled and parameter_names is not None:
            self._selection = [
                i for i, n in enumerate(self.parameters())
                if n in list(parameter_names)]

    def has_sensitivities(self):
        return self._sens

    def n_outputs(self):
        return 1

    def n_parameters(self):
        return self._n

    def outputs(self):
        return ['y']

    def parameters(self):
        return ['p%d' % (k + 1) for k in range(self._n)]

    def simulate(self, parameters, times):
        p = np.asarray(parameters, dtype=float)
        t = np.asarray(times, dtype=float)
        y = np.ones((1, len(t)))
        s = np.empty((len(t), 1, self._n))
        for k in range(self._n):
            c = 0.5 + 0.1 * k
            y[0] += c * p[k]**2 * np.exp(-0.1 * (k + 1) * t) + 0.05 * p[k] * t
            s[:, 0, k] = 2 * c * p[k] * np.exp(-0.1 * (k + 1) * t) + 0.05 * t
        if not self._sens:
            return y
        if self._selection is not None:
            s = s[:, :, self._selection]
        return y, s


def finite_differences(f, x, h=1e-6):
    g = np.empty(len(x))
    for i in range(len(x)):
        xp = x.copy()
        xm = x.copy()
        xp[i] += h
        xm[i] -= h
        g[i] = (f(xp) - f(xm)) / (2 * h)
    return g


def build(n_parameters, selection):
    rng = np.random.default_rng(1)
    model = ToyModel(n_parameters)
    model.enable_sensitivities(True, parameter_names=selection)
    pop_model = chi.ComposedPopulationModel(
        [chi.GaussianModel() for _ in range(n_parameters)])
    n_samples = 3
    times = [3., 1., 2.]
    obs = rng.uniform(1, 6, (4, 1, 3))
    prior = pints.ComposedLogPrior(
        *[pints.GaussianLogPrior(1, 3) for _ in range(2 * n_parameters)])
    posterior = chi.PopulationFilterLogPosterior(
        chi.GaussianFilter(obs), times, model, pop_model, prior,
        sigma=[0.1], n_samples=n_samples)
    x = []
    for _ in range(n_parameters):
        x += [1.0, 0.2]
    x += list(rng.uniform(0.7, 1.3, n_samples * n_parameters))
    x += list(rng.normal(0, 1, n_samples * 3))
    return posterior, np.array(x)


violated = False

# Case 1: sensitivities selected for one of two parameters
posterior, x = build(2, ['p2'])
with warnings.catch_warnings():
    warnings.simplefilter('ignore')
    score_first, grad_first = posterior.evaluateS1(x)   # first call
    value = posterior(x)
    reference = finite_differences(posterior, x)
    score_later, grad_later = posterior.evaluateS1(x)   # after a __call__
err_first = np.max(np.abs(grad_first - reference) / (1 + np.abs(reference)))
err_later = np.max(np.abs(grad_later - reference) / (1 + np.abs(reference)))
print('Case 1 (2 parameters, sensitivities pre-selected for p2)')
print('  value %.6f, evaluateS1 value %.6f' % (value, score_first))
print('  first evaluateS1: max rel. deviation from finite differences %.3e'
      % err_first)
names = posterior.get_parameter_names(include_ids=True)
for i in np.where(
        np.abs(grad_first - reference) / (1 + np.abs(reference)) > 1e-4)[0]:
    print('    %-12s evaluateS1 %12.5f   finite differences %12.5f'
          % (names[i], grad_first[i], reference[i]))
print('  same call after one __call__: max rel. deviation %.3e' % err_later)
if err_first > 1e-4:
    violated = True

# Case 2: sensitivities selected for two of three parameters
posterior, x = build(3, ['p1', 'p3'])
with warnings.catch_warnings(record=True) as w:
    warnings.simplefilter('always')
    score_first, _ = posterior.evaluateS1(x)
    value = posterior(x)
print('Case 2 (3 parameters, sensitivities pre-selected for p1 and p3)')
print('  __call__ %.6f, first evaluateS1 value %s' % (value, score_first))
if w:
    print('  warning:', str(w[0].message).replace('\n', ' ')[:120])
if np.isfinite(value) and not np.isclose(value, score_first):
    violated = True

if violated:
    print('VIOLATION: the sensitivities are not the derivatives of the value.')
    sys.exit(1)
print('Property holds.')
sys.exit(0)
