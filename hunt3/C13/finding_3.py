"""
PopulationFilterLogPosterior: __call__ and evaluateS1 return different values
(-inf vs NaN) for a simulated individual outside the support of its population
model when the mechanistic model is not defined there.

Typical set-up: a positive-only parameter (here the model output contains
log(p)) with a LogNormalModel / TruncatedGaussianModel population.  A sampler
proposes a negative value for one simulated individual:

* __call__ adds the population log-density (-inf) right after the prior and
  returns -inf before the mechanistic model is simulated;
* evaluateS1 simulates first (output NaN), evaluates the filter (NaN) and adds
  the population term (-inf) last:  NaN + (-inf) = NaN.

Gradient-based samplers (which only call evaluateS1) therefore see NaN where
the log-posterior is -inf.
"""
import sys
import warnings

sys.path.insert(0, sys.argv[1])

import numpy as np  # noqa: E402
import pints  # noqa: E402
import chi  # noqa: E402

warnings.simplefilter('ignore')


class LogModel(chi.MechanisticModel):
    """y(t) = 2 + log(p) + t / 10, defined for p > 0 only."""
    def __init__(self):
        super().__init__()
        self._sens = False

    def enable_sensitivities(self, enabled, parameter_names=None):
        self._sens = bool(enabled)

    def has_sensitivities(self):
        return self._sens

    def n_outputs(self):
        return 1

    def n_parameters(self):
        return 1

    def outputs(self):
        return ['y']

    def parameters(self):
        return ['p']

    def simulate(self, parameters, times):
        p = float(parameters[0])
        t = np.asarray(times, dtype=float)
        y = (2 + np.log(p) + 0.1 * t)[np.newaxis, :]
        if not self._sens:
            return y
        return y, np.full((len(t), 1, 1), 1 / p)


rng = np.random.default_rng(4)
times = [3., 1., 2.]
obs = rng.uniform(1, 6, (4, 1, 3))
epsilon = list(rng.normal(0, 1, 9))
prior = pints.ComposedLogPrior(
    pints.GaussianLogPrior(0, 2), pints.LogNormalLogPrior(0, 1))

violated = False
for pop_model in [chi.LogNormalModel(), chi.TruncatedGaussianModel()]:
    posterior = chi.PopulationFilterLogPosterior(
        chi.GaussianFilter(obs), times, LogModel(), pop_model, prior,
        sigma=0.1, n_samples=3)
    # second simulated individual has a negative parameter
    x = np.array([0.1, 0.3, 1.1, -0.9, 1.2] + epsilon)
    names = posterior.get_parameter_names(include_ids=True)
    value = posterior(x)
    score, _ = posterior.evaluateS1(x)
    print('%s: %s = %s' % (type(pop_model).__name__, names[3], x[3]))
    print('   __call__ %s    evaluateS1 %s' % (value, score))
    same = (value == score) or (np.isnan(value) and np.isnan(score))
    if not same:
        violated = True
    # sanity: inside the support both agree
    x[3] = 0.9
    print('   inside the support: __call__ %.6f  evaluateS1 %.6f'
          % (posterior(x), posterior.evaluateS1(x)[0]))

if violated:
    print('VIOLATION: evaluateS1 does not return the value of __call__.')
    sys.exit(1)
print('Property holds.')
sys.exit(0)
