"""
PopulationFilterLogPosterior returns NaN (value and evaluateS1) for parameter
vectors with a negative scale of a NON-CENTRED Gaussian / log-normal
population model, although the log-prior is finite there.

With the centred parametrisation the same vectors score -inf (population
log-density -inf).  With the non-centred parametrisation
compute_log_likelihood returns the standard-normal score of eta before it looks
at the scale, compute_individual_parameters returns NaN for psi, the mechanistic
model is simulated for NaN and the filter term becomes NaN:
    log-posterior = finite + finite + NaN = NaN
evaluateS1: the population term is -inf there (compute_sensitivities checks the
scale first), the filter term NaN  ->  NaN as well.

A negative scale cannot always be excluded by the prior: with a
CovariatePopulationModel the scale of an individual is sigma_0 + beta * chi,
which is negative for some individuals although sigma_0 > 0.
"""
import sys
import warnings

sys.path.insert(0, sys.argv[1])

import numpy as np  # noqa: E402
import pints  # noqa: E402
import chi  # noqa: E402

warnings.simplefilter('ignore')


class ToyModel(chi.MechanisticModel):
    def __init__(self):
        super().__init__()
        self._sens = False

    def enable_sensitivities(self, enabled, parameter_names=None):
        self._sens = bool(enabled)

    def has_sensitivities(self):
        return self._sens

    def n_outputs(self):
        return 1

    def n_parameters(self):
        return 1

    def outputs(self):
        return ['y']

    def parameters(self):
        return ['p']

    def simulate(self, parameters, times):
        p = float(parameters[0])
        t = np.asarray(times, dtype=float)
        y = (1 + p**2 * np.exp(-0.1 * t))[np.newaxis, :]
        if not self._sens:
            return y
        s = (2 * p * np.exp(-0.1 * t))[:, np.newaxis, np.newaxis]
        return y, s


rng = np.random.default_rng(4)
times = [3., 1., 2.]
obs = rng.uniform(1, 6, (4, 1, 3))
covariates = np.array([[0.], [1.], [2.]])
n_samples = 3
epsilon = list(rng.normal(0, 1, n_samples * 3))

violated = False
for model_class in [chi.GaussianModel, chi.LogNormalModel]:
    results = {}
    for centered in [True, False]:
        # (a) scale of the individuals sigma_0 + beta chi = 0.5 - 0.3 chi < 0
        #     for chi = 2, all top-level parameters are unremarkable
        pop_model = chi.CovariatePopulationModel(
            model_class(centered=centered), chi.LinearCovariateModel(n_cov=1))
        prior = pints.ComposedLogPrior(
            pints.GaussianLogPrior(1, 3), pints.LogNormalLogPrior(0, 1),
            pints.GaussianLogPrior(0, 1), pints.GaussianLogPrior(0, 1))
        posterior = chi.PopulationFilterLogPosterior(
            chi.GaussianFilter(obs), times, ToyModel(), pop_model, prior,
            sigma=0.1, n_samples=n_samples, covariates=covariates)
        bottom = [1.1, 0.9, 1.2] if centered else [0.1, -0.2, 0.3]
        x = np.array([1.0, 0.5, 0.1, -0.3] + bottom + epsilon)
        value = posterior(x)
        score, _ = posterior.evaluateS1(x)
        results[centered] = (prior(x[:4]), value, score)
    for centered in [True, False]:
        lp, value, score = results[centered]
        print('%s centered=%s: names %s' % (
            model_class.__name__, centered,
            posterior.get_parameter_names()[:4]))
        print('   log-prior %.4f   __call__ %s   evaluateS1 %s'
              % (lp, value, score))
        if np.isnan(value) or np.isnan(score):
            violated = True

if violated:
    print('VIOLATION: the log-posterior is NaN for a parameter vector of '
          'finite prior density (centred models: -inf).')
    sys.exit(1)
print('Property holds.')
sys.exit(0)
