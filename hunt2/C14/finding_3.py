# ProblemModellingController.set_population_model keeps (and reconfigures) the
# caller's population model object, while mechanistic and error models are
# copied.  Using one population model for two controllers / datasets therefore
# changes the first controller: its parameter count follows the second dataset
# and no log-prior is accepted with which a posterior can be built.
import sys
sys.path.insert(0, sys.argv[1])
import numpy as np
import pandas as pd
import pints
import chi


class Toy(chi.MechanisticModel):
    def __init__(self):
        super().__init__()

    def enable_sensitivities(self, enabled, parameter_names=None):
        pass

    def has_sensitivities(self):
        return False

    def n_outputs(self):
        return 1

    def n_parameters(self):
        return 2

    def outputs(self):
        return ['A']

    def parameters(self):
        return ['a0', 'k']

    def simulate(self, parameters, times):
        a0, k = parameters
        return (a0 * np.exp(-k * np.asarray(times, dtype=float)))[np.newaxis, :]


def frame(ids):
    rows = []
    for i in ids:
        for t in [1., 2.]:
            rows.append(dict(ID=i, Time=t, Observable='A', Value=i + t))
    return pd.DataFrame(rows)


def population_model():
    return chi.ComposedPopulationModel([
        chi.HeterogeneousModel(), chi.LogNormalModel(), chi.PooledModel()])


# Reference: the same first study on its own
ref = chi.ProblemModellingController(Toy(), chi.GaussianErrorModel())
ref.set_population_model(population_model())
ref.set_data(frame([1, 2]))
n_expected = ref.get_n_parameters()
names_expected = ref.get_parameter_names()
prior = pints.ComposedLogPrior(
    *[pints.GaussianLogPrior(1, 1)] * n_expected)
ref.set_log_prior(prior)
lp = ref.get_log_posterior()
p = np.linspace(0.5, 1.5, lp.n_parameters())
expected = lp(p)

# One population model, used for two studies of different size
shared = population_model()
study_1 = chi.ProblemModellingController(Toy(), chi.GaussianErrorModel())
study_1.set_population_model(shared)
study_1.set_data(frame([1, 2]))
study_2 = chi.ProblemModellingController(Toy(), chi.GaussianErrorModel())
study_2.set_population_model(shared)
study_2.set_data(frame([1, 2, 3]))

violated = False
n = study_1.get_n_parameters()
print('study 1 alone: %d parameters %s' % (n_expected, names_expected))
print('study 1 after study 2 was configured: %d parameters %s' % (
    n, study_1.get_parameter_names()))
if (n != n_expected) or (study_1.get_parameter_names() != names_expected):
    violated = True
try:
    study_1.set_log_prior(prior)
    value = study_1.get_log_posterior()(p)
    print('posterior', value, 'expected', expected)
    if not np.isclose(value, expected, rtol=1e-10):
        violated = True
except Exception as e:
    print('study 1 cannot build its posterior with the %d-dimensional '
          'prior of its own problem: %r' % (n_expected, e))
    violated = True
    try:
        study_1.set_log_prior(pints.ComposedLogPrior(
            *[pints.GaussianLogPrior(1, 1)] * n))
        study_1.get_log_posterior()
    except Exception as e2:
        print('... and neither with the %d-dimensional prior it asks for: '
              '%r' % (n, e2))

if violated:
    print('VIOLATION: the controller of the first dataset changed when the '
          'same population model object was used for a second dataset.')
    sys.exit(1)
sys.exit(0)
