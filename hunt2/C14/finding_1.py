# ProblemModellingController.set_data is not atomic: a call that raises leaves the
# controller half-updated, and the posteriors it hands out afterwards describe
# neither the old nor the new dataset (silently).
import sys
sys.path.insert(0, sys.argv[1])
import numpy as np
import pandas as pd
import pints
import chi


class Toy(chi.MechanisticModel):
    def __init__(self):
        super().__init__()

    def enable_sensitivities(self, enabled, parameter_names=None):
        pass

    def has_sensitivities(self):
        return False

    def n_outputs(self):
        return 1

    def n_parameters(self):
        return 2

    def outputs(self):
        return ['A']

    def parameters(self):
        return ['a0', 'k']

    def simulate(self, parameters, times):
        a0, k = parameters
        return (a0 * np.exp(-k * np.asarray(times, dtype=float)))[np.newaxis, :]


def hand(times, values, prior, p):
    ll = chi.LogLikelihood(Toy(), chi.GaussianErrorModel(), values, times)
    return ll(p) + prior(p)


prior = pints.ComposedLogPrior(*[pints.GaussianLogPrior(1, 1)] * 3)
p = [1.0, 1.0, 1.0]
violated = False
for label, ids in [('integer IDs', [1, 1, 2, 2]), ('string IDs', ['a', 'a', 'b', 'b'])]:
    good = pd.DataFrame({
        'ID': ids, 'Time': [1., 2., 1., 2.], 'Observable': ['A'] * 4,
        'Value': [1., 2., 3., 4.]})
    # A second dataset that set_data rejects (a non-numeric entry, e.g. a
    # below-limit-of-quantification flag, in the value column)
    bad = pd.DataFrame({
        'ID': ids, 'Time': [1., 2., 1., 2.], 'Observable': ['A'] * 4,
        'Value': [5., 6., 7., '<LOQ']})

    c = chi.ProblemModellingController(Toy(), chi.GaussianErrorModel())
    c.set_data(good)
    c.set_log_prior(prior)
    first = str(ids[0])
    before = c.get_log_posterior(first)(p)
    expected = hand([1., 2.], [1., 2.], prior, p)
    assert abs(before - expected) < 1e-12

    try:
        c.set_data(bad)
        print('set_data accepted the second dataset (unexpected)')
    except ValueError as e:
        print(label, ': set_data raised as it should:', e)

    # The rejected dataset must not have changed the modelling problem
    try:
        after = c.get_log_posterior(first)(p)
    except Exception as e:  # a loud failure is not what this script is about
        print(label, ': get_log_posterior raised', repr(e))
        continue
    print(label, ': posterior of ID', first, 'before', before, 'after', after,
          '| prior alone', prior(p),
          '| rejected dataset by hand', hand([1., 2.], [5., 6.], prior, p))
    if abs(after - before) > 1e-9:
        violated = True

if violated:
    print('VIOLATION: after a set_data call that raised, the controller '
          'silently returns a posterior that is not the one of its dataset.')
    sys.exit(1)
sys.exit(0)
