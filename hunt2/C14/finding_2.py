# The covariate mapping passed to set_data is silently discarded when no
# population model has been set yet; a covariate population model that is set
# afterwards is matched with the trivial mapping (covariate name == observable
# name) without any warning.  The same configuration in the other order
# (population model first, data second) uses the requested mapping.
import sys
import warnings
sys.path.insert(0, sys.argv[1])
import numpy as np
import pandas as pd
import pints
import chi


class Toy(chi.MechanisticModel):
    def __init__(self):
        super().__init__()

    def enable_sensitivities(self, enabled, parameter_names=None):
        pass

    def has_sensitivities(self):
        return False

    def n_outputs(self):
        return 1

    def n_parameters(self):
        return 2

    def outputs(self):
        return ['A']

    def parameters(self):
        return ['a0', 'k']

    def simulate(self, parameters, times):
        a0, k = parameters
        return (a0 * np.exp(-k * np.asarray(times, dtype=float)))[np.newaxis, :]


# Dataset with the age in years ('Age') and in months ('Age in months')
rows = []
meas = {}
for i, (age, age_m) in enumerate([(30., 360.), (40., 480.), (50., 600.)]):
    _id = i + 1
    meas[_id] = [(1., 2. + i), (2., 1.5 + i)]
    for t, v in meas[_id]:
        rows.append(dict(ID=_id, Time=t, Observable='A', Value=v))
    rows.append(dict(ID=_id, Time=np.nan, Observable='Age', Value=age))
    rows.append(
        dict(ID=_id, Time=np.nan, Observable='Age in months', Value=age_m))
data = pd.DataFrame(rows)


def population_model():
    return chi.ComposedPopulationModel([
        chi.PooledModel(),
        chi.PooledModel(),
        chi.CovariatePopulationModel(
            chi.GaussianModel(centered=False),
            chi.LinearCovariateModel(cov_names=['Age']))])


# Posterior assembled by hand for the requested mapping Age -> 'Age in months'
lls = []
for _id in [1, 2, 3]:
    ll = chi.LogLikelihood(
        Toy(), chi.GaussianErrorModel(),
        [v for _, v in meas[_id]], [t for t, _ in meas[_id]])
    ll.set_id(_id)
    lls.append(ll)
pm = population_model()
pm.set_dim_names(['a0', 'k', 'Sigma'])
reference = chi.HierarchicalLogLikelihood(
    lls, pm, covariates=np.array([[360.], [480.], [600.]]))
prior = pints.ComposedLogPrior(
    *[pints.GaussianLogPrior(1, 1)] * pm.n_parameters())
p = np.full(reference.n_parameters(), 0.01)
expected = reference(p) + prior(p[-pm.n_parameters():])

results = {}
for order in ['population model first', 'data first']:
    c = chi.ProblemModellingController(Toy(), chi.GaussianErrorModel())
    with warnings.catch_warnings(record=True) as caught:
        warnings.simplefilter('always')
        if order == 'population model first':
            c.set_population_model(population_model())
        c.set_data(
            data, output_observable_dict={'A': 'A'},
            covariate_dict={'Age': 'Age in months'})
        if order == 'data first':
            c.set_population_model(population_model())
    user_warnings = [
        str(w.message) for w in caught if issubclass(w.category, UserWarning)]
    c.set_log_prior(prior)
    results[order] = c.get_log_posterior()(p)
    print(order, ': posterior', results[order], '| by hand', expected,
          '| warnings:', user_warnings)

bad = [o for o, v in results.items() if not np.isclose(v, expected, rtol=1e-10)]
if bad:
    print('VIOLATION: for the call order <%s> the covariate mapping '
          "{'Age': 'Age in months'} is ignored without a warning; the "
          "posterior uses the observable 'Age' instead." % bad[0])
    sys.exit(1)
sys.exit(0)
