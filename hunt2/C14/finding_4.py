# ProblemModellingController.get_dosing_regimens hands out the internal
# dictionary with the internal myokit.Protocol objects.  Editing a returned
# protocol (e.g. to design a follow-up regimen for predictions) changes every
# posterior that the controller builds afterwards: it no longer describes the
# dose rows of the dataset.
import sys
sys.path.insert(0, sys.argv[1])
import myokit
import numpy as np
import pandas as pd
import pints
import chi


class Toy(chi.MechanisticModel):
    """One compartment with first-order elimination and infusions."""
    def __init__(self):
        super().__init__()
        self._protocol = None

    def enable_sensitivities(self, enabled, parameter_names=None):
        pass

    def has_sensitivities(self):
        return False

    def n_outputs(self):
        return 1

    def n_parameters(self):
        return 2

    def outputs(self):
        return ['A']

    def parameters(self):
        return ['a0', 'k']

    def supports_dosing(self):
        return True

    def set_dosing_regimen(
            self, dose, start=0, duration=0.01, period=None, num=None):
        if not isinstance(dose, myokit.Protocol):
            p = myokit.Protocol()
            p.add(myokit.ProtocolEvent(dose / duration, start, duration))
            dose = p
        self._protocol = dose.clone()

    def simulate(self, parameters, times):
        a0, k = parameters
        t = np.asarray(times, dtype=float)
        amount = a0 * np.exp(-k * t)
        events = [] if self._protocol is None else self._protocol.events()
        for e in events:
            r, s, d = e.level(), e.start(), e.duration()
            tt = np.clip(t, s, s + d)
            amount = amount + np.where(
                t > s,
                r / k * (1 - np.exp(-k * (tt - s))) * np.exp(-k * (t - tt)),
                0)
        return amount[np.newaxis, :]


data = pd.DataFrame({
    'ID': [1, 1, 1],
    'Time': [0., 1., 2.],
    'Observable': [np.nan, 'A', 'A'],
    'Value': [np.nan, 2., 1.],
    'Dose': [2., np.nan, np.nan],
    'Duration': [np.nan, np.nan, np.nan]})

# By hand: one bolus (2 units over 0.01) at t=0
model = Toy()
model.set_dosing_regimen(2., start=0., duration=0.01)
prior = pints.ComposedLogPrior(*[pints.GaussianLogPrior(1, 1)] * 3)
p = [1., 1., 1.]
expected = chi.LogLikelihood(
    model, chi.GaussianErrorModel(), [2., 1.], [1., 2.])(p) + prior(p)

c = chi.ProblemModellingController(Toy(), chi.GaussianErrorModel())
c.set_data(data)
c.set_log_prior(prior)
before = c.get_log_posterior()(p)

# The user takes the regimen of the individual and extends it, e.g. to look at
# a follow-up dose
regimen = c.get_dosing_regimens()['1']
regimen.schedule(level=100, start=0.5, duration=0.1)

after = c.get_log_posterior()(p)
print('by hand', expected, '| controller before', before, '| after the '
      'returned regimen was edited', after)
if not (np.isclose(before, expected) and np.isclose(after, expected)):
    print('VIOLATION: the posterior no longer uses the dosing regimen that '
          'the dose rows of the dataset define.')
    sys.exit(1)
sys.exit(0)
