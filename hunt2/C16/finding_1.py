"""
C16 - PriorPredictiveModel.sample with a numpy Generator as seed.

The generator is reduced to ONE integer in [0, 1e6) per call
(`seed = int(seed.integers(low=0, high=1E6))`); the prior draws are then taken
from the global legacy generator seeded with that integer and the noise of
sample k from `default_rng(integer + k)`.  Successive calls that advance one
shared generator (the documented way to obtain independent replicates) therefore
use overlapping windows [b+1, b+n_samples] of a space of only 10^6 integer
seeds: with n_samples = 25 two out of a few hundred calls overlap, and samples
of DIFFERENT calls then carry bit-identical noise (and two calls that draw the
same integer return identical data frames altogether).

Exit code 1: noise shared between different calls of one advancing generator.
"""
import copy
import sys
import warnings

sys.path.insert(0, sys.argv[1] if len(sys.argv) > 1 else '/repo')
warnings.filterwarnings('ignore')

import numpy as np  # noqa: E402
import pints  # noqa: E402
import chi  # noqa: E402


class Line(chi.MechanisticModel):
    """y(t) = a + b t, no solver needed."""
    def __init__(self):
        super(Line, self).__init__()
        self._outs = ['y']

    def copy(self):
        import copy
        return copy.deepcopy(self)

    def enable_sensitivities(self, enabled, parameter_names=None):
        pass

    def has_sensitivities(self):
        return False

    def n_outputs(self):
        return 1

    def n_parameters(self):
        return 2

    def outputs(self):
        return list(self._outs)

    def parameters(self):
        return ['a', 'b']

    def set_outputs(self, outputs):
        self._outs = list(outputs)

    def set_output_names(self, names):
        pass

    def set_parameter_names(self, names):
        pass

    def simulate(self, parameters, times):
        a, b = parameters
        return (a + b * np.asarray(times, dtype=float))[np.newaxis, :]

    def supports_dosing(self):
        return False


predictive_model = chi.PredictiveModel(Line(), [chi.GaussianErrorModel()])

# Prior that (practically) fixes a=0, b=0, sigma=1, so that the sampled values
# ARE the noise realisations (up to 1e-12)
log_prior = pints.ComposedLogPrior(
    pints.UniformLogPrior(0, 1E-13),
    pints.UniformLogPrior(0, 1E-13),
    pints.UniformLogPrior(1, 1 + 1E-13))
model = chi.PriorPredictiveModel(predictive_model, log_prior)

times = [0., 1., 2.]
n_samples = 25
n_calls = 400

rng = np.random.default_rng(0)
seen = {}      # noise vector (rounded) -> (call, sample ID)
shared = []
for call in range(n_calls):
    state_before = copy.deepcopy(rng.bit_generator.state)
    df = model.sample(times, n_samples=n_samples, seed=rng)
    assert rng.bit_generator.state != state_before, \
        'generator was not advanced'
    for _id in range(1, n_samples + 1):
        v = df[df['ID'] == _id].sort_values('Time')['Value'].to_numpy(float)
        key = tuple(np.round(v, 8))
        if key in seen and seen[key][0] != call:
            shared.append((seen[key], (call, _id), key))
        else:
            seen[key] = (call, _id)
    if len(shared) >= 3:
        break

print('calls made with one shared, advancing Generator: %d (n_samples=%d)'
      % (call + 1, n_samples))
if shared:
    print('Samples of DIFFERENT calls with identical noise at all %d times:'
          % len(times))
    for first, second, key in shared[:3]:
        print('  call %d sample %d  ==  call %d sample %d : %s'
              % (first[0], first[1], second[0], second[1], key))
    print('VIOLATION: draws of successive calls that advance one generator '
          'are not independent (only 10^6 integer seeds, windows seed+k).')
    sys.exit(1)

print('No shared noise found.')
sys.exit(0)
