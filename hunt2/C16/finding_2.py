"""
C16 - TruncatedGaussianModel.sample with an INTEGER seed does not build its own
generator: it reseeds numpy's legacy global generator (`np.random.seed(seed)`)
and then calls `scipy.stats.truncnorm.rvs(...)` WITHOUT `random_state`, i.e. it
draws from whatever generator the process-wide scipy distribution object
`scipy.stats.truncnorm` currently holds (its public `random_state` attribute).
By default that is numpy's global generator, so the reseeding works; but when
the distribution-level generator has been set (scipy's documented way of
seeding a distribution, by the user or another library), the integer seed no
longer determines anything: the same seed gives different draws, and different
seeds continue one common stream.  (All other chi samplers, and the Generator
branch of this one, are unaffected by any global generator state.)

Exit code 1: same integer seed -> different results, depending on the state of
a global generator.
"""
import sys
import warnings

sys.path.insert(0, sys.argv[1] if len(sys.argv) > 1 else '/repo')
warnings.filterwarnings('ignore')

import numpy as np  # noqa: E402
import scipy.stats  # noqa: E402
import chi  # noqa: E402

model = chi.TruncatedGaussianModel(n_dim=2)
parameters = [1, 2, 0.5, 0.5]
reduced = chi.ReducedPopulationModel(chi.TruncatedGaussianModel(n_dim=2))
reduced.fix_parameters({reduced.get_parameter_names()[0]: 1})

# Reference behaviour with untouched global generators
ref1 = model.sample(parameters, n_samples=3, seed=1)
ref2 = model.sample(parameters, n_samples=3, seed=1)
print('default global state, same seed twice identical :',
      np.array_equal(ref1, ref2))

# A legitimate global generator state: scipy's truncnorm has been given its
# own generator (e.g. by user code that seeds its scipy draws this way)
previous = scipy.stats.truncnorm.random_state
scipy.stats.truncnorm.random_state = np.random.RandomState(2024)
try:
    a = model.sample(parameters, n_samples=3, seed=1)
    b = model.sample(parameters, n_samples=3, seed=1)
    ra = reduced.sample(parameters[1:], n_samples=3, seed=1)
    rb = reduced.sample(parameters[1:], n_samples=3, seed=1)
    # The Generator branch is independent of the global state
    ga = model.sample(
        parameters, n_samples=3, seed=np.random.default_rng(1))
    gb = model.sample(
        parameters, n_samples=3, seed=np.random.default_rng(1))
finally:
    scipy.stats.truncnorm.random_state = previous

same_int = np.array_equal(a, b)
same_red = np.array_equal(ra, rb)
same_gen = np.array_equal(ga, gb)
print('scipy truncnorm generator set, seed=1 twice identical          :',
      same_int)
print('                  ... through ReducedPopulationModel identical :',
      same_red)
print('                  ... equal to the default-state result        :',
      np.array_equal(a, ref1))
print('                  ... Generator(1) twice identical (reference) :',
      same_gen)
print('first call :', a.flatten())
print('second call:', b.flatten())

if not (same_int and same_red and np.array_equal(a, ref1)):
    print('VIOLATION: an integer seed does not determine the draws of '
          'TruncatedGaussianModel.sample for every global generator state.')
    sys.exit(1)
sys.exit(0)
