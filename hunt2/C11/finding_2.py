# C11: set_outputs resets the sensitivity settings (documented), but not for
# a ReducedMechanisticModel whose parameters are all fixed: the 'empty
# sensitivities' flag of the wrapper survives set_outputs, so has_sensitivities
# and the return type of simulate depend on the call history.
import sys
sys.path.insert(0, '/tmp/seedhelp')
sys.path.insert(0, sys.argv[1])
import refsim; refsim.install()
import numpy as np
import chi, chi.library

times = [0, 0.5, 1.2]
values = {'central.drug_amount': 0.1, 'central.size': 1.2,
          'global.elimination_rate': 0.8}


def make(fixed):
    m = chi.library.ModelLibrary().one_compartment_pk_model()
    m.set_administration('central', direct=True)
    m.set_dosing_regimen(2, period=1)
    r = chi.ReducedMechanisticModel(m)
    r.fix_parameters(fixed)
    return r


# History: all parameters fixed, sensitivities enabled, outputs selected
a = make(values)
a.enable_sensitivities(True)
a.set_outputs(['central.drug_amount'])
res_a = a.simulate([], times)

# Fresh model with the net configuration (set_outputs resets sensitivities)
b = make(values)
b.set_outputs(['central.drug_amount'])
res_b = b.simulate([], times)

# Same history with one free parameter: sensitivities are reset as documented
part = dict(values); del part['central.size']
c = make(part)
c.enable_sensitivities(True)
c.set_outputs(['central.drug_amount'])
res_c = c.simulate([1.2], times)

print('all fixed,  sens -> set_outputs : has_sensitivities', a.has_sensitivities(), type(res_a).__name__)
print('all fixed,  set_outputs (fresh) : has_sensitivities', b.has_sensitivities(), type(res_b).__name__)
print('one free,   sens -> set_outputs : has_sensitivities', c.has_sensitivities(), type(res_c).__name__)

# Follow-up: releasing a parameter silently switches real sensitivities on
a.fix_parameters({'central.size': None})
print('... after releasing central.size: wrapped model has sensitivities',
      a.mechanistic_model().has_sensitivities())

if a.has_sensitivities() != b.has_sensitivities() or type(res_a) != type(res_b):
    print('VIOLATION: after set_outputs the fully fixed model still reports '
          'sensitivities and simulate returns a tuple; a fresh model with the '
          'same net configuration (and the partially fixed model with the '
          'same history) does not.')
    sys.exit(1)
print('property holds')
sys.exit(0)
