# C11: PKPDModel.administration() hands out the internal dictionary. Editing
# the returned object changes the route the model (and every later copy)
# reports, while the simulated route stays the configured one.
import sys
sys.path.insert(0, '/tmp/seedhelp')
sys.path.insert(0, sys.argv[1])
import refsim; refsim.install()
import numpy as np
import chi, chi.library

m = chi.library.ModelLibrary().one_compartment_pk_model()
m.set_administration('central', direct=False)
m.set_dosing_regimen(2, period=1)

fresh = chi.library.ModelLibrary().one_compartment_pk_model()
fresh.set_administration('central', direct=False)
fresh.set_dosing_regimen(2, period=1)

info = m.administration()
info['direct'] = True            # the caller edits *its* dictionary
info['compartment'] = 'peripheral'

theta = [0.1, 0.2, 1.2, 0.9, 0.8]
same_sim = np.allclose(m.simulate(theta, [0, 1, 2]), fresh.simulate(theta, [0, 1, 2]))
print('parameters (dose compartment present):', m.parameters())
print('simulation equals fresh indirect model:', same_sim)
print('reported by the model  :', m.administration())
print('reported by a copy     :', m.copy().administration())
print('reported by fresh model:', fresh.administration())
if m.administration() != fresh.administration():
    print('VIOLATION: the reported route of administration was changed '
          'through the returned dictionary; it no longer matches the route '
          'the model simulates.')
    sys.exit(1)
print('property holds')
sys.exit(0)
