# C11: ReducedMechanisticModel forgets the sensitivity selection when a
# parameter is fixed afterwards: [enable_sensitivities(True, sel), fix(p)] and
# [fix(p), enable_sensitivities(True, sel)] are the same net configuration but
# simulate returns sensitivities of different shapes / for other parameters.
import sys
sys.path.insert(0, '/tmp/seedhelp')
sys.path.insert(0, sys.argv[1])
import refsim; refsim.install()
import numpy as np
import chi, chi.library


def make():
    m = chi.library.ModelLibrary().one_compartment_pk_model()
    m.set_administration('central', direct=False)
    m.set_dosing_regimen(2, period=1)
    return chi.ReducedMechanisticModel(m)


times = [0, 0.5, 1.2, 2.5]
theta = [0.1, 1.0, 1.2, 0.8]   # central.drug_amount, central.size, ka, ke
selection = ['central.size']

# History A: select the sensitivities, then fix an unrelated parameter
a = make()
a.enable_sensitivities(True, selection)
n_before = a.simulate([0.1, 0.0] + theta[1:], times)[1].shape[2]
a.fix_parameters({'dose.drug_amount': 0})
out_a, sens_a = a.simulate(theta, times)

# History B (fresh model, net configuration): fix, then select
b = make()
b.fix_parameters({'dose.drug_amount': 0})
b.enable_sensitivities(True, selection)
out_b, sens_b = b.simulate(theta, times)

print('free parameters          :', a.parameters(), b.parameters())
print('selected sensitivities   :', selection)
print('columns before fixing    :', n_before)
print('select -> fix   sens shape:', sens_a.shape)
print('fix -> select   sens shape:', sens_b.shape)
bad = (a.parameters() == b.parameters()) and np.allclose(out_a, out_b) and (
    sens_a.shape != sens_b.shape or not np.allclose(sens_a, sens_b))
if bad:
    print('VIOLATION: fixing "dose.drug_amount" widened the sensitivity '
          'selection from %d to %d parameters; the model depends on the '
          'order of the configuration calls.' % (n_before, sens_a.shape[2]))
    sys.exit(1)
print('property holds')
sys.exit(0)
