"""
C13 - PopulationFilterLogPosterior cannot be evaluated when a pooled or
heterogeneous parameter is fixed with a ReducedPopulationModel.

A fixed pooled / heterogeneous parameter no longer is an entry of the flat
parameter vector, but the posterior fills the pooled / heterogeneous
dimensions of the simulated individuals from slices of that vector
(start_top:end_top reported by ReducedPopulationModel.get_special_dims, which
are re-indexed for the free parameters and therefore too short or empty).

Reference: the same posterior with the un-reduced population model evaluated
with the fixed value inserted. Both posteriors differ only by the log-prior
of the extra parameter(s), which is subtracted.
"""
import sys
import warnings

sys.path.insert(0, sys.argv[1] if len(sys.argv) > 1 else '/repo')
import numpy as np
import pints
import chi

warnings.filterwarnings('ignore')


class Model(chi.MechanisticModel):
    """y(t) = p0 * exp(-p1 * t) + p2 with analytic sensitivities."""
    def __init__(self):
        super().__init__()
        self._sens = False

    def enable_sensitivities(self, enabled, parameter_names=None):
        self._sens = bool(enabled)

    def has_sensitivities(self):
        return self._sens

    def n_outputs(self):
        return 1

    def n_parameters(self):
        return 3

    def outputs(self):
        return ['y']

    def parameters(self):
        return ['amplitude', 'rate', 'offset']

    def simulate(self, parameters, times):
        a, k, b = [float(p) for p in parameters]
        t = np.asarray(times, dtype=float)
        e = np.exp(-k * t)
        y = (a * e + b)[np.newaxis, :]
        if not self._sens:
            return y
        d = np.empty((len(t), 1, 3))
        d[:, 0, 0] = e
        d[:, 0, 1] = -a * t * e
        d[:, 0, 2] = 1
        return y, d


def gaussian_priors(n):
    return pints.ComposedLogPrior(
        *[pints.GaussianLogPrior(1 + 0.1 * i, 2) for i in range(n)])


rng = np.random.default_rng(3)
n_samples = 4
times = [3., 1., 2.]
observations = rng.normal(3, 0.5, size=(6, 1, 3))
noise = rng.normal(size=n_samples * 3)
amplitudes = rng.uniform(1.5, 2.5, size=n_samples)
failed = False


def run(label, models_full, fix, fixed_idx, top_full):
    """
    models_full: function returning the list of sub-models (fresh objects)
    fix: index of sub-model that is wrapped + dict name -> value
    fixed_idx: positions of the fixed parameters among top_full
    top_full: top-level parameters of the un-reduced posterior
    """
    global failed
    # Un-reduced reference posterior
    pop_full = chi.ComposedPopulationModel(models_full())
    pop_full.set_n_ids(n_samples)
    full_names = pop_full.get_parameter_names()
    prior_full = gaussian_priors(len(full_names))
    ref = chi.PopulationFilterLogPosterior(
        chi.GaussianFilter(observations), times, Model(), pop_full,
        prior_full, sigma=[0.3], n_samples=n_samples)

    # Reduced posterior
    models = models_full()
    idx, name_value = fix
    models[idx].set_n_ids(n_samples)
    reduced = chi.ReducedPopulationModel(models[idx])
    reduced.fix_parameters(name_value)
    models[idx] = reduced
    pop = chi.ComposedPopulationModel(models)
    pop.set_n_ids(n_samples)
    free = np.ones(len(full_names), dtype=bool)
    free[fixed_idx] = False
    # (priors of the free parameters are the same objects in both posteriors)
    prior = pints.ComposedLogPrior(*[
        pints.GaussianLogPrior(1 + 0.1 * i, 2)
        for i in range(len(full_names)) if free[i]])
    post = chi.PopulationFilterLogPosterior(
        chi.GaussianFilter(observations), times, Model(), pop,
        prior, sigma=[0.3], n_samples=n_samples)

    top_full = np.array(top_full, dtype=float)
    x_full = np.concatenate([top_full, amplitudes, noise])
    x = np.concatenate([top_full[free], amplitudes, noise])
    keep = np.concatenate([free, np.ones(len(x_full) - len(free), bool)])

    ref_value, ref_grad = ref.evaluateS1(x_full)
    shift = prior(top_full[free]) - prior_full(top_full)
    ref_value += shift
    _, dprior_full = prior_full.evaluateS1(top_full)
    _, dprior = prior.evaluateS1(top_full[free])
    ref_grad = ref_grad[keep]
    ref_grad[:len(dprior)] += dprior - dprior_full[free]

    print(label)
    print('  parameters:', post.get_parameter_names()[:post.n_parameters(True)])
    print('  expected value: %.8f' % ref_value)
    try:
        value = post(x)
        score, grad = post.evaluateS1(x)
    except Exception as e:
        print('  VIOLATION: evaluation raises %s: %s' % (type(e).__name__, e))
        failed = True
        return
    print('  value: %r, S1 score: %r' % (value, score))
    if not (np.isclose(value, ref_value) and np.isclose(score, ref_value)):
        print('  VIOLATION: value differs from the expected value')
        failed = True
    elif not np.allclose(grad, ref_grad, rtol=1e-6, atol=1e-8):
        print('  VIOLATION: sensitivities differ', grad, ref_grad)
        failed = True
    else:
        print('  ok')


# A: amplitude Gaussian, rate pooled and fixed, offset pooled
run(
    'A: fixed pooled parameter (1-dim PooledModel inside a reduced model)',
    lambda: [chi.GaussianModel(), chi.PooledModel(), chi.PooledModel()],
    (1, {'Pooled Dim. 1': 0.4}), [2],
    [2.0, 0.3, 0.4, 1.1])

# B: rate and offset share a 2-dim PooledModel, only the rate is fixed
run(
    'B: one of two dimensions of a PooledModel fixed',
    lambda: [chi.GaussianModel(), chi.PooledModel(n_dim=2)],
    (1, {'Pooled Dim. 1': 0.4}), [2],
    [2.0, 0.3, 0.4, 1.1])

# C: rate heterogeneous with the value of the first simulated individual
# fixed, offset pooled
run(
    'C: one parameter of a HeterogeneousModel fixed',
    lambda: [
        chi.GaussianModel(), chi.HeterogeneousModel(n_ids=n_samples),
        chi.PooledModel()],
    (1, {'ID 1 Dim. 1': 0.4}), [2],
    [2.0, 0.3, 0.4, 0.5, 0.45, 0.35, 1.1])

# Control: fixing a parameter of a regular dimension works
run(
    'Control: fixed standard deviation of the Gaussian dimension',
    lambda: [chi.GaussianModel(), chi.PooledModel(), chi.PooledModel()],
    (0, {'Std. Dim. 1': 0.3}), [1],
    [2.0, 0.3, 0.4, 1.1])

sys.exit(1 if failed else 0)
