"""
C06 finding 2 (minor): LogNormalModel.get_mean_and_std reports a standard
deviation of exactly 0 (or a value that is off by several percent) for small
but valid sigma_log (about 3e-8 and below), while the density that is scored
and the samples that are drawn have std = mean * sigma_log > 0.

Usage: python finding_2.py <path to repository>
"""
import sys

sys.path.insert(0, sys.argv[1])

import numpy as np  # noqa: E402

import chi  # noqa: E402

violated = False
for centered in [True, False]:
    model = chi.LogNormalModel(centered=centered)
    for mu_log, sigma_log in [(2.0, 1e-4), (2.0, 2e-8), (2.0, 1e-8)]:
        parameters = [mu_log, sigma_log]
        mean, std = model.get_mean_and_std(parameters)[:, 0]

        # Samples (after the model's own transform for the non-centered
        # parametrisation)
        samples = model.sample(parameters, n_samples=100000, seed=1)
        samples = model.compute_individual_parameters(
            np.array(parameters), samples)[:, 0]

        # Std. of the scored density: log psi ~ N(mu_log, sigma_log), checked
        # against the log-likelihood of the centered model
        ref = chi.LogNormalModel()
        psi = np.exp(mu_log + sigma_log * np.array([-1.0, 0.0, 1.0]))
        scores = np.array([
            ref.compute_log_likelihood(parameters, [[p]]) for p in psi])
        # (one std. in log psi lowers log p + log psi by exactly 1/2)
        assert np.allclose(
            (scores + np.log(psi))[[0, 2]] - (scores + np.log(psi))[1],
            -0.5, atol=1e-6)
        exact_std = np.exp(mu_log + sigma_log**2 / 2) * np.sqrt(
            np.expm1(sigma_log**2))

        print('centered=%s, sigma_log=%g: reported std %.6e, density std '
              '%.6e, sample std %.6e' % (
                  centered, sigma_log, std, exact_std, samples.std()))
        assert abs(samples.std() / exact_std - 1) < 0.02
        if abs(std / exact_std - 1) > 0.01:
            violated = True
            print('  -> reported std is off by %.1f%%' % (
                100 * (std / exact_std - 1)))

if violated:
    print(
        'VIOLATED: LogNormalModel.get_mean_and_std does not report the '
        'std. of the distribution that is scored and sampled.')
    sys.exit(1)
print('holds')
sys.exit(0)
