"""
C06 finding 1: TruncatedGaussianModel.get_mean_and_std reports moments that
disagree with the model's own density and sampler for mu/sigma << 0
(about -300 and below): the std is off, then NaN; further out the mean is
wrong too.

Usage: python finding_1.py <path to repository>
"""
import sys
import warnings

sys.path.insert(0, sys.argv[1])

import numpy as np  # noqa: E402
from scipy import integrate  # noqa: E402

import chi  # noqa: E402

model = chi.TruncatedGaussianModel()


def density_moments(mu, sigma):
    """
    Mean and std. obtained by integrating the density the model scores
    (exp of compute_log_likelihood) numerically.
    """
    scale = sigma**2 / abs(mu)  # decay length of the density for mu << 0

    def pdf(psi):
        return np.exp(model.compute_log_likelihood([mu, sigma], [[psi]]))

    upper = 80 * scale
    pts = list(scale * np.array([0.5, 1, 2, 5, 10, 20, 40]))
    kw = dict(points=pts, limit=500, epsabs=0, epsrel=1e-8)
    with warnings.catch_warnings():
        warnings.simplefilter('ignore')
        norm = integrate.quad(pdf, 0, upper, **kw)[0]
        m1 = integrate.quad(lambda p: p * pdf(p), 0, upper, **kw)[0]
        m2 = integrate.quad(lambda p: p**2 * pdf(p), 0, upper, **kw)[0]
    return norm, m1, np.sqrt(m2 - m1**2)


violated = False
cases = [(-1.0, 1.0), (-3.0, 0.01), (-5.0, 0.01), (-10.0, 0.01), (-100, 0.01)]
for mu, sigma in cases:
    with warnings.catch_warnings():
        warnings.simplefilter('ignore')
        mean, std = model.get_mean_and_std([mu, sigma])[:, 0]
    norm, d_mean, d_std = density_moments(mu, sigma)
    samples = model.sample([mu, sigma], n_samples=200000, seed=1)[:, 0]
    s_mean, s_std = samples.mean(), samples.std()

    print('mu = %g, sigma = %g (mu/sigma = %g)' % (mu, sigma, mu / sigma))
    print('  density integrates to  : %.8f' % norm)
    print('  reported mean, std     : %.6e  %.6e' % (mean, std))
    print('  from scored density    : %.6e  %.6e' % (d_mean, d_std))
    print('  from 200000 samples    : %.6e  %.6e' % (s_mean, s_std))

    # Density and sampler agree with each other (sanity of the reference)
    assert abs(norm - 1) < 1e-6
    assert abs(s_mean / d_mean - 1) < 0.02 and abs(s_std / d_std - 1) < 0.02

    bad_mean = not np.isfinite(mean) or abs(mean / d_mean - 1) > 0.01
    bad_std = not np.isfinite(std) or abs(std / d_std - 1) > 0.01
    if bad_mean or bad_std:
        violated = True
        print('  -> reported %s disagree(s) with density and samples' % (
            ' and '.join(
                n for n, b in [('mean', bad_mean), ('std', bad_std)] if b)))

if violated:
    print(
        'VIOLATED: TruncatedGaussianModel.get_mean_and_std does not report '
        'the moments of the distribution that is scored and sampled.')
    sys.exit(1)
print('holds')
sys.exit(0)
