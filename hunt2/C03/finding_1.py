"""
PopulationFilterLogPosterior with a ReducedPopulationModel that fixes a
pooled (or heterogeneous) parameter.

HierarchicalLogLikelihood handles this configuration (the fixed value is
inserted by the reduced model), but PopulationFilterLogPosterior expands the
pooled / heterogeneous dimensions itself from index ranges into the vector of
*free* population parameters (get_special_dims of the reduced model).  When a
parameter of such a dimension is fixed the range is too short:

 (A) all dimensions pooled, one fixed: the free values are broadcast over all
     dimensions, the score is -inf for every parameter vector, and evaluateS1
     raises a ValueError instead of reporting the non-finite score.
 (B) pooled dimension next to hierarchical dimensions, pooled value fixed:
     __call__ and evaluateS1 both raise a ValueError.
 (C) heterogeneous dimension with the value of one individual fixed: both
     raise a ValueError.

The reference is the same posterior without fixed parameters, evaluated with
the fixed value inserted (the log-prior of the inserted value is a constant).
"""
import sys
import warnings

import numpy as np

sys.path.insert(0, sys.argv[1] if len(sys.argv) > 1 else '/repo')
import chi  # noqa: E402
import pints  # noqa: E402

warnings.simplefilter('ignore')


class Toy(chi.MechanisticModel):
    """y = a * exp(-b t) + c with analytic sensitivities."""
    def __init__(self):
        super().__init__()
        self._has = False

    def enable_sensitivities(self, enabled, parameter_names=None):
        self._has = bool(enabled)

    def has_sensitivities(self):
        return self._has

    def n_outputs(self):
        return 1

    def n_parameters(self):
        return 3

    def outputs(self):
        return ['y']

    def parameters(self):
        return ['a', 'b', 'c']

    def simulate(self, parameters, times):
        a, b, c = [float(p) for p in parameters]
        t = np.asarray(times, dtype=float)
        y = (a * np.exp(-b * t) + c)[np.newaxis, :]
        if not self._has:
            return y
        s = np.empty((len(t), 1, 3))
        s[:, 0, 0] = np.exp(-b * t)
        s[:, 0, 1] = -a * t * np.exp(-b * t)
        s[:, 0, 2] = 1
        return y, s


def prior(n):
    return pints.ComposedLogPrior(
        *[pints.GaussianLogPrior(1, 10) for _ in range(n)])


def evaluate(label, posterior, parameters):
    try:
        score = posterior(parameters)
    except Exception as e:
        score = 'raised %r' % e
    try:
        s1 = posterior.evaluateS1(parameters)[0]
    except Exception as e:
        s1 = 'raised %r' % e
    print('%s\n    __call__  : %s\n    evaluateS1: %s' % (label, score, s1))
    return score, s1


rng = np.random.default_rng(1)
obs = rng.uniform(1, 2, size=(4, 1, 2))
times = [0.5, 1.5]
n_samples = 3
n_eps = n_samples * 1 * 2
bad = False

# (A) all dimensions pooled, 'Pooled Dim. 2' fixed
fixed_value = 0.7
full = chi.PooledModel(n_dim=3)
reduced = chi.ReducedPopulationModel(chi.PooledModel(n_dim=3))
reduced.fix_parameters({'Pooled Dim. 2': fixed_value})
kw = dict(sigma=[0.3], n_samples=n_samples)
p_full = chi.PopulationFilterLogPosterior(
    chi.GaussianFilter(obs), times, Toy(), full, prior(3), **kw)
p_red = chi.PopulationFilterLogPosterior(
    chi.GaussianFilter(obs), times, Toy(), reduced, prior(2), **kw)
print('parameters of the reduced posterior:',
      p_red.get_parameter_names()[:2], '...')
eps = rng.normal(size=n_eps)
ref, ref1 = evaluate(
    '(A) reference: no fixed parameter, fixed value inserted', p_full,
    np.hstack(([0.9, fixed_value, 1.1], eps)))
a, a1 = evaluate(
    '(A) PooledModel(n_dim=3) with "Pooled Dim. 2" fixed', p_red,
    np.hstack(([0.9, 1.1], eps)))
if not (isinstance(a, float) and np.isfinite(a)) or isinstance(a1, str):
    bad = True

# (A') two of the three pooled values fixed: the single free value is
# broadcast over all dimensions
reduced = chi.ReducedPopulationModel(chi.PooledModel(n_dim=3))
reduced.fix_parameters({'Pooled Dim. 1': 0.9, 'Pooled Dim. 2': fixed_value})
p_red = chi.PopulationFilterLogPosterior(
    chi.GaussianFilter(obs), times, Toy(), reduced, prior(1), **kw)
a, a1 = evaluate(
    "(A') PooledModel(n_dim=3) with two pooled values fixed (same point)",
    p_red, np.hstack(([1.1], eps)))
if not (isinstance(a, float) and np.isfinite(a)) or isinstance(a1, str):
    bad = True


# (B) pooled dimension + hierarchical dimensions, pooled value fixed
def composed():
    return chi.ComposedPopulationModel([
        chi.PooledModel(), chi.GaussianModel(n_dim=2)])


reduced = chi.ReducedPopulationModel(composed())
reduced.fix_parameters({'Pooled Dim. 1': fixed_value})
p_full = chi.PopulationFilterLogPosterior(
    chi.GaussianFilter(obs), times, Toy(), composed(), prior(5), **kw)
p_red = chi.PopulationFilterLogPosterior(
    chi.GaussianFilter(obs), times, Toy(), reduced, prior(4), **kw)
top = [1.0, 1.2, 0.5, 0.6]
bottom = rng.uniform(0.5, 1.5, size=n_samples * 2)
ref, ref1 = evaluate(
    '(B) reference: no fixed parameter, fixed value inserted', p_full,
    np.hstack(([fixed_value], top, bottom, eps)))
b, b1 = evaluate(
    '(B) Composed([Pooled, Gaussian(2)]) with the pooled value fixed', p_red,
    np.hstack((top, bottom, eps)))
if isinstance(b, str) or isinstance(b1, str):
    bad = True
elif not np.isfinite(b):
    bad = True

# (C) heterogeneous dimension with the value of one individual fixed
def composed_h():
    return chi.ComposedPopulationModel([
        chi.HeterogeneousModel(n_ids=n_samples), chi.GaussianModel(n_dim=2)])


reduced = chi.ReducedPopulationModel(composed_h())
reduced.fix_parameters({'ID 2 Dim. 1': fixed_value})
p_full = chi.PopulationFilterLogPosterior(
    chi.GaussianFilter(obs), times, Toy(), composed_h(), prior(7), **kw)
p_red = chi.PopulationFilterLogPosterior(
    chi.GaussianFilter(obs), times, Toy(), reduced, prior(6), **kw)
ref, ref1 = evaluate(
    '(C) reference: no fixed parameter, fixed value inserted', p_full,
    np.hstack(([0.9, fixed_value, 1.1], top, bottom, eps)))
c, c1 = evaluate(
    '(C) Composed([Heterogeneous, Gaussian(2)]) with "ID 2 Dim. 1" fixed',
    p_red, np.hstack(([0.9, 1.1], top, bottom, eps)))
if isinstance(c, str) or isinstance(c1, str) or not np.isfinite(c):
    bad = True

if bad:
    print('VIOLATION: the posterior with a fixed pooled / heterogeneous parameter cannot be '
          'evaluated (finite reference score), and evaluateS1 raises.')
    sys.exit(1)
print('property holds')
sys.exit(0)
