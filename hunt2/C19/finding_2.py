"""
C19 finding 2: sampling routines overwrite numpy's *global* random state.

HierarchicalLogPosterior / LogPosterior / PopulationFilterLogPosterior
.sample_initial_parameters, TruncatedGaussianModel.sample and
PriorPredictiveModel.sample call np.random.seed(seed):

* with the default seed=None this re-seeds the global generator from OS
  entropy, so a script that seeded numpy (the only way to make the log-prior
  draws and a subsequent pints run reproducible) is no longer reproducible:
  the same call sequence in the same process gives different results;
* with an integer seed the call is reproducible itself, but it replaces the
  caller's global stream (hidden state) - every other seeded sampler in chi
  (error models, Gaussian / log-normal population models, predictive models)
  leaves the global state untouched.
"""
import sys
sys.path.insert(0, sys.argv[1])
import warnings
import numpy as np
import pints
import chi

warnings.simplefilter('ignore')


class Toy(chi.MechanisticModel):
    def __init__(self):
        super().__init__()
        self._sens = False

    def enable_sensitivities(self, enabled, parameter_names=None):
        self._sens = bool(enabled)

    def has_sensitivities(self):
        return self._sens

    def n_outputs(self):
        return 1

    def n_parameters(self):
        return 2

    def outputs(self):
        return ['y']

    def parameters(self):
        return ['a', 'b']

    def simulate(self, parameters, times):
        a, b = parameters
        t = np.asarray(times, dtype=float)
        return np.array([a * np.exp(-b * t)])


times = [0.5, 1., 2., 4.]
lls = [
    chi.LogLikelihood(
        Toy(), chi.GaussianErrorModel(),
        np.exp(-.3 * np.array(times)) * (1 + .1 * i), times)
    for i in range(3)]
pop = chi.ComposedPopulationModel([
    chi.LogNormalModel(), chi.PooledModel(), chi.TruncatedGaussianModel()])
hll = chi.HierarchicalLogLikelihood(lls, pop)
log_prior = pints.ComposedLogPrior(*[pints.LogNormalLogPrior(0, 1)] * 5)
h_post = chi.HierarchicalLogPosterior(hll, log_prior)
i_post = chi.LogPosterior(
    lls[0], pints.ComposedLogPrior(*[pints.LogNormalLogPrior(0, 1)] * 3))
tg = chi.TruncatedGaussianModel()
prior_pred = chi.PriorPredictiveModel(
    chi.PredictiveModel(Toy(), chi.GaussianErrorModel()),
    pints.ComposedLogPrior(*[pints.LogNormalLogPrior(0, 1)] * 3))

calls = {
    'HierarchicalLogPosterior.sample_initial_parameters':
        lambda seed: h_post.sample_initial_parameters(2, seed=seed),
    'LogPosterior.sample_initial_parameters':
        lambda seed: i_post.sample_initial_parameters(2, seed=seed),
    'TruncatedGaussianModel.sample':
        lambda seed: tg.sample([1., 1.], n_samples=2, seed=seed),
    'PriorPredictiveModel.sample':
        lambda seed: prior_pred.sample(times, seed=seed)['Value'].to_numpy(),
    'SamplingController()':
        lambda seed: chi.SamplingController(h_post, seed=seed) and 0,
}

bad = False
for name, call in calls.items():
    # 1. Default call (seed=None) in a script that seeded numpy: the global
    #    stream that follows (used by pints optimisers / samplers and by
    #    log_prior.sample) has to remain determined by the caller's seed
    draws = []
    for _ in range(2):
        np.random.seed(7)
        call(None)
        draws.append(np.random.random())
    if draws[0] != draws[1]:
        bad = True
        print('%s: with the default seed=None the caller\'s np.random.seed(7) '
              'is discarded (re-seeded from entropy): next global draws '
              '%.6f vs %.6f in two identical runs' % (name, *draws))

    # 2. Seeded call: the result is determined by the seed; the global
    #    generator (state that belongs to the caller) has to be left as it
    #    was found
    np.random.seed(7)
    before = np.random.get_state()[1].copy()
    call(3)
    after = np.random.get_state()[1]
    if not np.array_equal(before, after):
        bad = True
        print('%s: seed=3 replaced the global numpy random state' % name)

if bad:
    print('VIOLATION: sampling has side effects on global hidden state.')
    sys.exit(1)
print('holds')
sys.exit(0)
