"""
C19 finding 1: ProblemModellingController.set_population_model keeps (and
reconfigures) the caller's population model object.  A second controller that
is given the same population model (another treatment group / dataset, the
usual way to reuse one model structure) re-sizes and re-names it, and thereby
changes or breaks the first controller.
"""
import sys
sys.path.insert(0, sys.argv[1])
import warnings
import numpy as np
import pandas as pd
import pints
import chi

warnings.simplefilter('ignore')


class Toy(chi.MechanisticModel):
    """y = a * exp(-b t); analytic, no solver needed."""
    def __init__(self, names=('a', 'b')):
        super().__init__()
        self._names = list(names)
        self._sens = False

    def enable_sensitivities(self, enabled, parameter_names=None):
        self._sens = bool(enabled)

    def has_sensitivities(self):
        return self._sens

    def n_outputs(self):
        return 1

    def n_parameters(self):
        return 2

    def outputs(self):
        return ['y']

    def parameters(self):
        return list(self._names)

    def simulate(self, parameters, times):
        a, b = parameters
        t = np.asarray(times, dtype=float)
        y = np.array([a * np.exp(-b * t)])
        if not self._sens:
            return y
        s = np.empty((len(t), 1, 2))
        s[:, 0, 0] = np.exp(-b * t)
        s[:, 0, 1] = -a * t * np.exp(-b * t)
        return y, s


def data(n_ids):
    rows = []
    for i in range(n_ids):
        for t in [0.5, 1., 2., 4.]:
            rows.append({
                'ID': 'id%d' % i, 'Time': t, 'Observable': 'y',
                'Value': np.exp(-.3 * t) * (1 + .1 * i)})
    return pd.DataFrame(rows)


def prior(n):
    return pints.ComposedLogPrior(*[pints.LogNormalLogPrior(0, 1)] * n)


bad = False

# One population model, used for two groups of individuals
pop = chi.ComposedPopulationModel([
    chi.HeterogeneousModel(), chi.PooledModel(), chi.GaussianModel()])

c_a = chi.ProblemModellingController(Toy(), chi.GaussianErrorModel())
c_a.set_data(data(2))
c_a.set_population_model(pop)
c_a.fix_parameters({'Pooled b': 0.3})
n_a = c_a.get_n_parameters()
names_a = c_a.get_parameter_names()
c_a.set_log_prior(prior(n_a))
post = c_a.get_log_posterior()
x = post.sample_initial_parameters(seed=1)[0]
ref = post(x)
print('controller A:', n_a, names_a, 'score', ref)

# Second controller for another group with the same population model
c_b = chi.ProblemModellingController(
    Toy(names=('c', 'd')), chi.GaussianErrorModel())
c_b.set_data(data(4))
c_b.set_population_model(pop)

# Controller A has only been read from since
try:
    if c_a.get_n_parameters() != n_a or \
            c_a.get_parameter_names() != names_a:
        bad = True
        print('controller A now reports', c_a.get_n_parameters(),
              c_a.get_parameter_names())
except Exception as e:
    bad = True
    print('controller A.get_parameter_names() now raises:', repr(e))
try:
    post2 = c_a.get_log_posterior()
    score = post2(x)
    if score != ref or post2.get_parameter_names() != \
            post.get_parameter_names():
        bad = True
        print('controller A now builds another posterior:', score,
              post2.get_parameter_names())
except Exception as e:
    bad = True
    print('controller A.get_log_posterior() now raises:', repr(e))

if bad:
    print('VIOLATION: configuring a second controller changed the first.')
    sys.exit(1)
print('holds')
sys.exit(0)
