"""
C19 finding 3: PopulationPredictiveModel (and the Prior/Posterior predictive
wrappers) keep the caller's PredictiveModel object and configure it in place.
Two population predictive models built from the same PredictiveModel (e.g. two
candidate population models, or two dose groups) are therefore not
independent: setting the dosing regimen of one silently changes the seeded
samples of the other, and changes the PredictiveModel of the caller.
(PredictiveModel itself copies the mechanistic / error models, and the
population model is copied since 129c0f2 - the predictive model is not.)
"""
import sys
sys.path.insert(0, sys.argv[1])
import warnings
import numpy as np
import chi

warnings.simplefilter('ignore')


class DosedToy(chi.MechanisticModel):
    """y = a * exp(-b t) + dose; analytic, no solver needed."""
    def __init__(self):
        super().__init__()
        self._dose = 0.

    def enable_sensitivities(self, enabled, parameter_names=None):
        pass

    def has_sensitivities(self):
        return False

    def n_outputs(self):
        return 1

    def n_parameters(self):
        return 2

    def outputs(self):
        return ['y']

    def parameters(self):
        return ['a', 'b']

    def supports_dosing(self):
        return True

    def set_dosing_regimen(
            self, dose, start=0, duration=0.01, period=None, num=None):
        self._dose = float(dose)

    def dosing_regimen(self):
        return None

    def simulate(self, parameters, times):
        a, b = parameters
        t = np.asarray(times, dtype=float)
        return np.array([a * np.exp(-b * t) + self._dose])


predictive_model = chi.PredictiveModel(DosedToy(), chi.GaussianErrorModel())
pop_1 = chi.ComposedPopulationModel(
    [chi.LogNormalModel(), chi.PooledModel(), chi.PooledModel()])
pop_2 = chi.ComposedPopulationModel(
    [chi.GaussianModel(), chi.PooledModel(), chi.PooledModel()])
group_1 = chi.PopulationPredictiveModel(predictive_model, pop_1)
group_2 = chi.PopulationPredictiveModel(predictive_model, pop_2)

theta = [0., .1, .3, .05]
times = [1., 2.]
indiv = [1., .3, .05]

group_1.set_dosing_regimen(dose=1.)
before = group_1.sample(theta, times, n_samples=3, seed=1, return_df=False)
before_indiv = predictive_model.sample(indiv, times, seed=1, return_df=False)

# Configure and evaluate the sibling
group_2.set_dosing_regimen(dose=100.)
group_2.sample(theta, times, n_samples=3, seed=1)

after = group_1.sample(theta, times, n_samples=3, seed=1, return_df=False)
after_indiv = predictive_model.sample(indiv, times, seed=1, return_df=False)

bad = False
if not np.array_equal(before, after):
    bad = True
    print('group_1.sample(seed=1) before / after group_2.set_dosing_regimen:')
    print(before.ravel())
    print(after.ravel())
if not np.array_equal(before_indiv, after_indiv):
    bad = True
    print('the caller\'s PredictiveModel changed as well:',
          before_indiv.ravel(), after_indiv.ravel())

if bad:
    print('VIOLATION: sibling predictive models share one PredictiveModel.')
    sys.exit(1)
print('holds')
sys.exit(0)
