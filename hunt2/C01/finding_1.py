"""
LogLikelihood.evaluateS1 on a custom chi.MechanisticModel whose sensitivities
were enabled for a subset of its parameters before the likelihood was built.

The likelihood is constructed without error and __call__ /
compute_pointwise_ll work, but evaluateS1 either raises or silently returns a
misaligned gradient: it trusts has_sensitivities() and never re-enables the
sensitivities for all (free) parameters of its copy of the model.
"""
import sys
sys.path.insert(0, sys.argv[1])
import numpy as np
import chi


class Toy(chi.MechanisticModel):
    """y_k(t) = a_k + b (k+1) t ; parameters a_0, ..., a_{n-1}, b."""
    def __init__(self, n_out):
        super().__init__()
        self._n_out = n_out
        self._sens = False
        self._names = None

    def enable_sensitivities(self, enabled, parameter_names=None):
        self._sens = bool(enabled)
        self._names = None
        if parameter_names is not None:
            self._names = [str(n) for n in parameter_names]

    def has_sensitivities(self):
        return self._sens

    def n_outputs(self):
        return self._n_out

    def n_parameters(self):
        return self._n_out + 1

    def outputs(self):
        return ['y%d' % k for k in range(self._n_out)]

    def parameters(self):
        return ['a%d' % k for k in range(self._n_out)] + ['b']

    def simulate(self, parameters, times):
        p = np.asarray(parameters, dtype=float)
        t = np.asarray(times, dtype=float)
        n = self._n_out
        out = np.empty((n, len(t)))
        for k in range(n):
            out[k] = p[k] + p[-1] * (k + 1) * t
        if not self._sens:
            return out
        names = self.parameters()
        sens = np.zeros((len(t), n, len(names)))
        for k in range(n):
            sens[:, k, k] = 1
            sens[:, k, -1] = (k + 1) * t
        if self._names is not None:
            keep = [i for i, name in enumerate(names) if name in self._names]
            sens = sens[:, :, keep]
        return out, sens


def finite_differences(ll, p):
    p = np.array(p, dtype=float)
    g = np.empty(len(p))
    for i in range(len(p)):
        h = 1e-6
        up = p.copy(); up[i] += h
        lo = p.copy(); lo[i] -= h
        g[i] = (ll(up) - ll(lo)) / 2 / h
    return g


failed = False

# Case 1: one output, Gaussian error: evaluateS1 raises
model = Toy(1)
model.enable_sensitivities(True, ['b'])
ll = chi.LogLikelihood(
    model, chi.GaussianErrorModel(), [1.0, 2.0, 2.5], [0.0, 1.0, 1.0])
p = [1.0, 0.5, 0.7]
print('case 1: score', ll(p), 'pointwise sum', ll.compute_pointwise_ll(p).sum())
model.enable_sensitivities(True, ['b'])
ll = chi.LogLikelihood(
    model, chi.GaussianErrorModel(), [1.0, 2.0, 2.5], [0.0, 1.0, 1.0])
try:
    score, grad = ll.evaluateS1(p)
    ref = finite_differences(ll, p)
    print('case 1: evaluateS1', score, grad, 'finite differences', ref)
    if not np.allclose(grad, ref, rtol=1e-4, atol=1e-6):
        failed = True
except Exception as e:
    print('case 1: evaluateS1 raised', repr(e))
    failed = True

# Case 2: two outputs, two error parameters each: wrong gradient, no error
model = Toy(2)
model.enable_sensitivities(True, ['a0', 'b'])
ems = [chi.ConstantAndMultiplicativeGaussianErrorModel(),
       chi.ConstantAndMultiplicativeGaussianErrorModel()]
obs = [[1.0, 2.0, 2.5], [2.0, 4.0]]
times = [[0.0, 1.0, 1.0], [1.0, 2.0]]
ll = chi.LogLikelihood(model, ems, obs, times)
p = [1.0, 1.2, 0.5, 0.7, 0.2, 0.6, 0.3]
try:
    score, grad = ll.evaluateS1(p)
    ref = finite_differences(ll, p)
    print('case 2: names             ', ll.get_parameter_names())
    print('case 2: evaluateS1 grad   ', grad)
    print('case 2: finite differences', ref)
    if not np.allclose(grad, ref, rtol=1e-4, atol=1e-6):
        print('case 2: gradient is misaligned')
        failed = True
except Exception as e:
    print('case 2: evaluateS1 raised', repr(e))
    failed = True

sys.exit(1 if failed else 0)
