"""
ReducedPopulationModel keeps the parameter count of the wrapped model from
construction time. When the wrapped CovariatePopulationModel is configured
afterwards through get_population_model() (set_population_parameters:
"this influences the number of model parameters"), n_parameters() and the
lengths of names / sensitivities disagree and fix_parameters raises.
(The same reconfiguration through ComposedPopulationModel.get_population_models
is supported since the counts are derived from the sub-models when needed.)
"""
import sys
sys.path.insert(0, sys.argv[1])
import numpy as np
import chi

cpm = chi.CovariatePopulationModel(
    chi.GaussianModel(n_dim=2), chi.LinearCovariateModel(n_cov=1))
model = chi.ReducedPopulationModel(cpm)

# Let the covariate only act on the mean of the first dimension
model.get_population_model().set_population_parameters([[0, 0]])

n_ids = 3
names = model.get_parameter_names()
n_parameters = model.n_parameters()
n_bottom, n_top = model.n_hierarchical_parameters(n_ids)
print('names (%d):' % len(names), names)
print('n_parameters():', n_parameters)
print('n_hierarchical_parameters(3):', (n_bottom, n_top))

rng = np.random.default_rng(3)
theta = np.array([1, 1.2, 0.5, 0.7, 0.1])  # 2 means, 2 stds, 1 beta
psi = rng.normal(1, 0.5, size=(n_ids, 2))
cov = rng.normal(size=(n_ids, 1))
up = rng.normal(size=(n_ids, 2))

failed = False
score, dpsi, dtheta = model.compute_sensitivities(
    theta, psi, dlogp_dpsi=up, covariates=cov)
score, dscore = model.compute_sensitivities(
    theta, psi, dlogp_dpsi=up, covariates=cov, reduce=True)
print('len(dtheta) separate form:', len(dtheta))
print('len(dscore) hierarchical form:', len(dscore))
if not (len(dtheta) == n_parameters == len(names) == n_top):
    print('-> sensitivities / names do not match the reported parameter count')
    failed = True
if len(dscore) != n_bottom + n_top:
    failed = True

# Fixing a parameter of the reconfigured model
try:
    model.fix_parameters({names[0]: 1})
    score2, dpsi2, dtheta2 = model.compute_sensitivities(
        theta[1:], psi, dlogp_dpsi=up, covariates=cov)
    ok = np.isclose(score, score2) and np.allclose(dtheta2, dtheta[1:]) \
        and (model.n_parameters() == 4 == len(model.get_parameter_names()))
    print('after fix_parameters: consistent:', bool(ok))
    failed = failed or not ok
except Exception as e:
    print('fix_parameters / evaluation after reconfiguration raises:')
    print('   ', repr(e))
    failed = True

sys.exit(1 if failed else 0)
