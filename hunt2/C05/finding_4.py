"""
TruncatedGaussianModel documents p(psi | mu, sigma) = 0 for psi <= 0, but an
individual parameter of exactly 0 is scored with the finite Gaussian
log-density (only psi < 0 is rejected). LogNormalModel, whose support is
documented in the same way, returns -inf at psi = 0.
"""
import sys
sys.path.insert(0, sys.argv[1])
import numpy as np
import chi

failed = False
model = chi.TruncatedGaussianModel(n_dim=2)
theta = np.array([1, 0.5, 1, 2])
psi = np.array([[0.3, 1.2], [0.0, 0.7], [2.1, 0.4]])  # individual 2: psi = 0

score = model.compute_log_likelihood(theta, psi)
s, dpsi, dtheta = model.compute_sensitivities(theta, psi)
print('TruncatedGaussianModel, one psi = 0 : log-likelihood', score,
      '| compute_sensitivities score', s)
print('documented density at psi <= 0 is 0, i.e. expected -inf')
if np.isfinite(score) or np.isfinite(s):
    failed = True

# Same through a composed model and for psi = -0.0
composed = chi.ComposedPopulationModel(
    [chi.TruncatedGaussianModel(n_dim=1), chi.PooledModel(n_dim=1)])
score = composed.compute_log_likelihood(
    [1, 1, 2], np.array([[-0.0, 2], [1, 2]]))
print('Composed [TruncatedGaussian, Pooled], psi = -0.0:', score)
if np.isfinite(score):
    failed = True

# For comparison
psi[1, 0] = -1E-300
print('psi = -1e-300:', model.compute_log_likelihood(theta, psi))
print('LogNormalModel at psi = 0:', chi.LogNormalModel().compute_log_likelihood(
    [0, 1], np.array([[0.0]])))

sys.exit(1 if failed else 0)
