"""
ComposedPopulationModel: the hierarchical ("reduce=True") return form of
compute_sensitivities only works for the number of individuals stored in the
model, although value, separate form and every constituent model work for any
number of individuals (and set_n_ids documents that n_ids is ignored by models
without heterogeneous parts).
"""
import sys
sys.path.insert(0, sys.argv[1])
import numpy as np
import chi

rng = np.random.default_rng(1)
parts = [chi.GaussianModel(n_dim=1), chi.LogNormalModel(n_dim=2)]
model = chi.ComposedPopulationModel(
    [chi.GaussianModel(n_dim=1), chi.LogNormalModel(n_dim=2)])

n_ids = 3
psi = np.abs(rng.normal(1, 0.3, size=(n_ids, 3))) + 0.1
theta = np.array([1, 0.5, 0.1, 0.2, 0.5, 0.6])
up = rng.normal(size=(n_ids, 3))

# Reference: sum of the parts on their own dimensions / parameters
s1, d1 = parts[0].compute_sensitivities(
    theta[:2], psi[:, :1], dlogp_dpsi=up[:, :1], reduce=True)
s2, d2 = parts[1].compute_sensitivities(
    theta[2:], psi[:, 1:], dlogp_dpsi=up[:, 1:], reduce=True)
ref_score = s1 + s2
ref_dpsi = np.hstack([
    d1[:n_ids].reshape(n_ids, 1), d2[:2 * n_ids].reshape(n_ids, 2)])
ref = np.hstack([ref_dpsi.flatten(), d1[n_ids:], d2[2 * n_ids:]])

failed = False

# Value and separate form are fine for 3 individuals
score = model.compute_log_likelihood(theta, psi)
s, dpsi, dtheta = model.compute_sensitivities(theta, psi, dlogp_dpsi=up)
print('value            :', score, '(reference %f)' % ref_score)
print('separate form ok :', bool(
    np.isclose(s, ref_score) and np.allclose(dpsi, ref_dpsi)
    and np.allclose(dtheta, ref[3 * n_ids:])))

# Hierarchical form
try:
    s, dscore = model.compute_sensitivities(
        theta, psi, dlogp_dpsi=up, reduce=True)
    ok = np.isclose(s, ref_score) and (len(dscore) == len(ref)) and \
        np.allclose(dscore, ref)
    print('hierarchical form agrees:', bool(ok))
    failed = failed or not ok
except Exception as e:
    print('hierarchical form (reduce=True) for %d individuals raises:' % n_ids)
    print('   ', repr(e))
    failed = True

# Same model after it has been told about 3 individuals, evaluated for a
# subgroup of 2 individuals
model.set_n_ids(3)
try:
    s, dscore = model.compute_sensitivities(
        theta, psi[:2], dlogp_dpsi=up[:2], reduce=True)
    n_b, n_t = model.n_hierarchical_parameters(2)
    ok = len(dscore) == n_b + n_t
    print('2 individuals after set_n_ids(3): length ok:', ok)
    failed = failed or not ok
except Exception as e:
    print('2 individuals after set_n_ids(3) raises:', repr(e))
    failed = True

sys.exit(1 if failed else 0)
