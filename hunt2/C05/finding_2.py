"""
TruncatedGaussianModel.compute_sensitivities: for mu / sigma << 0 (every real
mu is in the support) the derivatives with respect to mu and sigma are computed
as a difference of two huge numbers ((psi - mu) / sigma minus the hazard
phi / Phi evaluated through exp(logpdf - log_ndtr)), so the returned gradient
is not the derivative of the (correctly computed) log-likelihood any more:
relative errors of ~1e-3 at mu/sigma = -2000 and > 50 % at mu/sigma = -1e4.
"""
import sys
sys.path.insert(0, sys.argv[1])
import numpy as np
import chi


def reference(mu, sigma, psi):
    """
    d/dmu and d/dsigma of the documented log-density for t = -mu/sigma >> 1,
    using the asymptotic expansion of the Mills ratio, which is free of
    cancellation:  hazard(t) - t = t a / (1 - a),
    a = 1/t^2 - 3/t^4 + 15/t^6 - 105/t^8.
    """
    t = -mu / sigma
    a = 1 / t**2 - 3 / t**4 + 15 / t**6 - 105 / t**8
    delta = t * a / (1 - a)           # hazard - t
    t_delta = t**2 * a / (1 - a)      # t * (hazard - t)
    x = psi / sigma
    dmu = (x - delta) / sigma
    dsigma = (-1 + x**2 + 2 * t * x - t_delta) / sigma
    return np.array([dmu, dsigma])


def central_difference(model, mu, sigma, psi):
    """
    Independent check: difference quotient of the model's own log-likelihood
    in mu, with a step that keeps the truncation error below 1e-3.
    """
    h = 1E-3 * abs(mu)
    up = model.compute_log_likelihood([mu + h, sigma], [[psi]])
    down = model.compute_log_likelihood([mu - h, sigma], [[psi]])
    return (up - down) / (2 * h)


model = chi.TruncatedGaussianModel()
failed = False
print('mu/sigma   d/dmu (chi)   d/dmu (ref)   d/dsigma (chi)  d/dsigma (ref)'
      '   max rel. error')
# psi is an ordinary draw of the population: the truncated distribution is
# close to an exponential distribution with mean sigma^2 / |mu|
for mu, sigma in [
        (-100, 1), (-1000, 1), (-2000, 1), (-5, 1E-3), (-10, 1E-3),
        (-40000, 2)]:
    psi = 3 * sigma**2 / abs(mu)
    _, _, dtheta = model.compute_sensitivities([mu, sigma], [[psi]])
    ref = reference(mu, sigma, psi)
    err = np.max(np.abs(dtheta - ref) / np.abs(ref))
    print('%8.0f  %13.6e %13.6e  %13.6e %13.6e   %.1e' % (
        mu / sigma, dtheta[0], ref[0], dtheta[1], ref[1], err))
    if mu / sigma > -200:
        # Sanity check of the reference where chi is still accurate
        assert err < 1E-6, 'reference is wrong'
    if err > 1E-4:
        failed = True

# The log-likelihood itself is fine, so the gradient really disagrees with the
# function it is supposed to differentiate
mu, sigma = -10, 1E-3
psi = 5 * sigma**2 / abs(mu)
_, _, dtheta = model.compute_sensitivities([mu, sigma], [[psi]])
fd = central_difference(model, mu, sigma, psi)
print('mu=-10, sigma=1e-3, psi=%.1e: d/dmu chi %.5f, reference %.5f, '
      'difference quotient of chi\'s own log-likelihood %.5f' % (
          psi, dtheta[0], reference(mu, sigma, psi)[0], fd))

sys.exit(1 if failed else 0)
