# A measurement <= 0 (e.g. a value reported as 0) has log-normal density 0, so
# the log-normal filters should score -inf.  Unpadded they return NaN; as soon
# as the measurement array contains one np.nan the non-positive measurement is
# masked by np.log in the constructor and silently dropped (finite score).
import sys
sys.path.insert(0, sys.argv[1])
import warnings
import numpy as np
import chi

warnings.simplefilter('ignore')
rng = np.random.default_rng(3)
obs = np.exp(rng.normal(0, 0.5, (4, 1, 3)))
sim = np.exp(rng.normal(0, 0.5, (6, 1, 3)))
violated = False
for bad in [0.0, -0.3]:
    o = obs.copy()
    o[1, 0, 1] = bad
    pad = np.concatenate([o, np.full((1, 1, 3), np.nan)])
    without = np.where(o > 0, o, np.nan)     # the measurement removed
    for cls in [chi.LogNormalFilter, chi.LogNormalKDEFilter]:
        try:
            plain = float(cls(o).compute_log_likelihood(sim))
            padded = float(cls(pad).compute_log_likelihood(sim))
            padded_s1 = float(cls(pad).compute_sensitivities(sim)[0])
        except ValueError as e:
            print(cls.__name__, bad, 'rejected:', e)
            continue
        ref = float(cls(without).compute_log_likelihood(sim))
        print('%-19s y=%4s: unpadded %s | padded %s (S1 %s) | measurement '
              'removed %s | expected -inf' % (
                  cls.__name__, bad, plain, padded, padded_s1, ref))
        if not (plain == -np.inf and padded == -np.inf
                and padded_s1 == -np.inf):
            violated = True
if violated:
    print('VIOLATION: NaN without padding, and with padding the non-positive '
          'measurement is silently left out of the sum.')
    sys.exit(1)
sys.exit(0)
