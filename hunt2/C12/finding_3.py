# LogNormalKDEFilter documents the bandwidth
#   sigma_j = (4 / 3 n_s)^(1/5) * sqrt(1/(n_j - 1) sum_i (log y_ij - mu_j)^2)
# estimated from the MEASUREMENTS ("Note that this deviates from the standard
# definition ... estimated from the simulated measurements"), but the code
# uses the variance of the simulated log-measurements.
import sys
sys.path.insert(0, sys.argv[1])
import numpy as np
from scipy.special import logsumexp
from scipy.stats import lognorm
import chi


def reference(obs, sim, from_measurements):
    n_s = len(sim)
    score = 0
    for r in range(obs.shape[1]):
        for j in range(obs.shape[2]):
            y = obs[:, r, j]
            y = y[~np.isnan(y)]
            source = np.log(y) if from_measurements else np.log(sim[:, r, j])
            bw = (4 / 3 / n_s) ** 0.2 * np.std(source, ddof=1)
            for yi in y:
                score += logsumexp(
                    lognorm.logpdf(yi, s=bw, scale=sim[:, r, j])) - np.log(n_s)
    return score


rng = np.random.default_rng(1)
obs = np.exp(rng.normal(0, 0.3, (6, 2, 3)))
obs[0, 0, 1] = np.nan
sim = np.exp(rng.normal(0, 0.9, (8, 2, 3)))
value = chi.LogNormalKDEFilter(obs).compute_log_likelihood(sim)
documented = reference(obs, sim, True)
standard = reference(obs, sim, False)
print('filter value                                 ', value)
print('documented (bandwidth from the measurements) ', documented)
print('bandwidth from the simulated measurements    ', standard)
if not np.isclose(value, documented, rtol=1e-8):
    print('VIOLATION: the value is not the documented estimator.')
    sys.exit(1)
sys.exit(0)
