# All simulated individuals share one value at a time point (sample variance 0):
# the score depends on whether the measurements are padded with np.nan.
# Unpadded: NaN.  Padded: a finite score from which the whole time point has
# silently been left out (np.ma masks the division by the zero variance).
import sys
sys.path.insert(0, sys.argv[1])
import warnings
import numpy as np
import chi

warnings.simplefilter('ignore')
rng = np.random.default_rng(3)
obs = np.exp(rng.normal(0, 0.5, (4, 1, 3)))
sim = np.exp(rng.normal(0, 0.5, (6, 1, 3)))
sim[:, 0, 0] = 1.3          # e.g. y(t=0) identical for every simulated individual
pad = np.concatenate([obs, np.full((1, 1, 3), np.nan)])   # one padded row

filters = [
    ('GaussianFilter', chi.GaussianFilter, {}),
    ('LogNormalFilter', chi.LogNormalFilter, {}),
    ('GaussianKDEFilter', chi.GaussianKDEFilter, {}),
    ('LogNormalKDEFilter', chi.LogNormalKDEFilter, {}),
    ('GaussianMixtureFilter', chi.GaussianMixtureFilter, {'n_kernels': 2}),
]
violated = False
for name, cls, kw in filters:
    plain = float(cls(obs, **kw).compute_log_likelihood(sim))
    padded = float(cls(pad, **kw).compute_log_likelihood(sim))
    padded_s1 = float(cls(pad, **kw).compute_sensitivities(sim)[0])
    # score of the data set from which time point 0 has been removed
    dropped = float(cls(obs[:, :, 1:], **kw).compute_log_likelihood(
        sim[:, :, 1:]))
    same = (plain == padded) or (np.isnan(plain) and np.isnan(padded))
    print('%-22s unpadded %s | padded %s (S1 %s) | data without t_0 %s' % (
        name, plain, padded, padded_s1, dropped))
    if not same or np.isfinite(padded) or np.isfinite(padded_s1):
        violated = True
if violated:
    print('VIOLATION: padding with np.nan changes the score; the padded '
          'score is finite and equals the score of the data without the '
          'degenerate time point (its measurements are silently ignored).')
    sys.exit(1)
sys.exit(0)
