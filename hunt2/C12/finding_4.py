# LogNormalKDEFilter(observations, bandwidth=...) accepts a bandwidth ("the
# scale (or bandwidth) is a hyperparameter. By default the bandwidth is chosen
# by an adapted rule of thumb") but ignores it: every value gives the
# rule-of-thumb score.
import sys
sys.path.insert(0, sys.argv[1])
import numpy as np
from scipy.special import logsumexp
from scipy.stats import lognorm
import chi

rng = np.random.default_rng(2)
obs = np.exp(rng.normal(0, 0.4, (5, 1, 2)))
sim = np.exp(rng.normal(0, 0.4, (8, 1, 2)))
try:
    default = chi.LogNormalKDEFilter(obs).compute_log_likelihood(sim)
    narrow = chi.LogNormalKDEFilter(
        obs, bandwidth=0.05).compute_log_likelihood(sim)
    wide = chi.LogNormalKDEFilter(
        obs, bandwidth=5.0).compute_log_likelihood(sim)
except TypeError as e:
    print('bandwidth is no longer accepted:', e)
    sys.exit(0)


def reference(bw):
    return sum(
        logsumexp(lognorm.logpdf(y, s=bw, scale=sim[:, 0, j])) - np.log(8)
        for j in range(2) for y in obs[:, 0, j])


print('default %s | bandwidth=0.05 %s (KDE with 0.05: %s) | bandwidth=5 %s '
      '(KDE with 5: %s)' % (
          default, narrow, reference(0.05), wide, reference(5.0)))
if narrow == default and wide == default:
    print('VIOLATION: the bandwidth argument has no effect.')
    sys.exit(1)
sys.exit(0)
