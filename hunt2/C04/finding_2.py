"""
C04 finding 2: LogNormalErrorModel evaluates log(observations) in the
precision numpy derives from the dtype of the observations instead of in
double precision.

Observations stored as small integers (counts in uint8 / int8) are
logarithmised in float16, (u)int16 and float32 observations in float32.  The
model outputs, sigma and the observations are all exactly representable, so
the documented density has one well defined value, but the returned
log-likelihood, pointwise values and sensitivities are off by up to ~1e-1
(uint8) or ~1e-6..1e-5 (float32/int16).  The Gaussian models are not affected
(float64 model outputs promote the arithmetic).
"""
import sys
sys.path.insert(0, sys.argv[1])
import warnings
import numpy as np
import chi

warnings.simplefilter('ignore')

rng = np.random.default_rng(3)
n = 200
ybar = rng.uniform(20, 200, n)                       # float64 model outputs
counts = np.round(ybar * np.exp(rng.normal(0, .3, n))).clip(1, 250)
sens = rng.normal(size=(n, 2))
sigma = [0.4]


def reference(sigma, ybar, y, sens):
    # Documented density, everything in double precision
    y = np.array(y, dtype=np.float64)
    e = np.log(y) - np.log(ybar) + sigma**2 / 2
    pw = -np.log(2 * np.pi) / 2 - np.log(sigma) - np.log(y) \
        - e**2 / 2 / sigma**2
    dpsi = np.sum((e / ybar)[:, None] * sens, axis=0) / sigma**2
    dsig = -np.sum(e) / sigma + np.sum(e**2) / sigma**3 - len(y) / sigma
    return pw, np.append(dpsi, dsig)


model = chi.LogNormalErrorModel()
violated = False
for dtype in [np.float64, np.int64, np.uint8, np.int16, np.float32]:
    obs = counts.astype(dtype)     # exact: the counts are integers <= 250
    assert np.all(obs.astype(float) == counts)
    pw_ref, s_ref = reference(sigma[0], ybar, obs, sens)
    total = model.compute_log_likelihood(sigma, ybar, obs)
    pw = model.compute_pointwise_ll(sigma, ybar, obs)
    score, s = model.compute_sensitivities(sigma, ybar, sens, obs)
    err_total = abs(total - pw_ref.sum())
    err_pw = np.max(np.abs(pw - pw_ref))
    err_s = np.max(np.abs(s - s_ref))
    ok = err_total < 1e-8 and err_pw < 1e-9 and err_s < 1e-8 \
        and abs(score - pw_ref.sum()) < 1e-8
    print(
        '%-8s error of total %.2e, of pointwise values %.2e, of '
        'sensitivities %.2e   %s' % (
            np.dtype(dtype).name, err_total, err_pw, err_s,
            'ok' if ok else 'VIOLATION'))
    if not ok:
        violated = True

sys.exit(1 if violated else 0)
