"""
C04 finding 1: LogNormalErrorModel.compute_pointwise_ll returns -inf for EVERY
observation as soon as ONE observation (or one model output) is non-positive.

The documented pointwise value is log p(y_j | ybar_j, sigma_log) for the j-th
pair alone; for pairs with y_j > 0 and ybar_j > 0 that is a finite number.
(Introduced for observations by the repair 'LogNormalErrorModel scores -inf
for non-positive observations'; before it only the offending entry was
non-finite.)
"""
import sys
sys.path.insert(0, sys.argv[1])
import warnings
import numpy as np
import chi

warnings.simplefilter('ignore')


def log_density(sigma, ybar, y):
    # Documented density of the class, evaluated for one pair
    if sigma <= 0 or ybar <= 0 or y <= 0:
        return -np.inf
    return (
        -np.log(2 * np.pi) / 2 - np.log(sigma) - np.log(y)
        - (np.log(y) - np.log(ybar) + sigma**2 / 2)**2 / 2 / sigma**2)


violated = False
sigma = [0.5]
cases = {
    'one observation is 0 (e.g. a BLQ record)':
        ([1., 2., 3., 4.], [1.2, 0., 3.1, 3.7]),
    'one model output is 0 (e.g. concentration before the dose)':
        ([0., 2., 3., 4.], [0.1, 1.9, 3.1, 3.7]),
}
for label, (ybar, y) in cases.items():
    ref = np.array([log_density(sigma[0], a, b) for a, b in zip(ybar, y)])
    for name, model in [
            ('LogNormalErrorModel', chi.LogNormalErrorModel()),
            ('ReducedErrorModel(LogNormalErrorModel)',
             chi.ReducedErrorModel(chi.LogNormalErrorModel()))]:
        pw = np.asarray(model.compute_pointwise_ll(sigma, ybar, y))
        total = model.compute_log_likelihood(sigma, ybar, y)
        print(label, '-', name)
        print('  documented log p(y_j | ...):', ref)
        print('  compute_pointwise_ll       :', pw)
        print('  total (should be -inf)     :', total)
        same = np.all(
            (np.isneginf(ref) & np.isneginf(pw))
            | (np.isfinite(ref) & np.isclose(pw, ref)))
        if not same:
            violated = True
            print('  -> VIOLATION: pairs inside the support are scored -inf')

# The same through the public LogLikelihood (one output, toy model)


class Line(chi.MechanisticModel):
    def __init__(self):
        super(Line, self).__init__()
        self._s = False

    def enable_sensitivities(self, enabled, parameter_names=None):
        self._s = bool(enabled)

    def has_sensitivities(self):
        return self._s

    def n_outputs(self):
        return 1

    def n_parameters(self):
        return 1

    def outputs(self):
        return ['y']

    def parameters(self):
        return ['slope']

    def supports_dosing(self):
        return False

    def simulate(self, parameters, times):
        t = np.asarray(times, dtype=float)
        y = (parameters[0] * t)[np.newaxis, :]
        if self._s:
            return y, t[:, np.newaxis, np.newaxis].copy()
        return y


times = [0., 1., 2., 3.]   # the output at t=0 is exactly 0
obs = [0.1, 1.1, 1.9, 3.2]
ll = chi.LogLikelihood(Line(), chi.LogNormalErrorModel(), obs, times)
pw = ll.compute_pointwise_ll([1., 0.5])
ref = np.array([log_density(0.5, a, b) for a, b in zip(times, obs)])
print('LogLikelihood.compute_pointwise_ll:', pw)
print('documented                        :', ref)
if not np.all(
        (np.isneginf(ref) & np.isneginf(pw))
        | (np.isfinite(ref) & np.isclose(pw, ref))):
    violated = True
    print('  -> VIOLATION')

sys.exit(1 if violated else 0)
