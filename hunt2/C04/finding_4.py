"""
C04 finding 4: ReducedErrorModel.compute_sensitivities raises AttributeError
for output sensitivities given as a nested list, although the parameter is
documented as 'an array-like object' and both the wrapped error model and the
same ReducedErrorModel WITHOUT fixed parameters accept the list and return the
documented derivatives.  (The model outputs, observations and parameters may be
lists in every method.)
"""
import sys
sys.path.insert(0, sys.argv[1])
import warnings
import numpy as np
import chi

warnings.simplefilter('ignore')

ybar = [1., 2., 3.]
obs = [1.2, 1.9, 3.1]
sens = [[1., 0.], [0.5, 2.], [0.3, 1.]]        # (t, p) = (3, 2)

violated = False
for cls in [
        chi.GaussianErrorModel, chi.LogNormalErrorModel,
        chi.MultiplicativeGaussianErrorModel,
        chi.ConstantAndMultiplicativeGaussianErrorModel]:
    model = cls()
    names = model.get_parameter_names()
    full = [0.7, 0.3][:len(names)]
    score, dscore = model.compute_sensitivities(full, ybar, sens, obs)

    reduced = chi.ReducedErrorModel(cls())
    # Nothing fixed: lists are fine
    s0, d0 = reduced.compute_sensitivities(full, ybar, sens, obs)
    assert np.isclose(s0, score) and np.allclose(d0, dscore)

    # Fix the last error parameter at the value used above
    reduced.fix_parameters({names[-1]: full[-1]})
    free = full[:-1]
    expected = dscore[:-1]
    try:
        s1, d1 = reduced.compute_sensitivities(free, ybar, sens, obs)
        ok = np.isclose(s1, score) and np.allclose(d1, expected)
        print(cls.__name__, 'reduced:', s1, d1, 'ok' if ok else 'WRONG')
        if not ok:
            violated = True
    except Exception as e:
        violated = True
        print(
            cls.__name__, 'reduced: raises %s: %s   (expected %s, %s)' % (
                type(e).__name__, e, score, expected))

sys.exit(1 if violated else 0)
