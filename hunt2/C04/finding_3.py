"""
C04 finding 3: the Gaussian error models whose standard deviation depends on
the output compute sigma_tot**2 and sigma_tot**3 in the dtype of the inputs.
When parameters and model outputs are integers (plain Python lists of ints are
array-like; chi's own docs evaluate likelihoods at parameters = [1, 1, ...])
sigma_tot is an int64 array and the powers wrap around silently:

 - sigma_tot > 2.1e6 (e.g. cell counts): sigma_tot**3 overflows, the
   sensitivities of MultiplicativeGaussianErrorModel and
   ConstantAndMultiplicativeGaussianErrorModel are wrong, while the score
   returned next to them is right;
 - sigma_tot > 3.04e9: sigma_tot**2 overflows as well, the log-likelihood
   itself and the pointwise values are wrong.

The same numbers passed as floats give the documented values.
"""
import sys
sys.path.insert(0, sys.argv[1])
import warnings
import numpy as np
import chi

warnings.simplefilter('ignore')
violated = False


def compare(label, a, b):
    global violated
    a = np.asarray(a, dtype=float)
    b = np.asarray(b, dtype=float)
    ok = np.allclose(a, b, rtol=1e-6, atol=0)
    print('  %-28s ints: %s\n  %-28s floats: %s   %s' % (
        label, a, '', b, 'ok' if ok else 'VIOLATION'))
    if not ok:
        violated = True


models = [
    (chi.MultiplicativeGaussianErrorModel(), [1]),
    (chi.ConstantAndMultiplicativeGaussianErrorModel(), [1, 1])]

# 1. Cell counts of a few million: sensitivities
ybar = [2000000, 3000000, 2500000]
obs = [2600000, 2000000, 2500000]
sens = [[1, 0], [0, 1], [1, 1]]
fl = lambda x: np.asarray(x, dtype=float)  # noqa
for model, sigma in models:
    print(type(model).__name__, '- outputs ~ 2e6')
    l_i, s_i = model.compute_sensitivities(sigma, ybar, sens, obs)
    l_f, s_f = model.compute_sensitivities(
        fl(sigma), fl(ybar), fl(sens), fl(obs))
    compare('score', l_i, l_f)
    compare('sensitivities', s_i, s_f)

# 2. Cell counts of a few billion: the value itself
ybar = [4000000000, 5000000000, 3500000000]
obs = [4600000000, 3000000000, 3500000000]
for model, sigma in models:
    print(type(model).__name__, '- outputs ~ 4e9')
    compare(
        'log-likelihood',
        model.compute_log_likelihood(sigma, ybar, obs),
        model.compute_log_likelihood(fl(sigma), fl(ybar), fl(obs)))
    compare(
        'pointwise',
        model.compute_pointwise_ll(sigma, ybar, obs),
        model.compute_pointwise_ll(fl(sigma), fl(ybar), fl(obs)))

sys.exit(1 if violated else 0)
