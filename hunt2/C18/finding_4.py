"""
C18 finding 4

OptimisationController.run for a hierarchical posterior: the IDs that the
posterior reports for its parameters (get_id(): the individual's ID for
bottom-level parameters, None for population-level parameters) do not arrive
in the 'ID' column of the result table. With pandas >= 3 (allowed by
install_requires 'pandas>=0.24') the assignment run_result['ID'] = [...]
infers a string column and turns every None into a float NaN. Consumers that
follow the documented convention 'ID is None <=> population level' - the
library's own ParameterEstimatePlot tests ``individual is None`` - then find
no population-level estimate at all: the figure contains empty traces called
'nan' for every population parameter.
"""
import sys
import warnings

sys.path.insert(0, sys.argv[1] if len(sys.argv) > 1 else '/repo')

import numpy as np  # noqa: E402
import pandas as pd  # noqa: E402
import pints  # noqa: E402
import chi  # noqa: E402
import chi.plots  # noqa: E402

warnings.simplefilter('ignore')


class Toy(chi.MechanisticModel):
    """y(t) = a * exp(-b t)"""
    def __init__(self):
        super(Toy, self).__init__()
        self._sens = False

    def copy(self):
        import copy
        return copy.deepcopy(self)

    def enable_sensitivities(self, enabled, parameter_names=None):
        self._sens = bool(enabled)

    def has_sensitivities(self):
        return self._sens

    def n_outputs(self):
        return 1

    def n_parameters(self):
        return 2

    def outputs(self):
        return ['y']

    def parameters(self):
        return ['a', 'b']

    def simulate(self, parameters, times):
        a, b = parameters[0], parameters[1]
        times = np.asarray(times, dtype=float)
        return (a * np.exp(-b * times))[np.newaxis, :]

    def supports_dosing(self):
        return False

    def time_unit(self):
        return None


times = np.array([0.5, 1., 2., 3.])
rng = np.random.default_rng(0)
log_likelihoods = []
for _id in ['mouse 1', 'mouse 2']:
    y = 2 * np.exp(-0.5 * times) + 0.1 * rng.normal(size=4)
    ll = chi.LogLikelihood(Toy(), chi.GaussianErrorModel(), y, times)
    ll.set_id(_id)
    log_likelihoods.append(ll)
population_model = chi.ComposedPopulationModel([
    chi.LogNormalModel(), chi.PooledModel(), chi.PooledModel()])
log_posterior = chi.HierarchicalLogPosterior(
    chi.HierarchicalLogLikelihood(log_likelihoods, population_model),
    pints.ComposedLogPrior(*[pints.LogNormalLogPrior(0, 0.3)] * 4))

np.random.seed(1)
controller = chi.OptimisationController(log_posterior, seed=1)
controller.set_n_runs(2)
controller.set_parallel_evaluation(False)
controller.set_optimiser(pints.NelderMead)
table = controller.run(n_max_iterations=20)

print('pandas', pd.__version__)
expected_ids = log_posterior.get_id()
names = log_posterior.get_parameter_names()
violated = False
for run in [1, 2]:
    rows = table[table['Run'] == run]
    assert list(rows['Parameter']) == names
    for name, expected, found in zip(names, expected_ids, rows['ID']):
        same = (found is None) if expected is None else (found == expected)
        if run == 1:
            print('  %-16s posterior ID: %-8r table ID: %r %s' % (
                name, expected, found, '' if same else '<-- differs'))
        if not same:
            violated = True

# Documented way to recognise population-level estimates
n_population = sum(_id is None for _id in table['ID'])
print(
    'rows with ID None (population level): %d, expected %d' % (
        n_population, 2 * sum(_id is None for _id in expected_ids)))

# Consequence in the library's own consumer of the table (illustration only)
try:
    fig = chi.plots.ParameterEstimatePlot()
    fig.add_data(table)
    for f in fig._figs:
        for trace in f.data:
            print('  figure %-16s trace %-10r number of estimates: %d' % (
                f.layout.yaxis.title.text, trace.name,
                0 if trace.y is None else len(trace.y)))
except Exception as e:  # pragma: no cover
    print('  ParameterEstimatePlot raises %s: %s' % (type(e).__name__, e))

if violated:
    print(
        'VIOLATION: the optimisation table does not pair the population-'
        'level estimates with the ID (None) of the posterior.')
    sys.exit(1)

print('Property holds.')
sys.exit(0)
