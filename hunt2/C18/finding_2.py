"""
C18 finding 2

OptimisationController with a search-space transformation (set_transform):
the 'Score' column of the returned table is not the log-posterior of the
'Estimate' column of the same run, and the estimates are not the maximum a
posteriori estimates that run() documents. pints.OptimisationController turns
the log-posterior into a pints.TransformedLogPDF, which adds the log-Jacobian
of the transformation, so the optimiser maximises (and reports) a different
function. Without the transformation the table is consistent.
"""
import sys
import warnings

sys.path.insert(0, sys.argv[1] if len(sys.argv) > 1 else '/repo')

import numpy as np  # noqa: E402
import pints  # noqa: E402
import chi  # noqa: E402

warnings.simplefilter('ignore')


class Toy(chi.MechanisticModel):
    """y(t) = a * exp(-b t)"""
    def __init__(self):
        super(Toy, self).__init__()
        self._sens = False

    def copy(self):
        import copy
        return copy.deepcopy(self)

    def enable_sensitivities(self, enabled, parameter_names=None):
        self._sens = bool(enabled)

    def has_sensitivities(self):
        return self._sens

    def n_outputs(self):
        return 1

    def n_parameters(self):
        return 2

    def outputs(self):
        return ['y']

    def parameters(self):
        return ['a', 'b']

    def simulate(self, parameters, times):
        a, b = parameters[0], parameters[1]
        times = np.asarray(times, dtype=float)
        return (a * np.exp(-b * times))[np.newaxis, :]

    def supports_dosing(self):
        return False

    def time_unit(self):
        return None


times = np.array([0.5, 1., 2., 3.])
rng = np.random.default_rng(0)


def log_prior(n):
    return pints.ComposedLogPrior(
        *[pints.LogNormalLogPrior(0, 0.3) for _ in range(n)])


def individual_posterior():
    y = 2 * np.exp(-0.5 * times) + 0.1 * rng.normal(size=4)
    ll = chi.LogLikelihood(Toy(), chi.GaussianErrorModel(), y, times)
    ll.set_id('A')
    return chi.LogPosterior(ll, log_prior(3))


def hierarchical_posterior():
    lls = []
    for _ in range(2):
        y = 2 * np.exp(-0.5 * times) + 0.1 * rng.normal(size=4)
        lls.append(
            chi.LogLikelihood(Toy(), chi.GaussianErrorModel(), y, times))
    pop = chi.ComposedPopulationModel([
        chi.LogNormalModel(), chi.PooledModel(), chi.PooledModel()])
    hl = chi.HierarchicalLogLikelihood(lls, pop)
    return chi.HierarchicalLogPosterior(hl, log_prior(4))


violated = False
for name, posterior in [
        ('LogPosterior', individual_posterior()),
        ('HierarchicalLogPosterior', hierarchical_posterior())]:
    n = posterior.n_parameters()
    best = {}
    for label, transform in [
            ('no transform', None),
            ('LogTransformation', pints.LogTransformation(n))]:
        np.random.seed(1)
        controller = chi.OptimisationController(posterior, seed=1)
        controller.set_n_runs(2)
        controller.set_parallel_evaluation(False)
        controller.set_optimiser(pints.NelderMead)  # deterministic
        if transform is not None:
            controller.set_transform(transform)
        table = controller.run(n_max_iterations=2000)

        for run in [1, 2]:
            rows = table[table['Run'] == run]
            estimates = rows['Estimate'].to_numpy(dtype=float)
            score = float(rows['Score'].iloc[0])
            actual = float(posterior(estimates))
            consistent = abs(score - actual) < 1e-6
            best.setdefault(label, -np.inf)
            best[label] = max(best[label], actual)
            print(
                '%-24s %-17s run %d: Score = %10.5f, log-posterior of the '
                'estimates = %10.5f %s' % (
                    name, label, run, score, actual,
                    '' if consistent else '<-- differ'))
            if not consistent:
                violated = True

    # The estimates with a transformation are not the MAP estimates
    gap = best['no transform'] - best['LogTransformation']
    print(
        '%-24s best log-posterior found without / with transformation: '
        '%.5f / %.5f' % (
            name, best['no transform'], best['LogTransformation']))
    if gap > 1e-3:
        violated = True

if violated:
    print(
        'VIOLATION: with set_transform the table pairs the estimates with a '
        'score that is not their log-posterior (the log-Jacobian of the '
        'transformation is added) and the estimates are not the MAP '
        'estimates.')
    sys.exit(1)

print('Property holds.')
sys.exit(0)
