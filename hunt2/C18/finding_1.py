"""
C18 finding 1

PopulationFilterLogPosterior over a ReducedPopulationModel in which a pooled
(or heterogeneous) parameter is fixed: the posterior can be constructed,
sample_initial_parameters returns points of the right dimension, but the
log-posterior cannot be evaluated at any of them (ValueError) or is -inf at
all of them, so neither OptimisationController nor SamplingController can be
started from the initial points that the library itself produced. The same
population model works in a HierarchicalLogPosterior.
"""
import sys
import warnings

sys.path.insert(0, sys.argv[1] if len(sys.argv) > 1 else '/repo')

import numpy as np  # noqa: E402
import pints  # noqa: E402
import chi  # noqa: E402

warnings.simplefilter('ignore')


class Toy(chi.MechanisticModel):
    """y(t) = a * exp(-b t)"""
    def __init__(self):
        super(Toy, self).__init__()
        self._sens = False

    def copy(self):
        import copy
        return copy.deepcopy(self)

    def enable_sensitivities(self, enabled, parameter_names=None):
        self._sens = bool(enabled)

    def has_sensitivities(self):
        return self._sens

    def n_outputs(self):
        return 1

    def n_parameters(self):
        return 2

    def outputs(self):
        return ['y']

    def parameters(self):
        return ['a', 'b']

    def simulate(self, parameters, times):
        a, b = parameters[0], parameters[1]
        times = np.asarray(times, dtype=float)
        y = (a * np.exp(-b * times))[np.newaxis, :]
        if not self._sens:
            return y
        s = np.zeros((len(times), 1, 2))
        s[:, 0, 0] = np.exp(-b * times)
        s[:, 0, 1] = -a * times * np.exp(-b * times)
        return y, s

    def supports_dosing(self):
        return False

    def time_unit(self):
        return None


def prior(n):
    return pints.ComposedLogPrior(
        *[pints.LogNormalLogPrior(0, 0.1) for _ in range(n)])


times = np.array([0.5, 1., 2., 3.])
rng = np.random.default_rng(1)
observations = np.abs(rng.normal(1, 0.2, size=(6, 1, 4)))
n_sim = 3


def population_models():
    # a: log-normal, b: pooled and fixed to a known value
    m1 = chi.ReducedPopulationModel(chi.ComposedPopulationModel([
        chi.LogNormalModel(), chi.PooledModel()]))
    m1.fix_parameters({'Pooled Dim. 1': 0.5})

    # a and b pooled, b fixed
    m2 = chi.ReducedPopulationModel(chi.PooledModel(n_dim=2))
    m2.fix_parameters({'Pooled Dim. 2': 0.5})

    # a: log-normal, b: heterogeneous with the value of one individual fixed
    m3 = chi.ReducedPopulationModel(chi.ComposedPopulationModel([
        chi.LogNormalModel(), chi.HeterogeneousModel(n_ids=n_sim)]))
    m3.fix_parameters({'ID 2 Dim. 1': 0.5})

    return [
        ('LogNormal + Pooled (pooled value fixed)', m1),
        ('Pooled(n_dim=2) (second value fixed)', m2),
        ('LogNormal + Heterogeneous (one value fixed)', m3)]


violated = False

for name, pop_model in population_models():
    # Control: hierarchical posterior with the same reduced population model
    lls = []
    for i in range(n_sim):
        y = 2 * np.exp(-0.5 * times) + 0.1 * rng.normal(size=4)
        error_model = chi.ReducedErrorModel(chi.GaussianErrorModel())
        error_model.fix_parameters({'Sigma': 0.1})
        lls.append(chi.LogLikelihood(Toy(), error_model, y, times))
    hl = chi.HierarchicalLogLikelihood(lls, pop_model)
    hpost = chi.HierarchicalLogPosterior(
        hl, prior(hl.n_parameters(exclude_bottom_level=True)))
    x = hpost.sample_initial_parameters(3, seed=1)
    control = [hpost(row) for row in x]

    # Population filter posterior
    n_top = hl.n_parameters(exclude_bottom_level=True)
    post = chi.PopulationFilterLogPosterior(
        chi.GaussianFilter(observations), times, Toy(), pop_model,
        prior(n_top), sigma=0.1, n_samples=n_sim)
    x = post.sample_initial_parameters(3, seed=1)
    assert x.shape == (3, post.n_parameters())

    scores = []
    for row in x:
        assert np.isfinite(post.get_log_prior()(row[:n_top]))
        try:
            scores.append(post(row))
        except Exception as e:
            scores.append('%s: %s' % (type(e).__name__, e))

    ok = all(
        isinstance(s, float) and np.isfinite(s) for s in scores)
    print(name)
    print('  parameters            :', post.get_parameter_names()[:n_top])
    print('  hierarchical posterior:', np.round(control, 2))
    print('  filter posterior at its own initial points:')
    for s in scores:
        print('     ', s)

    # The controllers cannot be run either
    if not ok:
        controller = chi.SamplingController(post, seed=1)
        controller.set_n_runs(1)
        controller.set_parallel_evaluation(False)
        try:
            controller.run(n_iterations=2)
            print('  SamplingController.run: ok')
        except Exception as e:
            print('  SamplingController.run raises %s: %s' % (
                type(e).__name__, str(e)[:90]))
        violated = True

if violated:
    print(
        'VIOLATION: initial points of a constructible posterior have no '
        'finite / evaluable population contribution.')
    sys.exit(1)

print('Property holds.')
sys.exit(0)
