"""
C18 finding 3

PosteriorPredictiveModel matches the parameters of its predictive model with
the variables of the posterior dataset once, in the constructor, but keeps
(and hands out with get_predictive_model()) the caller's predictive model and
sizes the parameter array from the live model in sample(). After the predictive
model is reconfigured with fix_parameters, the cached names and the live model
disagree:

  (a) when the number of free parameters is unchanged (one parameter released,
      another one fixed) the samples of the old parameters are silently used
      for the new ones (here: samples of 'a' as 'b', samples of 'b' as
      'Sigma');
  (b) a parameter that is fixed afterwards makes sample() raise IndexError;
  (c) (not checked here, because the outcome depends on uninitialised memory)
      a parameter that is only released afterwards is never read from the
      dataset: its column of the parameter array is left as allocated by
      np.empty.

A PosteriorPredictiveModel constructed after the reconfiguration from the
same objects selects the matching columns.
"""
import sys
import warnings

sys.path.insert(0, sys.argv[1] if len(sys.argv) > 1 else '/repo')

import numpy as np  # noqa: E402
import pints  # noqa: E402
import chi  # noqa: E402

warnings.simplefilter('ignore')


class Toy(chi.MechanisticModel):
    """y(t) = a * exp(-b t)"""
    def __init__(self):
        super(Toy, self).__init__()
        self._sens = False

    def copy(self):
        import copy
        return copy.deepcopy(self)

    def enable_sensitivities(self, enabled, parameter_names=None):
        self._sens = bool(enabled)

    def has_sensitivities(self):
        return self._sens

    def n_outputs(self):
        return 1

    def n_parameters(self):
        return 2

    def outputs(self):
        return ['y']

    def parameters(self):
        return ['a', 'b']

    def simulate(self, parameters, times):
        a, b = parameters[0], parameters[1]
        times = np.asarray(times, dtype=float)
        return (a * np.exp(-b * times))[np.newaxis, :]

    def supports_dosing(self):
        return False

    def time_unit(self):
        return None


# Posterior dataset of an individual, produced by the SamplingController
times = np.array([0.5, 1., 2., 3.])
rng = np.random.default_rng(0)
y = 2 * np.exp(-0.5 * times) + 0.3 * rng.normal(size=4)
log_likelihood = chi.LogLikelihood(
    Toy(), chi.GaussianErrorModel(), y, times)
log_prior = pints.ComposedLogPrior(
    pints.LogNormalLogPrior(0.5, 0.1), pints.LogNormalLogPrior(-0.5, 0.1),
    pints.LogNormalLogPrior(0, 0.05))  # Sigma is about 1
log_posterior = chi.LogPosterior(log_likelihood, log_prior)
np.random.seed(3)
controller = chi.SamplingController(log_posterior, seed=3)
controller.set_n_runs(2)
controller.set_parallel_evaluation(False)
posterior_samples = controller.run(n_iterations=100)
print('dataset variables:', list(posterior_samples.data_vars))

t = [0.5, 1., 1.5, 2.]
violated = False

# (a) Built with Sigma fixed; afterwards Sigma is released and 'a' is fixed, so
# the number of parameters stays the same but their meaning changes
predictive_model = chi.PredictiveModel(Toy(), [chi.GaussianErrorModel()])
predictive_model.fix_parameters({'Sigma': 0.01})
ppm = chi.PosteriorPredictiveModel(predictive_model, posterior_samples)
predictive_model = ppm.get_predictive_model()
predictive_model.fix_parameters({'a': 2., 'Sigma': None})
print(
    '(a) parameters of the predictive model now:',
    predictive_model.get_parameter_names())
try:
    stale = ppm.sample(t, n_samples=20, seed=1)['Value'].to_numpy(float)
except Exception as e:
    stale = None
    print('    sample raises %s: %s' % (type(e).__name__, e))
fresh = chi.PosteriorPredictiveModel(
    predictive_model, posterior_samples).sample(
        t, n_samples=20, seed=1)['Value'].to_numpy(float)
if stale is None or not np.allclose(stale, fresh):
    violated = True
    print('    samples of the existing wrapper (first 4):', (
        None if stale is None else np.round(stale[:4], 4)))
    print('    samples of a new wrapper       (first 4):', np.round(
        fresh[:4], 4))
    print(
        '    posterior means: a %.2f, b %.2f, Sigma %.2f; the existing '
        'wrapper simulates with b <- samples of a and Sigma <- samples '
        'of b' % tuple(
            float(posterior_samples[n].mean()) for n in ['a', 'b', 'Sigma']))

# (b) 'a' fixed after the wrapper is built
predictive_model = chi.PredictiveModel(Toy(), [chi.GaussianErrorModel()])
ppm = chi.PosteriorPredictiveModel(predictive_model, posterior_samples)
predictive_model = ppm.get_predictive_model()
predictive_model.fix_parameters({'a': 2.})
print(
    '(b) parameters of the predictive model now:',
    predictive_model.get_parameter_names())
try:
    stale = ppm.sample(t, n_samples=20, seed=1)['Value'].to_numpy(float)
    fresh = chi.PosteriorPredictiveModel(
        predictive_model, posterior_samples).sample(
            t, n_samples=20, seed=1)['Value'].to_numpy(float)
    if not np.allclose(stale, fresh):
        violated = True
        print('    samples differ from those of a new wrapper')
except Exception as e:
    violated = True
    print('    sample raises %s: %s' % (type(e).__name__, e))

if violated:
    print(
        'VIOLATION: the posterior predictive model does not select the '
        'dataset columns that match the parameters of its predictive model.')
    sys.exit(1)

print('Property holds.')
sys.exit(0)
