"""
C02 - names published by a HierarchicalLogLikelihood when two sub-models of
the population model wrap ONE base population model object (two
ReducedPopulationModels with different fixed values around the same
LogNormalModel; the same happens for a sub-model reused inside a nested
ComposedPopulationModel).

The values are right, but both dimensions are published under the name of the
LAST dimension: position k is not described by its name, and two positions
share one name.
"""
import sys
sys.path.insert(0, sys.argv[1])
import numpy as np
import chi


class Toy(chi.MechanisticModel):
    def __init__(self):
        super().__init__()
        self._s = False

    def enable_sensitivities(self, enabled, parameter_names=None):
        self._s = bool(enabled)

    def has_sensitivities(self):
        return self._s

    def n_outputs(self):
        return 1

    def n_parameters(self):
        return 2

    def outputs(self):
        return ['y']

    def parameters(self):
        return ['amplitude', 'rate']

    def simulate(self, parameters, times):
        a, r = parameters
        t = np.asarray(times, dtype=float)
        y = (a * np.exp(-r * t))[np.newaxis, :]
        if not self._s:
            return y
        s = np.stack([np.exp(-r * t), -a * t * np.exp(-r * t)], axis=-1)
        return y, s[:, np.newaxis, :]


times = [0.5, 1.0, 2.0]
lls = []
for obs in ([1.0, 0.8, 0.5], [1.4, 1.0, 0.6], [0.9, 0.6, 0.2]):
    ll = chi.LogLikelihood(Toy(), chi.GaussianErrorModel(), obs, times)
    ll.fix_parameters({'Sigma': 0.2})
    lls.append(ll)

# One template distribution, two reduced versions of it with different
# fixed spreads, one for each model parameter
template = chi.LogNormalModel(n_dim=1, centered=False)
amplitude = chi.ReducedPopulationModel(template)
amplitude.fix_parameters({'Log std. Dim. 1': 0.3})
rate = chi.ReducedPopulationModel(template)
rate.fix_parameters({'Log std. Dim. 1': 0.5})
population_model = chi.ComposedPopulationModel([amplitude, rate])
# (what chi.ProblemModellingController.set_population_model does)
population_model.set_dim_names(['amplitude', 'rate'])

h = chi.HierarchicalLogLikelihood(lls, population_model)
names = h.get_parameter_names(exclude_bottom_level=True)
n_bottom = h.n_parameters() - h.n_parameters(exclude_bottom_level=True)
print('published top-level names:', names)

# Which model parameter does each top-level position control?
pm = h.get_population_model()
rng = np.random.default_rng(1)
x = rng.uniform(0.2, 1, h.n_parameters())
eta, top = x[:n_bottom], x[n_bottom:]
psi = pm.compute_individual_parameters(top, eta)
ll_names = lls[0].get_parameter_names()
failed = False
for k, name in enumerate(names):
    t = top.copy()
    t[k] += 0.1
    changed = np.any(
        pm.compute_individual_parameters(t, eta) != psi, axis=0)
    controlled = [n for n, c in zip(ll_names, changed) if c]
    print('position %d is published as %r and controls %s' % (
        n_bottom + k, name, controlled))
    if not all(c in name for c in controlled):
        failed = True

# The value is nevertheless the one of the composed model
score = sum(
    -0.5 * e**2 - 0.5 * np.log(2 * np.pi) for e in eta)
sig = [0.3, 0.5]
for i, ll in enumerate(lls):
    e = eta.reshape(3, 2)[i]
    score += ll(np.exp(top + np.array(sig) * e))
print('value', h(x), 'expected', score)

if len(set(names)) != len(names):
    print('VIOLATION: two positions are published under the same name')
    failed = True
if failed:
    print('VIOLATION: a published name does not describe the quantity that '
          'its position controls')
    sys.exit(1)
print('property holds')
sys.exit(0)
