"""
C08 finding 3: ReducedMechanisticModel.fix_parameters discards the parameter
selection of enable_sensitivities, so the sensitivities returned by simulate
depend on the order of the calls and not only on the fixed name-value pairs.

enable_sensitivities(True, ['a']) followed by fix_parameters({'b': ...})
returns sensitivities for a AND c; the other order (and the unfixed model with
the same selection, restricted to the free parameters) returns them for a only.
"""
import sys
sys.path.insert(0, sys.argv[1])
import numpy as np
import chi


class Toy(chi.MechanisticModel):
    """y = a * exp(-b t) + c with analytic sensitivities."""
    def __init__(self):
        super().__init__()
        self._sens = False
        self._sel = [0, 1, 2]

    def enable_sensitivities(self, enabled, parameter_names=None):
        self._sens = bool(enabled)
        names = self.parameters()
        self._sel = [0, 1, 2] if parameter_names is None else [
            i for i, n in enumerate(names) if n in list(parameter_names)]

    def has_sensitivities(self):
        return self._sens

    def n_outputs(self):
        return 1

    def n_parameters(self):
        return 3

    def outputs(self):
        return ['y']

    def parameters(self):
        return ['a', 'b', 'c']

    def simulate(self, parameters, times):
        a, b, c = [float(p) for p in parameters]
        t = np.asarray(times, dtype=float)
        y = (a * np.exp(-b * t) + c)[np.newaxis, :]
        if not self._sens:
            return y
        s = np.zeros((len(t), 1, 3))
        s[:, 0, 0] = np.exp(-b * t)
        s[:, 0, 1] = -a * t * np.exp(-b * t)
        s[:, 0, 2] = 1
        return y, s[:, :, self._sel]


times = [0.5, 1.0, 2.0]

# Unfixed model with the selection: sensitivities w.r.t. 'a' only
unfixed = Toy()
unfixed.enable_sensitivities(True, ['a'])
_, reference = unfixed.simulate([1.0, 0.5, 0.2], times)

# Order 1: select, then fix
model_1 = chi.ReducedMechanisticModel(Toy())
model_1.enable_sensitivities(True, ['a'])
model_1.fix_parameters({'b': 0.5})
_, sens_1 = model_1.simulate([1.0, 0.2], times)

# Order 2: fix, then select
model_2 = chi.ReducedMechanisticModel(Toy())
model_2.fix_parameters({'b': 0.5})
model_2.enable_sensitivities(True, ['a'])
_, sens_2 = model_2.simulate([1.0, 0.2], times)

print('unfixed model, selection [a]      :', reference.shape)
print('select [a], then fix b            :', sens_1.shape)
print('fix b, then select [a]            :', sens_2.shape)

# Selection that becomes empty: select only 'b', then fix 'b'
model_3 = chi.ReducedMechanisticModel(Toy())
model_3.enable_sensitivities(True, ['b'])
model_3.fix_parameters({'b': 0.5})
_, sens_3 = model_3.simulate([1.0, 0.2], times)
model_4 = chi.ReducedMechanisticModel(Toy())
model_4.fix_parameters({'b': 0.5})
model_4.enable_sensitivities(True, ['b'])
_, sens_4 = model_4.simulate([1.0, 0.2], times)
print('select [b], then fix b            :', sens_3.shape)
print('fix b, then select [b]            :', sens_4.shape)

ok = (sens_1.shape == sens_2.shape == reference.shape) and np.allclose(
    sens_1, reference) and (sens_3.shape == sens_4.shape)
if not ok:
    print('VIOLATION: the sensitivities of the reduced model depend on the '
          'order of enable_sensitivities and fix_parameters')
    sys.exit(1)
print('property holds')
sys.exit(0)
