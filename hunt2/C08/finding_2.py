"""
C08 finding 2: fixing an error model parameter of a multi-output model whose
output name is long (here 43 characters) breaks the model / mangles the names.

ReducedErrorModel.set_parameter_names rejects names with more than 50
characters and rebuilds the full name list in a numpy 'U50' array, whereas the
plain error models accept names of any length. LogLikelihood, PredictiveModel
and the ProblemModellingController prefix the error model parameters with the
output name, so for '<output> Sigma base' longer than 50 characters

 a) a model with one fixed noise parameter cannot be constructed any more
    (the unfixed model works), and
 b) with both noise parameters of the output fixed, the fixed names are
    silently truncated to 50 characters (two parameters end up with the same
    name) and releasing them by their name is ignored.
"""
import sys
sys.path.insert(0, sys.argv[1])
import numpy as np
import chi

OUT = 'central_compartment.free_drug_concentration'


class Toy(chi.MechanisticModel):
    def __init__(self):
        super().__init__()

    def has_sensitivities(self):
        return False

    def enable_sensitivities(self, enabled, parameter_names=None):
        pass

    def n_outputs(self):
        return 2

    def n_parameters(self):
        return 2

    def outputs(self):
        return [OUT, 'effect']

    def parameters(self):
        return ['a', 'b']

    def simulate(self, parameters, times):
        a, b = [float(p) for p in parameters]
        t = np.asarray(times, dtype=float)
        return np.vstack([a * np.exp(-b * t) + 1, a + b * t])


failed = False
error_models = [
    chi.ConstantAndMultiplicativeGaussianErrorModel(),
    chi.GaussianErrorModel()]
times = [[0.5, 1, 2], [0.5, 1, 2]]
obs = [[1.9, 1.5, 1.2], [1.4, 2.1, 2.9]]

# Unfixed model
reference = chi.LogLikelihood(Toy(), error_models, obs, times)
names = reference.get_parameter_names()
full = np.array([1.0, 0.7, 0.3, 0.2, 0.5])
print('parameters:', names)
print('unfixed score at full vector:', reference(full))

# a) fix one noise parameter and build the models from the controller
problem = chi.ProblemModellingController(Toy(), error_models)
problem.fix_parameters({OUT + ' Sigma rel.': 0.2})
print('free parameters of controller:', problem.get_parameter_names())
try:
    model = problem.get_predictive_model()
    samples = model.sample(full[[0, 1, 2, 4]], [1, 2], seed=1, return_df=False)
    print('predictive model works, sample shape', samples.shape)
except Exception as e:
    failed = True
    print('a) get_predictive_model() after fixing one parameter raises %s: %s'
          % (type(e).__name__, e))
try:
    em = chi.ReducedErrorModel(chi.ConstantAndMultiplicativeGaussianErrorModel())
    em.fix_parameters({'Sigma rel.': 0.2})
    ll = chi.LogLikelihood(Toy(), [em, chi.GaussianErrorModel()], obs, times)
    print('fixed score:', ll(full[[0, 1, 2, 4]]))
except Exception as e:
    failed = True
    print('a) LogLikelihood with a reduced error model raises %s: %s'
          % (type(e).__name__, e))

# b) fix both noise parameters of the output, then release one again
problem = chi.ProblemModellingController(Toy(), error_models)
problem.fix_parameters({
    OUT + ' Sigma base': 0.3, OUT + ' Sigma rel.': 0.2})
model = problem.get_predictive_model()
print('b) free parameters:', model.get_parameter_names())
model.fix_parameters({OUT + ' Sigma base': None})
expected = ['a', 'b', OUT + ' Sigma base', 'effect Sigma']
print('b) after releasing <%s Sigma base>: %s'
      % (OUT, model.get_parameter_names()))
if list(model.get_parameter_names()) != expected:
    failed = True
    print('   expected', expected)
    print('   names kept for the fixed parameters:',
          model.get_submodels()['Error models'][0].get_parameter_names())

if failed:
    print('VIOLATION: fixing error model parameters is not an exact, '
          'reversible substitution for long output names')
    sys.exit(1)
print('property holds')
sys.exit(0)
