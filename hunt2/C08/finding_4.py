"""
C08 finding 4: a ComposedPopulationModel with a reduced sub-model checks and
distributes new parameter names with the parameter count it cached before the
sub-model's parameter was fixed.

After get_population_models()[k].fix_parameters(...) the composite reports the
free parameters (names, n_parameters(), values and gradients follow the fixed
set), but set_parameter_names still expects the old count: a list with one name
per free parameter is rejected, a list of the stale length is accepted and
assigned to the wrong parameters. Whether this happens depends on the call
history (any earlier call of n_parameters(), sample(), compute_* refreshes the
count), not on the set of fixed parameters.
"""
import sys
sys.path.insert(0, sys.argv[1])
import chi


def build():
    model = chi.ComposedPopulationModel([
        chi.ReducedPopulationModel(chi.GaussianModel()),
        chi.PooledModel()])
    model.get_population_models()[0].fix_parameters({'Std. Dim. 1': 1.0})
    return model


failed = False

# History 1: rename right after fixing
model = build()
free = model.get_parameter_names()
print('free parameters after fixing <Std. Dim. 1>:', free)
try:
    model.set_parameter_names(['mu', 'theta'])
    print('history 1 names:', model.get_parameter_names(exclude_dim_names=True))
    names_1 = model.get_parameter_names(exclude_dim_names=True)
except Exception as e:
    failed = True
    names_1 = None
    print('history 1: set_parameter_names with %d names (= number of free '
          'parameters) raises %s: %s' % (len(free), type(e).__name__, e))

# ... while a list with the count from before the fix is accepted and shifts
# the names: the pooled parameter receives the name meant for the fixed one
model = build()
try:
    model.set_parameter_names(['mu', 'sigma', 'theta'])
    got = model.get_parameter_names(exclude_dim_names=True)
    print('history 1 with 3 names [mu, sigma, theta] ->', got)
    if got != ['mu', 'theta']:
        failed = True
except Exception as e:
    print('3 names rejected (fine): %s' % e)

# History 2: same fixed set, but n_parameters() was called in between
model = build()
model.n_parameters()
model.set_parameter_names(['mu', 'theta'])
names_2 = model.get_parameter_names(exclude_dim_names=True)
print('history 2 (n_parameters() called first) names:', names_2)
if names_1 != names_2:
    failed = True

if failed:
    print('VIOLATION: naming the free parameters depends on the call history '
          'and not only on the fixed parameters')
    sys.exit(1)
print('property holds')
sys.exit(0)
