"""
C08 finding 1: a ReducedPopulationModel with a FIXED pooled (or heterogeneous)
parameter is not an exact substitution inside a PopulationFilterLogPosterior.

The same population model with the pooled parameter left free, evaluated at the
fixed value, gives a finite score; the reduced model gives -inf for every
input (partially fixed pooled model), or raises a broadcasting error (pooled
sub-model whose only parameter is fixed).
"""
import sys
sys.path.insert(0, sys.argv[1])
import copy
import numpy as np
import pints
import chi


class Toy(chi.MechanisticModel):
    """y = a * exp(-b t) + c with analytic sensitivities."""
    def __init__(self):
        super().__init__()
        self._sens = False
        self._sel = [0, 1, 2]

    def enable_sensitivities(self, enabled, parameter_names=None):
        self._sens = bool(enabled)
        names = self.parameters()
        self._sel = [0, 1, 2] if parameter_names is None else [
            i for i, n in enumerate(names) if n in list(parameter_names)]

    def has_sensitivities(self):
        return self._sens

    def n_outputs(self):
        return 1

    def n_parameters(self):
        return 3

    def outputs(self):
        return ['y']

    def parameters(self):
        return ['a', 'b', 'c']

    def simulate(self, parameters, times):
        a, b, c = [float(p) for p in parameters]
        t = np.asarray(times, dtype=float)
        y = (a * np.exp(-b * t) + c)[np.newaxis, :]
        if not self._sens:
            return y
        s = np.zeros((len(t), 1, 3))
        s[:, 0, 0] = np.exp(-b * t)
        s[:, 0, 1] = -a * t * np.exp(-b * t)
        s[:, 0, 2] = 1
        return y, s[:, :, self._sel]


rng = np.random.default_rng(1)
n_sim = 3
times = [0.5, 1, 2]
pop_filter = chi.GaussianFilter(rng.uniform(1, 2, size=(4, 1, 3)))


def posterior(population_model):
    n_top = population_model.n_parameters()
    # Uniform priors: every top-level parameter contributes -log(10)
    log_prior = pints.ComposedLogPrior(
        *[pints.UniformLogPrior(0, 10)] * n_top)
    return chi.PopulationFilterLogPosterior(
        pop_filter, times, Toy(), population_model, log_prior, sigma=[0.1],
        n_samples=n_sim)


failed = False
cases = [
    ('pooled model with 2 dims, one fixed',
     lambda: chi.ComposedPopulationModel(
         [chi.PooledModel(n_dim=2), chi.GaussianModel()]),
     'Pooled Dim. 1'),
    ('pooled sub-model whose only parameter is fixed',
     lambda: chi.ComposedPopulationModel(
         [chi.GaussianModel(), chi.PooledModel(), chi.LogNormalModel()]),
     'Pooled Dim. 1'),
    ('heterogeneous sub-model, one individual fixed',
     lambda: chi.ComposedPopulationModel(
         [chi.HeterogeneousModel(), chi.GaussianModel(n_dim=2)]),
     'ID 2 Dim. 1'),
]
for label, make, fixed_name in cases:
    full_model = make()
    full_model.set_n_ids(n_sim)
    names = full_model.get_parameter_names()
    full = posterior(full_model)

    reduced_model = chi.ReducedPopulationModel(make())
    reduced_model.set_n_ids(n_sim)
    reduced_model.fix_parameters({fixed_name: 0.9})

    n = len(names)
    top = rng.uniform(0.5, 1.5, n)
    top[names.index(fixed_name)] = 0.9
    mask = np.array([name != fixed_name for name in names])
    rest = rng.uniform(0.5, 1.5, full.n_parameters() - n)
    x_full = np.concatenate([top, rest])
    x_red = np.concatenate([top[mask], rest])

    # Reference: the unfixed posterior at the substituted vector, minus the
    # prior term of the substituted parameter
    reference = full(x_full) + np.log(10)
    ref_grad = full.evaluateS1(x_full)[1][
        np.concatenate([mask, np.ones(len(rest), dtype=bool)])]
    try:
        reduced = posterior(reduced_model)
        assert reduced.get_parameter_names() == [
            name for i, name in enumerate(full.get_parameter_names())
            if (i >= n) or mask[i]]
        value = reduced(x_red)
        grad = reduced.evaluateS1(x_red)[1]
        ok = np.isclose(value, reference) and np.allclose(grad, ref_grad)
        print('%s: unfixed at substituted values %.6f, fixed %s'
              % (label, reference, value))
        if not ok:
            failed = True
    except Exception as e:
        failed = True
        print('%s: unfixed at substituted values %.6f, fixed model raises '
              '%s: %s' % (label, reference, type(e).__name__, e))

    # The same reduced model is an exact substitution in the population model
    # API itself (so the defect is in how the special dimensions of a reduced
    # model are consumed)
    psi = full_model.compute_individual_parameters(
        top, rng.uniform(0.5, 1.5, (n_sim, 3)), return_eta=True)
    assert np.isclose(
        full_model.compute_log_likelihood(top, psi),
        reduced_model.compute_log_likelihood(top[mask], psi))

if failed:
    print('VIOLATION: fixing a pooled / heterogeneous parameter changes the '
          'population filter log-posterior')
    sys.exit(1)
print('property holds')
sys.exit(0)
