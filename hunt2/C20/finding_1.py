"""
ParameterEstimatePlot loses every population-level estimate.

Population parameters are encoded by a missing ID (chi.OptimisationController
returns None for them; the figure's own code documents 'Population parameters
have an ID of None').  The figure looks for them with `individual is None`,
but pandas hands missing IDs back as NaN (always for numeric ID columns, and
for every ID column under pandas >= 3, also for the frame that
OptimisationController.run itself returns).  The NaN then goes into
`data[id_key] == nan`, which matches nothing: the box trace is empty and is
labelled 'nan' instead of 'Population'.
"""
import sys
import warnings

sys.path.insert(0, sys.argv[1])
warnings.simplefilter('ignore')

import numpy as np  # noqa
import pandas as pd  # noqa
import pints  # noqa
import chi  # noqa
from chi import plots  # noqa

bad = False


def check(label, frame):
    """Every estimate in the frame has to appear in the figure."""
    global bad
    before = frame.copy(deep=True)
    fig = plots.ParameterEstimatePlot()
    fig.add_data(frame)
    assert frame.equals(before)
    params = list(pd.unique(frame['Parameter']))
    for f, param in zip(fig._figs, params):
        expected = sorted(
            float(x) for x in frame['Estimate'][frame['Parameter'] == param])
        drawn = sorted(float(y) for t in f.data for y in t.y)
        names = [t.name for t in f.data]
        if drawn != expected:
            bad = True
            print('%s: parameter %r: estimates %s supplied, %s drawn '
                  '(trace names %s)' % (label, param, expected, drawn, names))


# 1. Hand-made result frame, numeric IDs, population rows without ID
frame = pd.DataFrame({
    'ID': [1, 2, None, 1, 2, None],
    'Parameter': ['k', 'k', 'Mean k', 'k', 'k', 'Mean k'],
    'Estimate': [1.0, 2.0, 1.5, 1.1, 2.1, 1.6],
    'Score': [-1.0] * 3 + [-2.0] * 3,
    'Run': [1] * 3 + [2] * 3})
check('numeric IDs', frame)

# 2. Same with string IDs
frame = frame.copy()
frame['ID'] = ['a', 'b', None, 'a', 'b', None]
check('string IDs', frame)


# 3. The frame that chi.OptimisationController.run returns for a hierarchical
# posterior (documented work flow: controller result -> ParameterEstimatePlot)
class Toy(chi.MechanisticModel):
    def __init__(self):
        super(Toy, self).__init__()

    def n_outputs(self):
        return 1

    def n_parameters(self):
        return 2

    def outputs(self):
        return ['y']

    def parameters(self):
        return ['a', 'b']

    def has_sensitivities(self):
        return False

    def enable_sensitivities(self, enabled, parameter_names=None):
        pass

    def supports_dosing(self):
        return False

    def simulate(self, parameters, times):
        a, b = parameters
        return (a * np.exp(-b * np.asarray(times)))[None, :]


times = [0., 1., 2.]
lls = [
    chi.LogLikelihood(
        Toy(), chi.GaussianErrorModel(), [[3., 2., 1.]], [times])
    for _ in range(2)]
pop = chi.ComposedPopulationModel([
    chi.PooledModel(dim_names=['a']),
    chi.LogNormalModel(dim_names=['b']),
    chi.PooledModel(dim_names=['sigma'])])
hll = chi.HierarchicalLogLikelihood(lls, pop)
prior = pints.ComposedLogPrior(*[pints.UniformLogPrior(0.1, 10)] * 4)
posterior = chi.HierarchicalLogPosterior(hll, prior)
controller = chi.OptimisationController(posterior, seed=1)
controller.set_n_runs(2)
result = controller.run(n_max_iterations=3)
check('OptimisationController.run result', result)

if bad:
    print('VIOLATION: supplied population-level estimates are not drawn.')
    sys.exit(1)
print('all estimates drawn')
sys.exit(0)
