"""
The dose panel of PKTimeSeriesPlot / PKPredictivePlot leaves out all dose rows
of an individual that has no measurement of the plotted observable.

add_data takes the individuals from the rows that remain AFTER the frame is
masked for the observable (`ids = data[id_key].unique()`), and only loops over
those when it fills the dose panel.  An individual that was dosed but has no
row of the chosen observable (it was only measured for another observable, or
not measured at all) contributes no dose trace, so the panel does not hold the
dose rows of the frame.
"""
import sys
import warnings

sys.path.insert(0, sys.argv[1])
warnings.simplefilter('ignore')

import numpy as np  # noqa
import pandas as pd  # noqa
import chi  # noqa
from chi import plots  # noqa

nan = np.nan
data = pd.DataFrame({
    'ID': [1, 1, 1, 2, 2, 2, 3],
    'Time': [0.0, 1.0, 2.0, 0.0, 1.0, 2.0, 0.0],
    'Observable': [nan, 'Conc', 'Effect', nan, 'Conc', 'Conc', nan],
    'Value': [nan, 5.0, 0.3, nan, 6.0, 4.0, nan],
    'Dose': [10.0, nan, nan, 20.0, nan, nan, 30.0],
    'Duration': [0.01, nan, nan, 0.01, nan, nan, 0.01]})
before = data.copy(deep=True)
dose_rows = sorted(
    (float(t), float(d))
    for t, d in zip(data['Time'], data['Dose']) if d == d)

bad = False
for cls in [plots.PKTimeSeriesPlot, plots.PKPredictivePlot]:
    for observable in ['Conc', 'Effect']:
        fig = cls()
        fig.add_data(data, observable=observable)
        assert data.equals(before)
        # Dose panel is the first row of the figure (axes x / y)
        panel = [t for t in fig._fig.data if t.yaxis in (None, 'y')]
        drawn = sorted(
            (float(x), float(y)) for t in panel for x, y in zip(t.x, t.y))
        if drawn != dose_rows:
            bad = True
            print(
                '%s(observable=%r): dose rows (time, dose) %s supplied, dose '
                'panel holds %s (traces %s)' % (
                    cls.__name__, observable, dose_rows, drawn,
                    [t.name for t in panel]))

if bad:
    print('VIOLATION: dose panel does not hold the dose rows of the data.')
    sys.exit(1)
print('dose panels complete')
sys.exit(0)
