"""
Time-series / predictive / residual figures silently drop the measurements of
rows whose ID is missing and add an empty trace 'ID: nan' instead.

`ids = data[id_key].unique()` contains NaN for a missing ID, and the rows of
that "individual" are then selected with `data[id_key] == nan`, which is False
everywhere.  The (time, value) pairs of these rows appear in no trace of the
figure although a legend entry is created for them.
"""
import sys
import warnings

sys.path.insert(0, sys.argv[1])
warnings.simplefilter('ignore')

import numpy as np  # noqa
import pandas as pd  # noqa
import chi  # noqa
from chi import plots  # noqa

data = pd.DataFrame({
    'ID': [1, 1, 2, 2, np.nan, np.nan],
    'Time': [1.0, 2.0, 1.0, 2.0, 1.0, 2.0],
    'Observable': ['A'] * 6,
    'Value': [10.0, 11.0, 20.0, 21.0, 30.0, 31.0],
    'Dose': [np.nan] * 6,
    'Duration': [np.nan] * 6})
before = data.copy(deep=True)
supplied = sorted(zip(data['Time'], data['Value']))

bad = False
for cls in [
        plots.PDTimeSeriesPlot, plots.PKTimeSeriesPlot,
        plots.PDPredictivePlot, plots.PKPredictivePlot]:
    fig = cls()
    fig.add_data(data)
    assert data.equals(before)
    drawn = sorted(
        (float(x), float(y))
        for t in fig._fig.data if t.y is not None and len(t.y)
        for x, y in zip(t.x, t.y) if t.name.startswith('ID') and y == y)
    sizes = dict(
        (t.name, 0 if t.y is None else len(t.y))
        for t in fig._fig.data if t.yaxis in (None, 'y2') or 'PD' in
        cls.__name__)
    if drawn != supplied:
        bad = True
        missing = [p for p in supplied if p not in drawn]
        print('%s: pairs %s of the chosen observable are in no trace; '
              'trace sizes: %s' % (cls.__name__, missing, sizes))

# The residual figure loses the same measurements
pred = pd.DataFrame({
    'Time': [1.0, 2.0], 'Observable': ['A', 'A'], 'Value': [9.0, 9.0]})
fig = plots.ResidualPlot(data)
fig.add_data(pred)
n_res = sum(0 if t.y is None else len(t.y) for t in fig._fig.data)
if n_res != len(data):
    bad = True
    print('ResidualPlot: %d measurements supplied, %d residuals drawn; '
          'traces: %s' % (
              len(data), n_res,
              [(t.name, 0 if t.y is None else len(t.y))
               for t in fig._fig.data]))

if bad:
    print('VIOLATION: measurements with a missing ID are not rendered.')
    sys.exit(1)
print('all measurements rendered')
sys.exit(0)
