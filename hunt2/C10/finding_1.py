"""
C10 finding 1: an explicit dosing protocol (myokit.Protocol) whose dose events
overlap in time (an infusion with a bolus given during the infusion) is
accepted by PKPDModel.set_dosing_regimen / PredictiveModel.set_dosing_regimen,
but the simulation applies only one event at a time: the bolus pre-empts the
infusion, whose remainder is never delivered. The regimen table of the
predictive model nevertheless lists both events with their full amounts, so
the table does not describe what the simulation applies, and the cumulative
input is smaller than the sum of the scheduled doses.

Usage: python finding_1.py <path to repository>
"""
import sys
sys.path.insert(0, '/tmp/seedhelp')     # solver stand-in (no sundials here)
sys.path.insert(0, sys.argv[1])
import refsim
refsim.install()

import myokit
import numpy as np
import chi
from chi.library import ModelLibrary

# One-compartment model, drug amount as output, direct administration
model = ModelLibrary().one_compartment_pk_model()
model.set_administration('central', direct=True)
model.set_outputs(['central.drug_amount'])

# Infusion of 4 units over [0, 4] and a bolus of 1 unit at t=1 (duration 0.01)
protocol = myokit.Protocol()
protocol.schedule(level=4 / 4, start=0, duration=4)
protocol.schedule(level=1 / 0.01, start=1, duration=0.01)

predictive_model = chi.PredictiveModel(model, [chi.GaussianErrorModel()])
predictive_model.set_dosing_regimen(protocol)

# Reported regimen up to t=10
final_time = 10
table = predictive_model.get_dosing_regimen(final_time=final_time)
print('Regimen table reported by the predictive model:')
print(table)
reported_total = float(np.sum(table['Dose'].to_numpy(dtype=float)))

# Simulated cumulative input: no elimination (rate 0), initial amount 0,
# volume 1, so the drug amount in the compartment is the cumulative input.
# (error model noise is switched off by a vanishing sigma)
times = [0.5, 1.0, 1.01, 2.0, 4.0, 10.0]
parameters = [0, 1, 0, 1E-12]  # amount_0, volume, elimination rate, sigma
amount = predictive_model.sample(
    parameters, times, seed=1, return_df=False)[0, :, 0]

expected = []
for t in times:
    e = min(t, 4.0) * 1.0                       # infusion
    e += 0 if t <= 1 else min(t - 1, 0.01) * 100  # bolus
    expected.append(e)
expected = np.array(expected)

print('times                    :', times)
print('scheduled cumulative dose:', expected)
print('simulated cumulative dose:', np.round(amount, 6))
print('total listed in table: %.3f, total delivered by t=%d: %.3f' % (
    reported_total, final_time, amount[-1]))

if (not np.allclose(amount, expected, atol=1E-4)) or (
        abs(reported_total - amount[-1]) > 1E-4):
    print(
        'VIOLATION: the simulation delivers less drug than the regimen table '
        'lists / the protocol schedules (the infusion is dropped when the '
        'bolus starts).')
    sys.exit(1)

print('Property holds.')
sys.exit(0)
