"""
C15 finding 4: an empty vector of measurement times gives an empty array but
the labelled table cannot be built.

PredictiveModel.sample(times=[], return_df=False) returns an array of shape
(n_outputs, 0, n_samples) and PopulationPredictiveModel.sample returns an empty
table, but PredictiveModel.sample (table), PosteriorPredictiveModel.sample and
PriorPredictiveModel.sample evaluate ``np.max(times)`` for the dosing regimen
before they know whether a regimen has to be listed, which raises for an empty
vector (also for models without any dosing regimen).
"""
import sys

sys.path.insert(0, sys.argv[1])

import numpy as np  # noqa: E402
import pints  # noqa: E402
import xarray as xr  # noqa: E402
import chi  # noqa: E402


class Line(chi.MechanisticModel):
    """y = a + b t"""
    def n_outputs(self):
        return 1

    def n_parameters(self):
        return 2

    def outputs(self):
        return ['y']

    def parameters(self):
        return ['a', 'b']

    def has_sensitivities(self):
        return False

    def simulate(self, parameters, times):
        a, b = parameters
        return (a + b * np.asarray(times, dtype=float))[np.newaxis, :]


times = np.array([])
model = chi.PredictiveModel(Line(), [chi.GaussianErrorModel()])
array = model.sample([1, 1, 0.1], times, n_samples=2, seed=1, return_df=False)
print('PredictiveModel array:', array.shape)
pop_model = chi.PopulationPredictiveModel(model, chi.LogNormalModel(n_dim=3))
table = pop_model.sample([0, 0, -2, 0.1, 0.1, 0.1], times, n_samples=2, seed=1)
print('PopulationPredictiveModel table: %d rows' % len(table))

posterior = xr.Dataset({
    name: xr.DataArray(
        np.full((2, 3), value), dims=['chain', 'draw'],
        coords={'chain': [0, 1], 'draw': [0, 1, 2]})
    for name, value in zip(model.get_parameter_names(), [1, 1, 0.1])})
log_prior = pints.ComposedLogPrior(
    pints.UniformLogPrior(0, 1), pints.UniformLogPrior(0, 1),
    pints.UniformLogPrior(0.1, 0.2))
calls = {
    'PredictiveModel table': lambda: model.sample(
        [1, 1, 0.1], times, n_samples=2, seed=1),
    'PosteriorPredictiveModel table': lambda: chi.PosteriorPredictiveModel(
        model, posterior).sample(times, n_samples=2, seed=1),
    'PriorPredictiveModel table': lambda: chi.PriorPredictiveModel(
        model, log_prior).sample(times, n_samples=2, seed=1)}

violated = False
for label, call in calls.items():
    try:
        table = call()
        print('%s: %d rows' % (label, len(table)))
        if len(table) != 0:
            violated = True
    except Exception as e:
        print('VIOLATION: %s raised %s: %s' % (label, type(e).__name__, e))
        violated = True

sys.exit(1 if violated else 0)
