"""
C15 finding 2: PosteriorPredictiveModel.sample raises for the posterior of one
individual that was selected from a multi-individual dataset with
``posterior.sel(individual=ID)``.

The constructor accepts datasets with the dimensions (chain, draw) - "the
posterior only contains information about one individual" - and sample() has a
special branch for them that is entered through an AttributeError of
``posterior.individual``. xarray keeps the selected ID as a scalar coordinate,
so ``posterior.individual`` exists, no AttributeError is raised and the default
individual is looked up with ``ids.data[0]`` on a 0-dimensional array.
"""
import sys

sys.path.insert(0, sys.argv[1])

import numpy as np  # noqa: E402
import xarray as xr  # noqa: E402
import chi  # noqa: E402


class Line(chi.MechanisticModel):
    """y = a + b t"""
    def n_outputs(self):
        return 1

    def n_parameters(self):
        return 2

    def outputs(self):
        return ['y']

    def parameters(self):
        return ['a', 'b']

    def has_sensitivities(self):
        return False

    def simulate(self, parameters, times):
        a, b = parameters
        return (a + b * np.asarray(times, dtype=float))[np.newaxis, :]


# Posterior of a hierarchical inference: 2 chains, 4 draws, 3 individuals.
# Individual k has a = 100 k, b = 0
n_chains, n_draws, ids = 2, 4, ['p', 'q', 'r']
coords = {'chain': range(n_chains), 'draw': range(n_draws), 'individual': ids}
dims = ['chain', 'draw', 'individual']
a = np.zeros((n_chains, n_draws, 3)) + 100 * np.arange(3)
posterior = xr.Dataset({
    'a': xr.DataArray(a, dims=dims, coords=coords),
    'b': xr.DataArray(np.zeros(a.shape), dims=dims, coords=coords),
    'Pooled Sigma': xr.DataArray(
        np.full((n_chains, n_draws), 1E-3), dims=dims[:2],
        coords={'chain': range(n_chains), 'draw': range(n_draws)})})

model = chi.PredictiveModel(Line(), [chi.GaussianErrorModel()])
param_map = {'Sigma': 'Pooled Sigma'}

# Reference: select the individual with the sample method
reference = chi.PosteriorPredictiveModel(model, posterior, param_map).sample(
    times=[2, 1], n_samples=3, individual='q', seed=1)
print('individual="q" on the full dataset:',
      np.round(reference.Value.values.astype(float), 2))

# Same individual, selected from the dataset beforehand
posterior_q = posterior.sel(individual='q')
print('dimensions of posterior.sel(individual="q"):', dict(posterior_q.sizes))
posterior_model = chi.PosteriorPredictiveModel(model, posterior_q, param_map)

violated = False
try:
    samples = posterior_model.sample(times=[2, 1], n_samples=3, seed=1)
    values = samples.Value.values.astype(float)
    print('samples from the preselected dataset:', np.round(values, 2))
    if not np.allclose(values, 100, atol=0.1):
        print('VIOLATION: the samples are not those of individual q.')
        violated = True
except Exception as e:
    print('VIOLATION: sample() raised %s: %s' % (type(e).__name__, e))
    violated = True

sys.exit(1 if violated else 0)
