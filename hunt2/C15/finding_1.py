"""
C15 finding 1: covariate rows of a population predictive table cannot be
labelled when the population model is a ComposedPopulationModel.

ComposedPopulationModel.set_covariate_names is the inherited base-class no-op
("If the model has no covariates, input is ignored"), although the composite
does have covariates (n_covariates() > 0, get_covariate_names() lists them).
The call is silently ignored, so PopulationPredictiveModel.sample labels the
values of two different covariates with the same default name 'Cov. 1'.
"""
import sys

sys.path.insert(0, sys.argv[1])

import numpy as np  # noqa: E402
import chi  # noqa: E402


class Identity(chi.MechanisticModel):
    """Two outputs that equal the two parameters at all times."""
    def n_outputs(self):
        return 2

    def n_parameters(self):
        return 2

    def outputs(self):
        return ['out a', 'out b']

    def parameters(self):
        return ['a', 'b']

    def has_sensitivities(self):
        return False

    def simulate(self, parameters, times):
        return np.outer(np.asarray(parameters, dtype=float), np.ones(len(times)))


predictive_model = chi.PredictiveModel(
    Identity(), [chi.GaussianErrorModel(), chi.GaussianErrorModel()])
predictive_model.fix_parameters({'out a Sigma': 1E-3, 'out b Sigma': 1E-3})

# a depends on age, b depends on weight
pop_a = chi.CovariatePopulationModel(
    chi.GaussianModel(), chi.LinearCovariateModel(n_cov=1))
pop_b = chi.CovariatePopulationModel(
    chi.LogNormalModel(), chi.LinearCovariateModel(n_cov=1))
population_model = chi.ComposedPopulationModel([pop_a, pop_b])
assert population_model.n_covariates() == 2

# Name the two covariates of the composed model
population_model.set_covariate_names(['Age', 'Weight'])
print('covariate names after set_covariate_names([Age, Weight]):',
      population_model.get_covariate_names())

model = chi.PopulationPredictiveModel(predictive_model, population_model)
parameters = [1, 0.1, 0.5, 0.01, 0, 0.1, 0.01, 0.001]
age_weight = np.array([[30., 70.], [40., 80.], [50., 90.]])
table = model.sample(
    parameters, times=[2, 1], n_samples=3, seed=1, covariates=age_weight)
cov_rows = table[table.Time.isna()]
print(cov_rows)

labels = list(cov_rows.Observable.unique())
violated = False
if population_model.get_covariate_names() != ['Age', 'Weight']:
    print('VIOLATION: ComposedPopulationModel.set_covariate_names is silently '
          'ignored.')
    violated = True
if len(labels) != 2:
    print('VIOLATION: the values of 2 different covariates (30/40/50 and '
          '70/80/90) are returned under the labels %s; the table does not '
          'say which value is which covariate.' % labels)
    violated = True

sys.exit(1 if violated else 0)
