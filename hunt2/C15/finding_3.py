"""
C15 finding 3: a request for zero samples is not answered with zero samples.

PredictiveModel, PosteriorPredictiveModel and PriorPredictiveModel return an
empty table for n_samples=0.  PopulationPredictiveModel.sample treats 0 like
"not given" (``if not n_samples: n_samples = 1``) and returns the measurements
of one virtual patient that was not requested; PAMPredictiveModel.sample
raises 'No objects to concatenate'.
"""
import sys

sys.path.insert(0, sys.argv[1])

import numpy as np  # noqa: E402
import xarray as xr  # noqa: E402
import chi  # noqa: E402


class Line(chi.MechanisticModel):
    """y = a + b t"""
    def n_outputs(self):
        return 1

    def n_parameters(self):
        return 2

    def outputs(self):
        return ['y']

    def parameters(self):
        return ['a', 'b']

    def has_sensitivities(self):
        return False

    def simulate(self, parameters, times):
        a, b = parameters
        return (a + b * np.asarray(times, dtype=float))[np.newaxis, :]


times = [1, 2]
model = chi.PredictiveModel(Line(), [chi.GaussianErrorModel()])
reference = model.sample([1, 1, 0.1], times, n_samples=0, seed=1)
print('PredictiveModel, n_samples=0: %d rows' % len(reference))

violated = False

# Population predictive model
pop_model = chi.PopulationPredictiveModel(model, chi.LogNormalModel(n_dim=3))
parameters = [0, 0, -2, 0.1, 0.1, 0.1]
array = pop_model.sample(
    parameters, times, n_samples=0, seed=1, return_df=False)
table = pop_model.sample(parameters, times, n_samples=0, seed=1)
print('PopulationPredictiveModel, n_samples=0: array of shape %s, table with '
      '%d rows, IDs %s' % (array.shape, len(table), list(table.ID.unique())))
if array.shape[-1] != 0 or len(table) != 0:
    print('VIOLATION: a virtual patient is returned although none was '
          'requested.')
    violated = True

# Averaged model
posterior = xr.Dataset({
    name: xr.DataArray(
        np.full((2, 3), value), dims=['chain', 'draw'],
        coords={'chain': [0, 1], 'draw': [0, 1, 2]})
    for name, value in zip(model.get_parameter_names(), [1, 1, 0.1])})
posterior_model = chi.PosteriorPredictiveModel(model, posterior)
print('PosteriorPredictiveModel, n_samples=0: %d rows' % len(
    posterior_model.sample(times, n_samples=0, seed=1)))
pam = chi.PAMPredictiveModel([posterior_model, posterior_model], [0.5, 0.5])
try:
    table = pam.sample(times, n_samples=0, seed=1)
    print('PAMPredictiveModel, n_samples=0: %d rows' % len(table))
    if len(table) != 0:
        violated = True
except Exception as e:
    print('VIOLATION: PAMPredictiveModel.sample(n_samples=0) raised %s: %s'
          % (type(e).__name__, e))
    violated = True

sys.exit(1 if violated else 0)
