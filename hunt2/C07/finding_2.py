"""
C07 finding 2: the selection of transformed parameters that was made on the
LinearCovariateModel (its documented, public set_population_parameters) is
silently discarded when the covariate model is wrapped into a
CovariatePopulationModel: all population parameters are transformed instead.
"""
import sys
sys.path.insert(0, sys.argv[1])
import numpy as np
import chi

failed = False

# Documented on LinearCovariateModel: "By default, only the first population
# parameter is transformed. The parameters can be selected with
# set_population_parameters."
cov_model = chi.LinearCovariateModel(n_cov=1)
cov_model.set_population_parameters([[0, 1]])        # mean of dimension 2 only
pidx, didx = cov_model.get_set_population_parameters()
print('selection on the covariate model:', list(zip(pidx, didx)),
      '-> n_parameters', cov_model.n_parameters())

pop_model = chi.GaussianModel(n_dim=2)
cpm = chi.CovariatePopulationModel(pop_model, cov_model)
names = cpm.get_parameter_names()
print('covariate population model parameters:', names)

n_beta = cpm.n_parameters() - pop_model.n_parameters()
if n_beta != 1:
    print('FAIL: %d covariate coefficients instead of the 1 selected one.'
          % n_beta)
    failed = True

# Reference: vartheta_i = vartheta_0 + beta * chi_i on [mean, dim 2] only,
# vartheta_0 elsewhere -> the std. and the mean of dim. 1 must not move with chi
theta0 = np.array([1., 2., 0.5, 0.7])
chis = np.array([[0.], [1.]])
# One coefficient per selected parameter, all equal 0.3
params = np.hstack([theta0, np.full(n_beta, 0.3)])
psi = np.array([[1.1, 2.2], [0.9, 2.5]])
ll = cpm.compute_log_likelihood(params, psi, chis)
ref = 0
for i in range(2):
    v = theta0.reshape(2, 2).copy()
    v[0, 1] += 0.3 * chis[i, 0]
    ref += pop_model.compute_log_likelihood(v, psi[i:i+1])
print('log-likelihood', ll, 'reference (selected parameter shifted only)', ref)
if not np.isclose(ll, ref):
    print('FAIL: parameters outside the selection are shifted by the '
          'covariates.')
    failed = True

sys.exit(1 if failed else 0)
