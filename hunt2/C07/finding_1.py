"""
C07 finding 1: ComposedPopulationModel.set_covariate_names is silently ignored,
so the covariate columns of a composite of covariate models cannot be named and
the names of the beta parameters do not identify the covariate they act on.
"""
import sys
sys.path.insert(0, sys.argv[1])
import numpy as np
import chi

C = chi.CovariatePopulationModel
L = chi.LinearCovariateModel

# Two covariate sub-models, each with its own covariate -> the composite has
# two covariate columns: column 0 acts on dimension 1, column 1 on dimension 2
pm = chi.ComposedPopulationModel([
    C(chi.PooledModel(), L(n_cov=1)),
    C(chi.PooledModel(), L(n_cov=1))])
assert pm.n_covariates() == 2

failed = False
print('default covariate names :', pm.get_covariate_names())

# Public API of every PopulationModel: name the covariates
pm.set_covariate_names(['Age', 'Weight'])
cov_names = pm.get_covariate_names()
names = pm.get_parameter_names()
print('after set_covariate_names(["Age", "Weight"]):', cov_names)
print('parameter names:', names)
if cov_names != ['Age', 'Weight']:
    print('FAIL: set_covariate_names on the composed model had no effect '
          '(no error either).')
    failed = True

# A list of the wrong length is accepted without an error, too
try:
    pm.set_covariate_names(['only one'])
    print('FAIL: a covariate name list of the wrong length was accepted.')
    failed = True
except ValueError:
    pass

# Which covariate column does each beta act on?  psi = theta0 + beta * chi
theta = np.array([1., 0., 2., 0.])   # [pooled 1, beta 1, pooled 2, beta 2]
base = np.zeros((1, 2))
eta = np.zeros((1, 2))
acts_on = {}
for k in [1, 3]:
    p = theta.copy()
    p[k] = 1.
    cols = []
    for col in range(2):
        cov = base.copy()
        cov[0, col] = 1.
        psi = pm.compute_individual_parameters(p, eta, cov)
        psi0 = pm.compute_individual_parameters(p, eta, base)
        if not np.allclose(psi, psi0):
            cols.append(col)
    acts_on[names[k]] = cols
print('beta name -> covariate column it multiplies:', acts_on)
cov_names = pm.get_covariate_names()
ok = (cov_names[0] != cov_names[1]) and names[1].endswith(cov_names[0]) \
    and names[3].endswith(cov_names[1])
if not ok:
    print('FAIL: the two betas act on different covariate columns (0 and 1) '
          'but their names do not tell the columns apart; '
          'get_covariate_names() = %s' % cov_names)
    failed = True

sys.exit(1 if failed else 0)
