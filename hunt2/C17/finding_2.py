"""
ProblemModellingController.set_population_model stores the caller's
population model object itself and reconfigures it (set_dim_names, set_n_ids).
Two controllers that are given the same population model (same model, two
cohorts) therefore share it: after the second controller received its data,
the first controller reports the parameter count / names for the other
cohort, demands a log-prior of that size, and can no longer build a
posterior (whose own count is correct).
"""
import sys
sys.path.insert(0, sys.argv[1])
import numpy as np
import pandas as pd
import pints
import chi


class Toy(chi.MechanisticModel):
    def __init__(self):
        super().__init__()
        self._sens = False

    def enable_sensitivities(self, enabled, parameter_names=None):
        self._sens = bool(enabled)

    def has_sensitivities(self):
        return self._sens

    def n_outputs(self):
        return 1

    def n_parameters(self):
        return 2

    def outputs(self):
        return ['y']

    def parameters(self):
        return ['p0', 'p1']

    def simulate(self, parameters, times):
        p = np.asarray(parameters, dtype=float)
        t = np.asarray(times, dtype=float)
        out = (p[0] + p[1] * t)[np.newaxis, :]
        if not self._sens:
            return out
        sens = np.zeros((len(t), 1, 2))
        sens[:, 0, 0] = 1
        sens[:, 0, 1] = t
        return out, sens


def data(n_ids):
    rows = []
    for i in range(n_ids):
        for t in [0., 1., 2.]:
            rows.append({
                'ID': i + 1, 'Time': t, 'Observable': 'y',
                'Value': 1. + i + t})
    return pd.DataFrame(rows)


# One population model specification, used for two cohorts
population_model = chi.ComposedPopulationModel([
    chi.LogNormalModel(), chi.PooledModel(), chi.HeterogeneousModel()])

cohort_a = chi.ProblemModellingController(Toy(), chi.GaussianErrorModel())
cohort_a.set_population_model(population_model)
cohort_a.set_data(data(2))
n_before = cohort_a.get_n_parameters()
names_before = cohort_a.get_parameter_names()
print('controller A (2 individuals):', n_before, names_before)

cohort_b = chi.ProblemModellingController(Toy(), chi.GaussianErrorModel())
cohort_b.set_population_model(population_model)
cohort_b.set_data(data(4))
print('controller B (4 individuals):', cohort_b.get_n_parameters())

n_after = cohort_a.get_n_parameters()
names_after = cohort_a.get_parameter_names()
print('controller A afterwards     :', n_after, names_after)

failed = False
if (n_after != n_before) or (names_after != names_before):
    print('-> count / names reported by controller A changed although A was '
          'not reconfigured')
    failed = True

# A log-prior of the reported size is accepted, but the posterior that the
# controller builds has another number of top-level parameters
for n in sorted(set([n_before, n_after])):
    prior = pints.ComposedLogPrior(
        *[pints.LogNormalLogPrior(0, 1) for _ in range(n)])
    try:
        cohort_a.set_log_prior(prior)
        posterior = cohort_a.get_log_posterior()
        n_top = posterior.n_parameters(exclude_bottom_level=True)
        print('prior of size %d: posterior with %d top-level parameters'
              % (n, n_top))
        if n_top != cohort_a.get_n_parameters():
            failed = True
    except Exception as e:
        print('prior of size %d: %s: %s' % (n, type(e).__name__, e))
        failed = True

sys.exit(1 if failed else 0)
