"""
ReducedPopulationModel caches the number of parameters (and sizes its mask of
fixed parameters) of the model it wraps when it is created, and refreshes
them only in set_n_ids. A CovariatePopulationModel has to be wrapped *before*
parameters are fixed (it refuses a reduced model), so the covariate model is
reconfigured through the wrapped model (get_population_model(), or the
caller's reference). After set_population_parameters the reduced model
reports a count that disagrees with its names and with the vector it
evaluates; with a fixed parameter get_parameter_names raises IndexError.
"""
import sys
sys.path.insert(0, sys.argv[1])
import numpy as np
import chi

failed = False


def report(label, model, n_ids, covariates):
    global failed
    try:
        n = model.n_parameters()
        names = model.get_parameter_names()
        n_bottom, n_top = model.n_hierarchical_parameters(n_ids)
        print(label)
        print('   n_parameters() = %d, %d names, n_top = %d' % (
            n, len(names), n_top))
        if not (n == len(names) == n_top):
            print('   -> counts disagree')
            failed = True
        # Evaluate a vector with one value per reported name
        theta = np.full(len(names), 0.8)
        psi = np.full((n_ids, model.n_dim()), 1.1)
        score, sens = model.compute_sensitivities(
            theta, psi, covariates=covariates, reduce=True)
        print('   gradient of length %d for %d reported parameters' % (
            len(sens) - n_bottom, n))
        if len(sens) - n_bottom != n:
            failed = True
    except Exception as e:
        print('   -> %s: %s' % (type(e).__name__, e))
        failed = True


n_ids = 3
covariates = np.array([[0.1, 0.2], [0.0, 0.1], [0.2, 0.0]])

# 1. No parameter fixed
covariate_model = chi.CovariatePopulationModel(
    chi.GaussianModel(), chi.LinearCovariateModel(n_cov=2))
model = chi.ReducedPopulationModel(covariate_model)
model.set_n_ids(n_ids)
report('reduced covariate model', model, n_ids, covariates)
# Only the mean depends on the covariates
model.get_population_model().set_population_parameters([[0, 0]])
report('after set_population_parameters([[0, 0]])', model, n_ids, covariates)

# 2. With a fixed parameter
covariate_model = chi.CovariatePopulationModel(
    chi.GaussianModel(), chi.LinearCovariateModel(n_cov=2))
model = chi.ReducedPopulationModel(covariate_model)
model.fix_parameters({'Std. Dim. 1': 0.5})
model.set_n_ids(n_ids)
report('reduced covariate model, Std. fixed', model, n_ids, covariates)
model.get_population_model().set_population_parameters([[0, 0]])
report('after set_population_parameters([[0, 0]])', model, n_ids, covariates)

sys.exit(1 if failed else 0)
