"""
PopulationFilterLogPosterior over a ReducedPopulationModel in which a pooled
(or heterogeneous) parameter is fixed: the posterior reports n_parameters(),
names and IDs of equal length, but no vector of that length can be evaluated:
__call__ and evaluateS1 raise ValueError in _reshape_bottom_parameters.
The same population model works in a HierarchicalLogLikelihood.
"""
import sys
sys.path.insert(0, sys.argv[1])
import numpy as np
import pints
import chi


class Toy(chi.MechanisticModel):
    """y(t) = p0 + p1 * t with analytic sensitivities."""
    def __init__(self):
        super().__init__()
        self._sens = False

    def enable_sensitivities(self, enabled, parameter_names=None):
        self._sens = bool(enabled)

    def has_sensitivities(self):
        return self._sens

    def n_outputs(self):
        return 1

    def n_parameters(self):
        return 2

    def outputs(self):
        return ['y']

    def parameters(self):
        return ['p0', 'p1']

    def simulate(self, parameters, times):
        p = np.asarray(parameters, dtype=float)
        t = np.asarray(times, dtype=float)
        out = (p[0] + p[1] * t)[np.newaxis, :]
        if not self._sens:
            return out
        sens = np.zeros((len(t), 1, 2))
        sens[:, 0, 0] = 1
        sens[:, 0, 1] = t
        return out, sens


def build(fixed):
    pop = chi.ReducedPopulationModel(chi.ComposedPopulationModel([
        chi.PooledModel(), chi.LogNormalModel()]))
    pop.fix_parameters(fixed)
    return pop


times = [0., 1., 2.]
obs = np.array([[[1., 2., 3.]], [[1.2, 2.1, 3.3]], [[0.9, 1.8, 2.7]]])
n_samples = 2
failed = False

# Reference: nothing fixed works, and so does fixing a non-special parameter
for label, fixed in [
        ('nothing fixed', {}),
        ('Log std. fixed', {'Log std. Dim. 1': 0.2}),
        ('pooled parameter fixed', {'Pooled Dim. 1': 1.0})]:
    pop = build(fixed)
    pop_copy = build(fixed)
    pop_copy.set_n_ids(n_samples)
    n_top = pop_copy.n_parameters()
    prior = pints.ComposedLogPrior(
        *[pints.LogNormalLogPrior(0, 0.2) for _ in range(n_top)])
    post = chi.PopulationFilterLogPosterior(
        chi.GaussianFilter(obs), times, Toy(), pop, prior, sigma=[0.5],
        n_samples=n_samples)
    n = post.n_parameters()
    names = post.get_parameter_names()
    ids = post.get_id()
    x = post.sample_initial_parameters(seed=1)[0]
    print('%s: n_parameters=%d, %d names, %d ids, initial point of length %d'
          % (label, n, len(names), len(ids), len(x)))
    try:
        score = post(x)
        score2, grad = post.evaluateS1(x)
        print('   evaluates: score %.4f, gradient of length %d'
              % (score, len(grad)))
        if len(grad) != n:
            failed = True
    except Exception as e:
        print('   CANNOT EVALUATE a vector of the reported length: %s: %s'
              % (type(e).__name__, e))
        failed = True

# The same reduced population model is fine in a hierarchical log-likelihood
pop = build({'Pooled Dim. 1': 1.0})
lls = [chi.LogLikelihood(
    Toy(), chi.GaussianErrorModel(), o[0], times) for o in obs]
for ll in lls:
    ll.fix_parameters({'Sigma': 0.5})
hll = chi.HierarchicalLogLikelihood(lls, pop)
x = np.full(hll.n_parameters(), 0.7)
print('HierarchicalLogLikelihood with the same model: n=%d, score %.4f, '
      'gradient length %d' % (
          hll.n_parameters(), hll(x), len(hll.evaluateS1(x)[1])))

sys.exit(1 if failed else 0)
