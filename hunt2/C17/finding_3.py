"""
ComposedPopulationModel only copies a sub-model that is passed twice
*directly*. If the same object is reachable twice through a wrapper
(ReducedPopulationModel keeps a reference to the model it wraps) or through a
nested ComposedPopulationModel, the composite contains one object for two
dimensions: the constructor's enumeration of dimensions and set_dim_names
overwrite each other, and distinct parameters get identical names (also with
ID prefixes in a hierarchical log-likelihood).
"""
import sys
sys.path.insert(0, sys.argv[1])
import numpy as np
import chi


class Toy(chi.MechanisticModel):
    def __init__(self):
        super().__init__()
        self._sens = False

    def enable_sensitivities(self, enabled, parameter_names=None):
        self._sens = bool(enabled)

    def has_sensitivities(self):
        return self._sens

    def n_outputs(self):
        return 1

    def n_parameters(self):
        return 1

    def outputs(self):
        return ['y']

    def parameters(self):
        return ['p0']

    def simulate(self, parameters, times):
        t = np.asarray(times, dtype=float)
        out = (parameters[0] + 0 * t)[np.newaxis, :]
        if not self._sens:
            return out
        return out, np.ones((len(t), 1, 1))


failed = False


def check(label, model, expected_dims):
    global failed
    names = model.get_parameter_names()
    dims = model.get_dim_names()
    print(label)
    print('   n_parameters', model.n_parameters(), 'names', names)
    print('   dim names   ', dims)
    if len(set(names)) != len(names):
        print('   -> distinct parameters share a name')
        failed = True
    if dims != expected_dims:
        print('   -> dimension names are not', expected_dims)
        failed = True


# 1. A Gaussian template, once with a fixed standard deviation and once free
gaussian = chi.GaussianModel()
reduced = chi.ReducedPopulationModel(gaussian)
reduced.fix_parameters({'Std. Dim. 1': 0.3})
model = chi.ComposedPopulationModel([reduced, gaussian])
check('ComposedPopulationModel([Reduced(g), g])', model, ['Dim. 1', 'Dim. 2'])
model.set_dim_names(['CL', 'V'])
check('   after set_dim_names([CL, V])', model, ['CL', 'V'])

# 2. The same object directly and inside a nested composite
gaussian = chi.GaussianModel()
model = chi.ComposedPopulationModel([
    gaussian,
    chi.ComposedPopulationModel([gaussian, chi.PooledModel()])])
check('ComposedPopulationModel([g, Composed([g, Pooled])])', model,
      ['Dim. 1', 'Dim. 2', 'Dim. 3'])

# 3. Names of a hierarchical log-likelihood (prefixed by the IDs)
gaussian = chi.GaussianModel()
reduced = chi.ReducedPopulationModel(gaussian)
reduced.fix_parameters({'Std. Dim. 1': 0.3})
model = chi.ComposedPopulationModel([reduced, gaussian])
lls = [
    chi.LogLikelihood(Toy(), chi.GaussianErrorModel(), [1., 2.], [0., 1.])
    for _ in range(2)]
hll = chi.HierarchicalLogLikelihood(lls, model)
names = hll.get_parameter_names(include_ids=True)
print('hierarchical names:', names)
if len(set(names)) != len(names):
    print('   -> distinct parameters share a name')
    failed = True

sys.exit(1 if failed else 0)
