#!/bin/bash
# tools/fixdone.sh <prop[,prop2]> <slug> "<fix: commit subject>" "<what failed>"
# after editing /repo: runs the pinned tests, commits the repair, records it in
# known_findings.json and keeps the reverse of the repair as a self-test mutant
set -e
props=$1; slug=$2; msg=$3; what=$4
cd /verif
/venv/bin/python tools/baseline_check.py > .scratch/baseline_last.txt || { cat .scratch/baseline_last.txt; exit 1; }; tail -1 .scratch/baseline_last.txt
git -C /repo add -A
git -C /repo commit -qm "$msg"
c=$(git -C /repo rev-parse --short HEAD)
first=${props%%,*}
f=selftest/mutants/revert_${first}-${slug}.patch
{ echo "# checks: ${props//,/ }"; echo "# reverse of fix commit $c: $what"; git -C /repo show -R --format= HEAD; } > $f
python3 tools/kf.py fixed $first $c KF-${first}-${slug} "$what"
echo "committed $c; mutant $f"
