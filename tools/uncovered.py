#!/venv/bin/python
"""
Which statements of chi did NO check execute?

    CHI_VERIF_LINEDUMP=/verif/.scratch/lines ./run.py all      # writes dumps
    tools/uncovered.py [/verif/.scratch/lines] [--repo /repo]

Prints, per source file and function, the executable lines that no shard of
any check reached (docstrings, `def` lines and blank lines are not counted).
A diagnostic for the workload generators: an entry point or a branch that is
listed here is not driven by any workload, so no monitor can observe it.
"""
import ast
import glob
import json
import os
import sys


def executable_lines(path):
    """line -> qualified function name, for every statement in a function"""
    src = open(path).read()
    tree = ast.parse(src)
    out = {}

    def visit(node, qual):
        for child in ast.iter_child_nodes(node):
            if isinstance(child, (ast.FunctionDef, ast.AsyncFunctionDef)):
                q = qual + [child.name]
                body = child.body
                if body and isinstance(body[0], ast.Expr) and isinstance(
                        getattr(body[0], 'value', None), ast.Constant) and \
                        isinstance(body[0].value.value, str):
                    body = body[1:]
                for st in body:
                    for sub in ast.walk(st):
                        if isinstance(sub, ast.stmt) and not isinstance(
                                sub, (ast.FunctionDef, ast.ClassDef)):
                            out.setdefault(sub.lineno, '.'.join(q))
                visit(child, q)
            elif isinstance(child, ast.ClassDef):
                visit(child, qual + [child.name])
            else:
                visit(child, qual)
    visit(tree, [])
    return out, src.splitlines()


def main():
    args = [a for a in sys.argv[1:] if not a.startswith('--')]
    dump = args[0] if args else '/verif/.scratch/lines'
    repo = '/repo'
    if '--repo' in sys.argv:
        repo = sys.argv[sys.argv.index('--repo') + 1]
    seen = set()
    for f in glob.glob(os.path.join(dump, '*.json')):
        for fn, ln in json.load(open(f)):
            seen.add((fn, ln))
    total = miss = 0
    for path in sorted(glob.glob(os.path.join(repo, 'chi', '**', '*.py'),
                                 recursive=True)):
        rel = os.path.relpath(path, repo)
        if '/tests/' in rel or rel.endswith('version.py'):
            continue
        lines, src = executable_lines(path)
        by_fn = {}
        for ln, q in sorted(lines.items()):
            total += 1
            if (rel, ln) not in seen:
                miss += 1
                by_fn.setdefault(q, []).append(ln)
        if by_fn:
            print('== %s' % rel)
            for q, lns in by_fn.items():
                n_all = sum(1 for v in lines.values() if v == q)
                tag = 'NEVER CALLED' if len(lns) == n_all else ''
                print('  %s: %d of %d statements not reached %s' % (
                    q, len(lns), n_all, tag))
                if '--lines' in sys.argv and tag == '':
                    for ln in lns[:12]:
                        print('      %5d  %s' % (ln, src[ln - 1].strip()[:90]))
    print('statements in functions: %d, not reached by any check: %d' % (
        total, miss))


if __name__ == '__main__':
    main()
