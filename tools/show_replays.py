#!/usr/bin/env python3
import json,glob,sys
for f in sorted(glob.glob('/verif/replays/%s/*.json'%sys.argv[1])):
    r=json.load(open(f))
    print('=====',r['mechanism'], r['family'], r['idx'], r['n_witnesses'], f.split('/')[-1])
    d=r['detail']
    for k in d:
        if k=='case':
            c=d[k]; print('  case:',{kk:c[kk] for kk in c if kk not in ('x','covariates','observations')})
        else:
            print('  %s: %s'%(k, str(d[k])[:600]))
