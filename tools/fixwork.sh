#!/bin/bash
# tools/fixwork.sh <prop[,prop2]> <slug> "<fix: commit subject>" "<what failed>"
# like fixdone.sh, but for repairs prepared on the branch r7fixes in the scratch worktree
# /tmp/fixwork (while /repo itself is being read by review agents / long runs); /repo is
# fast-forwarded to the branch afterwards
set -e
props=$1; slug=$2; msg=$3; what=$4
cd /verif
/venv/bin/python tools/baseline_check.py /tmp/fixwork > .scratch/baseline_last.txt || { cat .scratch/baseline_last.txt; exit 1; }; tail -1 .scratch/baseline_last.txt
git -C /tmp/fixwork add -A
git -C /tmp/fixwork commit -qm "$msg"
c=$(git -C /tmp/fixwork rev-parse --short HEAD)
first=${props%%,*}
f=selftest/mutants/revert_${first}-${slug}.patch
{ echo "# checks: ${props//,/ }"; echo "# reverse of fix commit $c: $what"; git -C /tmp/fixwork show -R --format= HEAD; } > $f
python3 tools/kf.py fixed $first $c KF-${first}-${slug} "$what"
echo "committed $c on r7fixes; mutant $f"
