#!/venv/bin/python
"""
Confirms a sub-agent's seeded change and files it under /verif/seeded/<id>/.

    tools/ingest_seed.py C01 [name] [--checks C01 C03]

Confirmation (all in a fresh scratch worktree of /repo HEAD, removed after):
  1. patch applies;  2. demo exits 0 on /repo and 1 on the patched tree;
  3. the repository's stable tests still pass on the patched tree.
Then copies patch.diff / demo.py / notes.md, writes meta.json.
"""
import json
import os
import shutil
import subprocess
import sys
import tempfile

VERIF = os.path.dirname(os.path.dirname(os.path.abspath(__file__)))


def main():
    prop = sys.argv[1]
    args = sys.argv[2:]
    checks = [prop]
    if '--checks' in args:
        i = args.index('--checks')
        checks = args[i + 1:]
        args = args[:i]
    src = None
    if '--src' in args:
        i = args.index('--src')
        src = args[i + 1]
        args = args[:i] + args[i + 2:]
    name = args[0] if args else prop
    if src is None:
        src = '/tmp/seed_%s_out' % name if os.path.isdir(
            '/tmp/seed_%s_out' % name) else '/tmp/seed_%s_out' % prop
    patch = os.path.join(src, 'patch.diff')
    demo = os.path.join(src, 'demo.py')
    ran = []
    scratch = tempfile.mkdtemp(prefix='chi_seedchk_', dir='/tmp')
    os.rmdir(scratch)
    ok = True
    try:
        subprocess.run(['git', '-C', '/repo', 'worktree', 'add', '--detach',
                        scratch, 'HEAD'], check=True, capture_output=True)
        ap = subprocess.run(['git', '-C', scratch, 'apply', patch],
                            capture_output=True, text=True)
        ran.append('git apply patch.diff -> %d' % ap.returncode)
        if ap.returncode != 0:
            print('patch does not apply:', ap.stderr[-400:])
            return 1
        d0 = subprocess.run(['/venv/bin/python', demo, '/repo'],
                            capture_output=True, text=True, timeout=1800)
        d1 = subprocess.run(['/venv/bin/python', demo, scratch],
                            capture_output=True, text=True, timeout=1800)
        ran.append('demo.py /repo -> exit %d' % d0.returncode)
        ran.append('demo.py <patched> -> exit %d' % d1.returncode)
        print(ran[-2], '|', ran[-1])
        if d0.returncode != 0 or d1.returncode == 0:
            print('demo does not discriminate')
            print(d0.stdout[-600:], d0.stderr[-600:])
            print(d1.stdout[-600:], d1.stderr[-300:])
            ok = False
        b = subprocess.run([os.path.join(VERIF, 'tools', 'baseline_check.py'),
                            scratch], capture_output=True, text=True)
        ran.append('stable tests on patched tree -> %s' % (
            'all 346 pass' if b.returncode == 0 else 'SOME FAIL'))
        print(ran[-1], b.stdout[-200:] if b.returncode else '')
        if b.returncode != 0:
            ok = False
    finally:
        subprocess.run(['git', '-C', '/repo', 'worktree', 'remove', '--force',
                        scratch], capture_output=True)
        shutil.rmtree(scratch, ignore_errors=True)
    if not ok:
        return 1
    dst = os.path.join(VERIF, 'seeded', name)
    os.makedirs(dst, exist_ok=True)
    for f in ('patch.diff', 'demo.py', 'notes.md'):
        if os.path.exists(os.path.join(src, f)):
            shutil.copy(os.path.join(src, f), os.path.join(dst, f))
    notes = open(os.path.join(dst, 'notes.md')).read() if os.path.exists(
        os.path.join(dst, 'notes.md')) else ''
    meta = {'property': prop, 'checks': checks,
            'source': 'independent sub-agent given only the property text '
                      'and a scratch worktree',
            'needs_to_manifest': '(see notes.md)',
            'what_was_run': ran, 'notes_head': notes[:600]}
    json.dump(meta, open(os.path.join(dst, 'meta.json'), 'w'), indent=1)
    print('filed under', dst)
    return 0


if __name__ == '__main__':
    sys.exit(main())
