#!/bin/bash
# runs the thorough tier of every check against /repo; output under .scratch/thorough_out (not the committed evidence)
cd /verif
export VERIF_OUT=/verif/.scratch/thorough_out
for p in "$@"; do
  echo "=== $p $(date +%T)"; ./run.py $p --tier thorough 2>&1 | cut -c1-400 | tail -12
done
