#!/venv/bin/python
"""Runs the repository's whole test-suite with the reference core behind myokit.Simulation (faithfulness of the stub;
also exercises the fix: commits against the solver-dependent tests that cannot run in the plain sandbox)."""
import os, subprocess, sys, tempfile, xml.etree.ElementTree as ET
repo = sys.argv[1] if len(sys.argv) > 1 else '/repo'
out = tempfile.mktemp(suffix='.xml', dir='/verif/.scratch')
env = dict(os.environ, CHI_VERIF_REFSIM='1', PYTHONPATH='/verif/harness/sitecustom:' + repo)
p = subprocess.run(['/venv/bin/python', '-m', 'pytest', '-q', '-p', 'no:cacheprovider', '--timeout=900', '-x' if False else '-q',
                    '--junitxml=' + out], cwd=repo, env=env, capture_output=True, text=True)
n_pass, bad = 0, []
for tc in ET.parse(out).getroot().iter('testcase'):
    if not list(tc):
        n_pass += 1
    else:
        bad.append('%s::%s' % (tc.get('classname'), tc.get('name')))
os.remove(out)
print('passed %d, not passed %d' % (n_pass, len(bad)))
for b in bad:
    print('  ', b)
