#!/venv/bin/python
"""Regenerates MANIFEST.json from the check modules that exist."""
import importlib, json, os, sys
VERIF = os.path.dirname(os.path.dirname(os.path.abspath(__file__)))
sys.path.insert(0, VERIF)
os.environ.setdefault('CHI_REPO', '/repo')
props = [json.loads(l) for l in open(os.path.join(VERIF, 'properties.jsonl'))]
checks, na = [], []
for p in props:
    pid = p['id']
    path = os.path.join(VERIF, 'checks', pid.lower() + '.py')
    if not os.path.exists(path):
        na.append({'property_id': pid, 'reason': 'check not built yet (planned, see DESIGN.md section 3)'})
        continue
    src = open(path).read()
    ns = {}
    # read the declarative constants without importing chi
    import ast
    tree = ast.parse(src)
    for node in tree.body:
        if isinstance(node, ast.Assign) and len(node.targets) == 1 and isinstance(node.targets[0], ast.Name) \
                and node.targets[0].id in ('TITLE', 'RULE', 'ASSUMPTIONS', 'TECHNIQUE', 'LEVEL_TEXT'):
            try:
                ns[node.targets[0].id] = ast.literal_eval(node.value)
            except Exception:
                pass
    checks.append({
        'property_id': pid,
        'quick_cmd': './run.py %s --tier quick' % pid,
        'thorough_cmd': './run.py %s --tier thorough' % pid,
        'evidence_file': 'evidence/%s.json' % pid,
        'replay_cmd_template': './run.py %s --replay {path}' % pid,
        'engine': 'chi-runtime-monitor',
        'level_claimed': {
            'category': 'exploration',
            'text': ns.get('LEVEL_TEXT', 'Runtime monitoring: the real chi code is executed on seeded, '
                    'hostile workloads (' + ns.get('TITLE', pid) + ') and an independent reference oracle / '
                    'contract monitor decides every observed execution. Holds only for the executions listed '
                    'in the evidence file.'),
            'design_ref': 'DESIGN.md section 3, ' + pid},
        'level_note': '; '.join(ns.get('ASSUMPTIONS', [])),
        'technique': ns.get('TECHNIQUE', 'runtime monitoring: reference-model oracle + contract monitors over seeded workloads'),
    })
manifest = {
    'version': 1,
    'setup_cmd': 'mkdir -p .scratch evidence && /venv/bin/python -c "import numpy, scipy, pandas, myokit, pints"',
    'hooks': {
        'guard': 'CHI_VERIF',
        'enable': 'no source hooks in /repo: run.py sets CHI_VERIF=1 and PYTHONPATH=$CHI_REPO (default /repo) and the harness '
                  'attaches monitors, taps and the reference solver core by monkey-patching at import time',
        'baseline_off_cmd': 'cd /repo && /venv/bin/python -m pytest -ra -q -p no:cacheprovider --timeout=900 --continue-on-collection-errors',
        'source_commits': [],
        'add_only': True,
    },
    'engines': [{
        'name': 'chi-runtime-monitor', 'path': 'run.py',
        'serves_properties': [c['property_id'] for c in checks],
        'kind_free_text': 'seeded workload generators + reference-model oracles + contract/tap monitors on the real chi '
                          '(reference ODE core behind myokit.Simulation)'}],
    'checks': checks,
    'not_applicable': na,
    'notes': 'See DESIGN.md. VERIF_SEED and VERIF_TIER are honoured; CHI_REPO selects the tree under test (default /repo). '
             'Exit codes: 0 held, 1 violated (VIOLATION line with a replay file), 2 inconclusive (a required monitor '
             'counter below its minimum, a harness error, or the wall-clock watchdog of 900 s quick / 5400 s thorough per '
             'shard cut the workload short). Known findings: known_findings.json (committed, never written at run time; '
             'classifiers by mechanism in harness/findings.py). Quick tier of all 20 checks: about 4 minutes on 16 idle '
             'cores; thorough tier: about 45 minutes. Self-test of the monitors against reverse mutants of the repairs and '
             'the seeded changes under seeded/: selftest/run_selftest.py (results in selftest/RESULTS.md).',
}
json.dump(manifest, open(os.path.join(VERIF, 'MANIFEST.json'), 'w'), indent=1)
print('checks:', [c['property_id'] for c in checks], 'n/a:', len(na))
