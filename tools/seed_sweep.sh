#!/bin/bash
# quick tier of every check for several VERIF_SEED values; output not committed
cd /verif
export VERIF_OUT=/verif/.scratch/sweep_out
mkdir -p $VERIF_OUT
for sd in "$@"; do
  for i in $(seq -w 1 20); do
    VERIF_SEED=$sd ./run.py C$i --tier quick 2>&1 | grep -v "^KNOWN" | cut -c1-300 | tail -3
  done
done
