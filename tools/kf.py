#!/usr/bin/env python3
"""tools/kf.py fixed <prop> <commit> <id> <what failed>   |   open <prop> <id> <classifier> <mechanism>"""
import json, sys
p = '/verif/known_findings.json'
d = json.load(open(p))
kind = sys.argv[1]
if kind == 'fixed':
    _, _, prop, commit, kid, what = sys.argv
    d = [e for e in d if e['id'] != kid]
    d.append({'id': kid, 'property': prop, 'status': 'fixed', 'commit': commit, 'mechanism': what,
              'record': 'fixed: property=%s %s %s' % (prop, commit, what)})
else:
    _, _, prop, kid, classifier, what = sys.argv
    d = [e for e in d if e['id'] != kid]
    d.append({'id': kid, 'property': prop, 'status': 'open', 'classifier': classifier, 'mechanism': what})
json.dump(d, open(p, 'w'), indent=1)
