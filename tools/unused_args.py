#!/venv/bin/python
"""lists parameters of chi methods that never received a non-default value
(see harness/argdump.py)"""
import glob
import json
import os
import sys

d = sys.argv[1] if len(sys.argv) > 1 else '/verif/.scratch/args'
tot = {}
for f in glob.glob(os.path.join(d, '*.json')):
    for q, rec in json.load(open(f)).items():
        t = tot.setdefault(q, {})
        for name, (n, nd) in rec.items():
            r = t.setdefault(name, [0, 0])
            r[0] += n
            r[1] += nd
never_called, unused = [], []
for q, rec in sorted(tot.items()):
    if not rec:
        continue
    if all(r[0] == 0 for r in rec.values()):
        never_called.append(q)
        continue
    for name, (n, nd) in rec.items():
        if nd == 0:
            unused.append('%s(%s=...)  called %d times, always default'
                          % (q, name, n))
print('methods with keyword parameters that were never called: %d' %
      len(never_called))
for q in never_called:
    print('  ' + q)
print('parameters that never received a non-default value: %d' % len(unused))
for u in unused:
    print('  ' + u)
