#!/venv/bin/python
"""Runs the repository's pinned test command (guard off) and compares with BASELINE.json stable_pass."""
import json, os, subprocess, sys, tempfile, xml.etree.ElementTree as ET
repo = sys.argv[1] if len(sys.argv) > 1 else '/repo'
base = json.load(open('/root/.vp/BASELINE.json'))
out = tempfile.mktemp(suffix='.xml', dir='/verif/.scratch')
env = dict(os.environ); env.pop('CHI_VERIF', None); env.pop('PYTHONPATH', None)
if repo != '/repo':
    env['PYTHONPATH'] = repo
cmd = ['/venv/bin/python', '-m', 'pytest', '-q', '-p', 'no:cacheprovider', '--timeout=900', '-x' if False else '-q',
       '--continue-on-collection-errors', '--junitxml=' + out, '-n', '8'] if False else \
      ['/venv/bin/python', '-m', 'pytest', '-q', '-p', 'no:cacheprovider', '--timeout=900',
       '--continue-on-collection-errors', '--junitxml=' + out]
p = subprocess.run(cmd, cwd=repo, env=env, capture_output=True, text=True)
passed = set()
for tc in ET.parse(out).getroot().iter('testcase'):
    if not list(tc):
        passed.add('%s::%s' % (tc.get('classname'), tc.get('name')))
os.remove(out)
missing = [t for t in base['stable_pass'] if t not in passed]
print('stable_pass: %d, passing now: %d, missing: %d' % (len(base['stable_pass']), len(passed), len(missing)))
for m in missing[:20]:
    print('  MISSING', m)
sys.exit(1 if missing else 0)
