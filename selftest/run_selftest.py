#!/venv/bin/python
"""
Mutation self-test: applies every patch of selftest/mutants/*.patch and
seeded/<id>/patch.diff to a scratch git worktree of /repo (under /tmp,
removed afterwards), optionally confirms that the repository's stable tests
still pass there, runs the named checks with CHI_REPO=<scratch> and records
which ones fire.

    selftest/run_selftest.py [--only NAME] [--baseline] [--tier quick]

Each patch carries a header line  `# checks: C05 C02`  naming the checks
expected to catch it (default: the property in the file name).
Results: selftest/RESULTS.json and selftest/RESULTS.md
"""
import argparse
import glob
import json
import os
import re
import shutil
import subprocess
import sys
import tempfile
import time
from concurrent.futures import ThreadPoolExecutor

VERIF = os.path.dirname(os.path.dirname(os.path.abspath(__file__)))


def mutants():
    out = []
    for p in sorted(glob.glob(os.path.join(VERIF, 'selftest', 'mutants',
                                           '*.patch'))):
        out.append((os.path.basename(p)[:-6], p))
    for d in sorted(glob.glob(os.path.join(VERIF, 'seeded', '*'))):
        p = os.path.join(d, 'patch.diff')
        if os.path.exists(p):
            out.append(('seeded/' + os.path.basename(d), p))
    return out


def expected_checks(name, path):
    head = open(path).read(2000)
    m = re.search(r'^# checks: (.*)$', head, re.M)
    if m:
        return m.group(1).split()
    meta = os.path.join(os.path.dirname(path), 'meta.json')
    if os.path.exists(meta):
        j = json.load(open(meta))
        return j.get('checks') or [j['property']]
    m = re.search(r'(C\d\d)', name)
    return [m.group(1)] if m else []


def neutralised(path):
    """reason, if a later repair of /repo made this seeded change harmless
    (its demonstration passes on the patched tree) or removed the code it
    changed"""
    meta = os.path.join(os.path.dirname(path), 'meta.json')
    if os.path.exists(meta):
        return json.load(open(meta)).get('neutralised_by')
    return None


def run_one(name, path, tier, baseline, shards):
    t0 = time.time()
    why = neutralised(path)
    if why:
        return {'mutant': name, 'checks': {}, 'applied': False,
                'neutralised_by': why}
    scratch = tempfile.mkdtemp(prefix='chi_mut_', dir='/tmp')
    os.rmdir(scratch)
    res = {'mutant': name, 'checks': {}, 'applied': False}
    try:
        subprocess.run(['git', '-C', '/repo', 'worktree', 'add', '--detach',
                        scratch, 'HEAD'], check=True, capture_output=True)
        ap = subprocess.run(['git', '-C', scratch, 'apply', path],
                            capture_output=True, text=True)
        if ap.returncode != 0:
            res['error'] = 'patch does not apply: ' + ap.stderr[-300:]
            return res
        res['applied'] = True
        if baseline:
            b = subprocess.run(
                [os.path.join(VERIF, 'tools', 'baseline_check.py'), scratch],
                capture_output=True, text=True)
            res['baseline_ok'] = b.returncode == 0
            res['baseline_tail'] = b.stdout[-300:]
        out_dir = tempfile.mkdtemp(prefix='selftest_out_',
                                   dir=os.path.join(VERIF, '.scratch'))
        for chk in expected_checks(name, path):
            env = dict(os.environ, CHI_REPO=scratch, VERIF_OUT=out_dir)
            p = subprocess.run(
                [os.path.join(VERIF, 'run.py'), chk, '--tier', tier,
                 '--shards', str(shards)],
                cwd=VERIF, env=env, capture_output=True, text=True)
            lines = [l for l in p.stdout.splitlines()
                     if l.startswith('VIOLATION') or 'mechanism=' in l]
            res['checks'][chk] = {
                'exit': p.returncode,
                'fired': p.returncode == 1,
                'witness': lines[:4],
                'summary': p.stdout.strip().splitlines()[-1][:200]
                if p.stdout.strip() else p.stderr[-200:]}
        shutil.rmtree(out_dir, ignore_errors=True)
    finally:
        subprocess.run(['git', '-C', '/repo', 'worktree', 'remove',
                        '--force', scratch], capture_output=True)
        shutil.rmtree(scratch, ignore_errors=True)
        res['wall_s'] = round(time.time() - t0, 1)
    return res


def main():
    ap = argparse.ArgumentParser()
    ap.add_argument('--only')
    ap.add_argument('--baseline', action='store_true')
    ap.add_argument('--tier', default='quick')
    ap.add_argument('--jobs', type=int, default=4)
    args = ap.parse_args()
    os.makedirs(os.path.join(VERIF, '.scratch'), exist_ok=True)
    todo = [(n, p) for n, p in mutants()
            if not args.only or re.search(args.only, n)]
    shards = max(2, 16 // max(1, min(args.jobs, len(todo))))
    with ThreadPoolExecutor(max_workers=args.jobs) as ex:
        results = list(ex.map(
            lambda np_: run_one(np_[0], np_[1], args.tier, args.baseline,
                                shards), todo))
    path = os.path.join(VERIF, 'selftest', 'RESULTS.json')
    old = {}
    if os.path.exists(path) and args.only:
        old = {r['mutant']: r for r in json.load(open(path))}
    for r in results:
        old[r['mutant']] = r
    # (results of mutants that were retired since are dropped)
    present = set(n for n, _ in mutants())
    old = {k: v for k, v in old.items() if k in present}
    allr = [old[k] for k in sorted(old)]
    json.dump(allr, open(path, 'w'), indent=1)
    lines = ['# Mutation self-test results', '',
             '| mutant | baseline tests | check | fired | witness |',
             '|---|---|---|---|---|']
    missed = 0
    for r in allr:
        if r.get('neutralised_by'):
            lines.append('| %s | - | - | neutralised | by fix %s |' % (
                r['mutant'], r['neutralised_by'][:120].replace('|', '/')))
            continue
        if not r.get('applied'):
            lines.append('| %s | - | - | PATCH FAILED | %s |' % (
                r['mutant'], r.get('error', '')[:80]))
            missed += 1
            continue
        for chk, c in r['checks'].items():
            w = (c['witness'][1].strip() if len(c['witness']) > 1 else
                 c['summary'])[:110].replace('|', '/')
            lines.append('| %s | %s | %s | %s | %s |' % (
                r['mutant'], {True: 'pass', False: 'FAIL', None: '-'}[
                    r.get('baseline_ok')], chk,
                'yes' if c['fired'] else '**NO** (exit %s)' % c['exit'], w))
        if not any(c['fired'] for c in r['checks'].values()):
            missed += 1
    lines += ['', '%d mutants, %d not caught by any expected check' % (
        len(allr), missed)]
    open(os.path.join(VERIF, 'selftest', 'RESULTS.md'), 'w').write(
        '\n'.join(lines) + '\n')
    print('\n'.join(lines[-12:]))
    for r in results:
        fired = [k for k, c in r['checks'].items() if c['fired']]
        print(r['mutant'], 'fired:', fired, 'of', list(r['checks']),
              r.get('error', ''), 'baseline:', r.get('baseline_ok'))


if __name__ == '__main__':
    main()
