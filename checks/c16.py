"""
C16 - seeds fully determine random results; random streams are independent.
Monitors: equality of results of paired calls made under different global
generator states with foreign sampling in between; difference under different
seeds; rank correlation / exact duplicate detection across outputs, time
points, individuals and samples within one call; generator-state digests for
Generator seeds.
"""
import random

import numpy as np
import pints
import xarray as xr

from harness.bootstrap import load_chi
from harness.core import Family
from harness import gen_pop as GP
from harness import toys
from harness.oracle import densities as D
from harness.oracle import stats as S
from checks import c15

chi = load_chi()

PROP = 'C16'
TITLE = 'seeds determine results; random streams are independent'
RULE = (
    'entry points: 4 error models (+reduced), Gaussian / LogNormal / '
    'TruncatedGaussian / Pooled / Heterogeneous / Composed / Covariate / '
    'Reduced population models, PredictiveModel, PopulationPredictiveModel, '
    'PriorPredictiveModel, PosteriorPredictiveModel, PAMPredictiveModel, '
    'sample_initial_parameters of LogPosterior / HierarchicalLogPosterior / '
    'PopulationFilterLogPosterior; each with several global-generator '
    'states, interleaved foreign sampling, int seeds and Generator objects '
    '(where documented); signature = (entry point, configuration, global '
    'state index); non-trivial = every case')
ASSUMPTIONS = [
    'a Generator is only required to be accepted where the docstring names '
    'numpy.random.Generator (PredictiveModel, PopulationPredictiveModel, '
    'PriorPredictiveModel, PosteriorPredictiveModel, '
    'ComposedPopulationModel); elsewhere a refusal is a rejection',
    'rank-correlation threshold with family-wise false alarm <= 1e-9',
    "integer seeds are drawn below 2**32 (the routines that seed the legacy generator refuse larger ones; reviewers' observation, outside the property)",
    "of the generators owned by scipy distribution objects only truncnorm's (the one chi draws from itself) is set by the workload: pints priors draw from scipy.stats.norm etc. and can only be seeded through numpy's legacy global generator, which chi does",
    'samplers whose only randomness is a discrete choice (a bare HeterogeneousModel) may repeat a draw under another seed: excluded from the seed-collision monitor',
]
ANCHORS = [
    'chi._predictive_models.PredictiveModel.sample',
    'chi._predictive_models.PopulationPredictiveModel.sample',
    'chi._predictive_models.PriorPredictiveModel.sample',
    'chi._predictive_models.PosteriorPredictiveModel.sample',
    'chi._predictive_models.PAMPredictiveModel.sample',
    'chi._log_pdfs.HierarchicalLogPosterior.sample_initial_parameters',
    'chi._log_pdfs.LogPosterior.sample_initial_parameters',
    'chi._log_pdfs.PopulationFilterLogPosterior.sample_initial_parameters',
]
REQUIRED = {'reproducibility_pairs': 150, 'seed_sensitivity_pairs': 100,
            'generator_checks': 30, 'stream_independence_tests': 40,
            'sweep_seeds_drawn': 20000, 'history_independence_pairs': 100}

TIMES = np.array([0.5, 1.2, 2.0])


def _vals(out):
    """numeric content of a sampling result (array or table)"""
    if hasattr(out, 'columns'):
        v = out['Value'].to_numpy(dtype=float)
        extra = out['ID'].to_numpy(dtype=float) if 'ID' in out else []
        return np.concatenate([v, extra])
    return np.asarray(out, dtype=float)


def _same(a, b):
    a, b = _vals(a), _vals(b)
    return a.shape == b.shape and np.array_equal(a, b, equal_nan=True)


# ---------------------------------------------------------- entry points
def ep_error_model(rng, i):
    cname = sorted(D.ERROR_MODELS)[i % 4]
    npar = D.ERROR_MODELS[cname][0]
    m = getattr(chi, cname)()
    p = rng.uniform(0.1, 0.5, npar)
    if i % 8 >= 4:
        m = chi.ReducedErrorModel(m)
        if npar == 2:
            m.fix_parameters({m.get_parameter_names()[0]: float(p[0])})
            p = p[1:]
    ybar = rng.uniform(1, 5, 4)
    return (cname + ('/reduced' if i % 8 >= 4 else ''),
            lambda seed: m.sample(p, ybar, n_samples=5, seed=seed), False,
            True,
            lambda: m.sample(p * 1.3, ybar[::-1] * 2, n_samples=2, seed=5))


def ep_population(rng, i):
    kinds = [('G', True), ('G', False), ('L', True), ('T', True),
             ('P', True), ('H', True), 'composed', 'covariate', 'reduced']
    k = kinds[i % len(kinds)]
    n_ids = 3
    if k == 'composed':
        leaves = GP.random_composition(rng, n_ids, max_parts=3, max_dim=2,
                                       kinds='GLT', p_cov=0.3)
        if len(leaves) == 1:
            leaves.append(GP.make_leaf('L', 1))
    elif k == 'covariate':
        leaves = [GP.random_leaf(rng, n_ids, kinds='GLT', p_cov=1.0)]
    elif k == 'reduced':
        leaves = GP.random_composition(rng, n_ids, max_parts=2, max_dim=2,
                                       kinds='GLT', p_cov=0.0)
    else:
        leaves = [GP.make_leaf(k[0], int(rng.integers(1, 3)), k[1], 0, None,
                               n_ids)]
    m = GP.build_chi(leaves, n_ids, force_composed=(k == 'composed'))
    top = np.concatenate([GP.leaf_top(rng, l, n_ids) for l in leaves])
    if k == 'reduced':
        m = chi.ReducedPopulationModel(m)
    n_cov = sum(l.n_cov() for l in leaves)
    kw = {}
    if n_cov:
        kw['covariates'] = rng.uniform(-1, 1, size=(6, n_cov))
    code = '+'.join(GP.leaf_code(l) for l in leaves)
    has_rand = any(l.kind != 'P' for l in leaves)
    def vary():
        kw2 = {'covariates': kw['covariates'][::-1] * 0.5} if kw else {}
        t2 = np.array(top)
        t2[:len(t2) - sum(l.n_top(n_ids) - l.n_base(n_ids)
                          for l in leaves)] *= 1.2
        m.sample(t2, n_samples=6, seed=11, **kw2)
    if not kw and (i // len(kinds)) % 2 == 1:
        # (parameters, n_samples, seed) by position
        return ('population:' + (k if isinstance(k, str) else code),
                lambda seed: m.sample(top, 6, seed),
                k == 'composed', has_rand, vary)
    return ('population:' + (k if isinstance(k, str) else code),
            lambda seed: m.sample(top, n_samples=6, seed=seed, **kw),
            k == 'composed', has_rand, vary)


def _pm(rng, n_out=2):
    pm, m, ems, x = c15._predictive(rng, n_out=n_out)
    return pm, x


def ep_predictive(rng, i):
    pm, x = _pm(rng, n_out=int(rng.integers(1, 4)))
    df = bool(i % 2)
    return ('PredictiveModel' + ('/table' if df else ''),
            lambda seed: pm.sample(x, TIMES, n_samples=4, seed=seed,
                                   return_df=df), True, True,
            lambda: pm.sample(x * 1.2, TIMES[:2], n_samples=2, seed=3))


def ep_pop_predictive(rng, i):
    pm, x = _pm(rng, n_out=int(rng.integers(1, 3)))
    n_dim = pm.n_parameters()
    leaves = GP.random_composition(rng, 1, total_dim=n_dim, kinds='LP',
                                   p_cov=0.0)
    pop = GP.build_chi(leaves, 1)
    top = np.concatenate([GP.leaf_top(rng, l, 1) for l in leaves])
    ppm = chi.PopulationPredictiveModel(pm, pop)
    df = bool(i % 2)
    return ('PopulationPredictiveModel' + ('/table' if df else ''),
            lambda seed: ppm.sample(top, TIMES, n_samples=5, seed=seed,
                                    return_df=df), True, True,
            lambda: ppm.sample(top * 1.1, TIMES[1:], n_samples=3, seed=3))


def ep_prior_predictive(rng, i):
    pm, x = _pm(rng, n_out=1)
    prior = pints.ComposedLogPrior(*[
        pints.LogNormalLogPrior(0.0, 0.3) for _ in range(pm.n_parameters())])
    ppm = chi.PriorPredictiveModel(pm, prior)
    return ('PriorPredictiveModel',
            lambda seed: ppm.sample(TIMES, n_samples=4, seed=seed), True,
            True, lambda: ppm.sample(TIMES[:1], n_samples=2, seed=3))


def _post_pred(rng, pm, shift=0.0):
    names = pm.get_parameter_names()
    ds = c15._posterior_dataset(rng, names, 3, 8, ['a', 'b']) + shift
    return chi.PosteriorPredictiveModel(pm, ds)


def ep_posterior_predictive(rng, i):
    pm, x = _pm(rng, n_out=int(rng.integers(1, 3)))
    ppm = _post_pred(rng, pm)
    return ('PosteriorPredictiveModel',
            lambda seed: ppm.sample(TIMES, n_samples=5, individual='b',
                                    seed=seed), True, True,
            lambda: (ppm.sample(TIMES[:2], n_samples=3, individual='a',
                                seed=3), ppm.sample(TIMES, n_samples=2,
                                                    seed=4)))


def ep_pam(rng, i):
    pm, x = _pm(rng, n_out=1)
    models = [_post_pred(rng, pm, shift=0.3 * j) for j in range(3)]
    pam = chi.PAMPredictiveModel(models, [0.3, 0.3, 0.4])
    return ('PAMPredictiveModel',
            lambda seed: pam.sample(TIMES, n_samples=12, individual='a',
                                    seed=seed), False, True,
            lambda: pam.sample(TIMES[:2], n_samples=5, individual='b',
                               seed=3))


def ep_initial(rng, i):
    from checks import c02
    which = i % 3
    if which == 0:
        from harness import gen_loglik as GL
        case = GL.LLCase(rng, allow_empty=False)
        ll = case.build()
        prior = pints.ComposedLogPrior(*[
            pints.LogNormalLogPrior(0, 0.3)
            for _ in range(ll.n_parameters())])
        post = chi.LogPosterior(ll, prior)
        name = 'LogPosterior.sample_initial_parameters'
    elif which == 1:
        case = c02.make_enumerated(rng, int(rng.integers(3000)))
        case.build(rng)
        post = case.sampling_posterior()
        name = 'HierarchicalLogPosterior.sample_initial_parameters'
    else:
        from checks import c13
        fp = c13.FPCase(rng, int(rng.integers(1000)), 'no_special'
                        if rng.random() < 0.5 else None)
        # a prior concentrated inside the support of the population model
        fp.prior_mu = fp.point(rng)[:fp.n_top]
        fp.prior_sd = np.full(fp.n_top, 0.01)
        post = fp.build()
        name = 'PopulationFilterLogPosterior.sample_initial_parameters'
    return (name,
            lambda seed: post.sample_initial_parameters(n_samples=3,
                                                        seed=seed),
            False, True,
            lambda: post.sample_initial_parameters(n_samples=1, seed=77))


ENTRY = [ep_error_model, ep_population, ep_predictive, ep_pop_predictive,
         ep_prior_predictive, ep_posterior_predictive, ep_pam, ep_initial]


def _foreign(rng):
    """other sampling activity between the paired calls"""
    np.random.rand(int(rng.integers(1, 7)))
    random.random()
    chi.GaussianErrorModel().sample([1.0], [1.0, 2.0], n_samples=2)
    chi.GaussianModel().sample([0.0, 1.0], n_samples=3,
                               seed=int(rng.integers(100)))
    chi.TruncatedGaussianModel().sample([1.0, 1.0], n_samples=2,
                                        seed=int(rng.integers(100)))



def _set_global(g, scipy_own):
    """sets every process-wide generator a sampler could fall back on"""
    import scipy.stats as st
    # (only the distribution chi draws from itself: pints priors draw from
    # scipy.stats.norm etc. and can only be seeded through numpy's legacy
    # global generator, which is what chi does - see ASSUMPTIONS)
    dists = [st.truncnorm]
    for d in dists:
        # (None: the distribution uses numpy's legacy global generator)
        d.random_state = np.random.RandomState(g) if scipy_own else None
    if g is not None:
        np.random.seed(g)
        random.seed(g)


def reproducibility_case(ctx, rng, idx):
    ep = ENTRY[idx % len(ENTRY)]
    try:
        state = rng.bit_generator.state
        name, call, gen_documented, has_rand, vary = ep(
            rng, idx // len(ENTRY))
        # an identical twin object (same generator state) with a history
        after = rng.bit_generator.state
        rng.bit_generator.state = state
        _, call_twin, _, _, vary_twin = ep(rng, idx // len(ENTRY))
        rng.bit_generator.state = after
    except Exception as e:      # noqa
        ctx.violation_exc('entry_point_setup_raises', e, {})
        return
    feats = {'entry_point': name}
    # boundary seeds are seeds too: 0 (falsy), 1, the largest legacy seed - 1
    seed = [0, int(rng.integers(0, 2 ** 31 - 2)), 1,
            int(rng.integers(0, 2 ** 31 - 2)), 2 ** 32 - 2,
            int(rng.integers(0, 1000))][(idx // len(ENTRY)) % 6]
    feats['seed_class'] = 'zero' if seed == 0 else (
        'one' if seed == 1 else ('max' if seed == 2 ** 32 - 2 else 'random'))
    gstate = int(rng.integers(0, 10 ** 6))
    ctx.case((name, idx % 6), True, sample=dict(feats, seed=seed))
    # process-wide generators: numpy's legacy one, python's, and (40%
    # of the cases) the generator owned by scipy's truncnorm distribution
    # object, which scipy documents as a way of seeding a distribution
    own = bool(rng.random() < 0.4) or (
        name.startswith('population') and 'T' in name.split(':')[-1])
    feats['scipy_distribution_generators_set'] = own
    try:
        _set_global(gstate, own)
        r1 = call(seed)
        _foreign(rng)
        _set_global(gstate + 17, own)
        np.random.rand(3)
        r2 = call(seed)
        r3 = call(seed + 1)
    except Exception as e:      # noqa
        ctx.violation_exc('sampling_raises', e, {'entry_point': name}, feats)
        return
    finally:
        _set_global(None, False)
    ctx.count('reproducibility_pairs')
    # an identical object that was used before with OTHER arguments (other
    # parameters, times, individuals, sample counts, seeds) gives the same
    try:
        vary_twin()
        rt = call_twin(seed)
        vary()
        r5 = call(seed)
        ctx.count('history_independence_pairs')
        if not _same(r1, rt) or not _same(r1, r5):
            ctx.violation('same_seed_same_result',
                          'depends_on_earlier_calls:' + name,
                          {'fresh': _vals(r1)[:6],
                           'twin_after_other_calls': _vals(rt)[:6],
                           'same_object_after_other_calls': _vals(r5)[:6],
                           'seed': seed}, feats)
    except Exception as e:      # noqa
        ctx.violation_exc('sampling_raises', e,
                          {'entry_point': name, 'step': 'other arguments'},
                          feats)
    # the same integer handed over as a numpy integer is the same seed
    try:
        np_seed = ([np.int64, np.int32, np.uint32][idx % 3] if
                   seed < 2 ** 31 else np.int64)(seed)
        r4 = call(np_seed)
        ctx.count('numpy_integer_seeds')
        if not _same(r1, r4):
            ctx.violation('same_seed_same_result',
                          'numpy_integer_seed_differs:' + name,
                          {'seed': seed, 'type': type(np_seed).__name__,
                           'int': _vals(r1)[:6], 'numpy': _vals(r4)[:6]},
                          feats)
    except Exception as e:      # noqa
        ctx.violation_exc('sampling_raises', e,
                          {'entry_point': name, 'seed': 'numpy integer'},
                          feats)
    if not _same(r1, r2):
        ctx.violation('same_seed_same_result', 'irreproducible:' + name,
                      {'first': _vals(r1)[:8], 'second': _vals(r2)[:8],
                       'seed': seed}, feats)
    if has_rand:
        ctx.count('seed_sensitivity_pairs')
        if _same(r1, r3):
            ctx.violation('different_seed_different_result',
                          'seed_ignored:' + name,
                          {'seed': seed, 'values': _vals(r1)[:8]}, feats)
    # Generator objects are advanced, not restarted
    g = np.random.default_rng(seed)
    s0 = repr(g.bit_generator.state)
    try:
        ra = call(g)
    except (TypeError, ValueError) as e:
        if gen_documented:
            ctx.violation_exc('documented_generator_seed_accepted', e,
                              {'entry_point': name}, feats)
        else:
            ctx.reject('Generator not accepted by ' + name)
        return
    except Exception as e:      # noqa
        ctx.violation_exc('sampling_raises', e,
                          {'entry_point': name, 'seed': 'Generator'}, feats)
        return
    if not has_rand:
        return
    ctx.count('generator_checks')
    s1 = repr(g.bit_generator.state)
    rb = call(g)
    # a Generator is a seed: equal generators give equal results, whatever
    # the process-wide generators hold and whatever was sampled in between
    try:
        _set_global(gstate + 5, own)
        rc = call(np.random.default_rng(seed))
        _foreign(rng)
        call((seed + 7) % (2 ** 32 - 1))
        _set_global(gstate + 99, own)
        rd = call(np.random.default_rng(seed))
    except Exception as e:      # noqa
        ctx.violation_exc('sampling_raises', e,
                          {'entry_point': name, 'seed': 'Generator'}, feats)
        return
    finally:
        _set_global(None, False)
    ctx.count('generator_reproducibility_pairs')
    if not (_same(ra, rc) and _same(rc, rd)):
        ctx.violation('same_seed_same_result',
                      'generator_seed_irreproducible:' + name,
                      {'first': _vals(ra)[:6], 'second': _vals(rc)[:6],
                       'third': _vals(rd)[:6], 'seed': seed}, feats)
        return
    if s1 == s0 or _same(ra, rb):
        ctx.violation('generator_is_advanced', 'generator_restarted:' + name,
                      {'state_changed': s1 != s0,
                       'identical_draws': _same(ra, rb)}, feats)


def seed_sweep_case(ctx, rng, idx):
    """'different seeds give different draws' over whole ranges of integer
    seeds: every seed of a block must give a result no other seed of the
    block gives (a seed space collapsed onto fewer internal states shows as
    exact duplicates)"""
    k = idx % len(ENTRY)
    ep = ENTRY[k]
    try:
        name, call, gen_documented, has_rand, _ = ep(rng, idx // len(ENTRY))
    except Exception as e:      # noqa
        ctx.violation_exc('entry_point_setup_raises', e, {})
        return
    if not has_rand or (name.startswith('population:H')
                        and '+' not in name):
        # pooled: no randomness; heterogeneous: a discrete choice among the
        # individuals' rows, for which equal draws are legitimate
        ctx.reject('deterministic or discrete entry point')
        return
    cheap = ep in (ep_error_model, ep_population)
    n = (3000 if cheap else 200) * (1 if ctx.tier == 'quick' else 3)
    start = 0 if (idx // len(ENTRY)) % 2 == 0 else int(
        rng.integers(0, 2 ** 31 - n))
    feats = {'entry_point': name, 'n_seeds': n, 'start': start}
    ctx.case(('sweep', name, start == 0), True, sample=feats)
    seen = {}
    for sd in range(start, start + n):
        try:
            v = _vals(call(sd))
        except Exception as e:      # noqa
            ctx.violation_exc('sampling_raises', e,
                              {'entry_point': name, 'seed': sd}, feats)
            return
        key = v.tobytes()
        ctx.count('sweep_seeds_drawn')
        if key in seen:
            ctx.violation('different_seed_different_result',
                          'seed_collision:' + name.split(':')[0],
                          {'seeds': [seen[key], sd], 'values': v[:6],
                           'entry_point': name}, feats)
            return
        seen[key] = sd


def shared_generator_case(ctx, rng, idx):
    """one Generator handed to many successive PriorPredictiveModel.sample
    calls: the generator is advanced, so no two samples of any two calls
    may carry the same noise.  The prior is (numerically) a point mass, so
    samples differ only through their noise and equal noise shows as equal
    value vectors."""
    pm, x = _pm(rng, n_out=1)
    prior = pints.ComposedLogPrior(*[
        pints.UniformLogPrior(float(v), float(v) * (1 + 1e-13) + 1e-300)
        for v in x])
    ppm = chi.PriorPredictiveModel(pm, prior)
    n = 40
    k = 250 if ctx.tier == 'quick' else 700
    gen = np.random.default_rng(int(rng.integers(2 ** 31)))
    feats = {'entry_point': 'PriorPredictiveModel', 'calls': k,
             'n_samples': n}
    ctx.case(('shared_generator', 'PriorPredictiveModel'), True,
             sample=feats)
    seen = {}
    for c in range(k):
        try:
            df = ppm.sample(TIMES, n_samples=n, seed=gen)
        except Exception as e:      # noqa
            ctx.violation_exc('sampling_raises', e, feats, feats)
            return
        vals = np.asarray(df['Value'], dtype=float).reshape(n, -1)
        for j in range(n):
            ctx.count('shared_generator_samples')
            key = np.round(vals[j], 9).tobytes()
            if key in seen and seen[key][0] != c:
                ctx.violation('generator_advanced_streams_independent',
                              'shared_generator_repeats_noise:'
                              'PriorPredictiveModel',
                              {'first (call, sample)': seen[key],
                               'again (call, sample)': (c, j + 1),
                               'values': vals[j][:6]}, feats)
                return
            seen[key] = (c, j + 1)


def independence_case(ctx, rng, idx):
    """streams of different outputs / time points / individuals"""
    kind = ['predictive_outputs', 'predictive_times', 'population_outputs',
            'posterior_outputs', 'initial_parameters',
            'prior_predictive_outputs', 'covariate_groups'][idx % 7]
    n = 3000 if ctx.tier == 'quick' else 30000
    seed = int(rng.integers(0, 2 ** 31 - 2))
    feats = {'kind': kind}
    ctx.case((kind, idx // 7 % 8), True, sample=dict(feats, seed=seed))
    pairs = []
    try:
        if kind in ('predictive_outputs', 'predictive_times'):
            pm, x = _pm(rng, n_out=2 + idx % 2)
            seed_arg = [seed, np.int64(seed), np.random.default_rng(seed)][
                idx // 7 % 3]
            feats['seed_type'] = type(seed_arg).__name__
            t_rep = np.concatenate([TIMES, TIMES[-1:]])
            arr = pm.sample(x, t_rep, n_samples=n, seed=seed_arg,
                            return_df=False)
            if kind == 'predictive_outputs':
                pairs = [(arr[0, j], arr[1, j], 'outputs 1,2 at time %d' % j)
                         for j in range(len(TIMES))]
            else:
                pairs = [(arr[o, 0], arr[o, 2], 'times 1,3 of output %d' % o)
                         for o in range(arr.shape[0])]
                pairs.append((arr[0, -1], arr[0, -2],
                              'replicates of the last time point'))
        elif kind == 'population_outputs':
            pm, x = _pm(rng, n_out=2)
            pop = chi.PooledModel(n_dim=pm.n_parameters())
            ppm = chi.PopulationPredictiveModel(pm, pop)
            # (the first time point is measured twice: replicates)
            t_rep = np.concatenate([TIMES[:1], TIMES])
            arr = ppm.sample(x, t_rep, n_samples=min(n, 3000), seed=seed,
                             return_df=False)
            pairs = [(arr[0, 0], arr[1, 0], 'outputs across patients'),
                     (arr[0, 0], arr[0, 2], 'times across patients'),
                     (arr[0, 0], arr[0, 1],
                      'replicates of one time point across patients')]
            # consecutive patients must not repeat the same noise
            if np.array_equal(arr[:, :, 0], arr[:, :, 1]):
                ctx.violation('streams_are_independent',
                              'identical_noise_for_patients', {}, feats)
        elif kind == 'covariate_groups':
            # individuals of different covariate sub-populations must not
            # share their noise
            kd = 'GLT'[idx // 7 % 3]
            leaf = GP.make_leaf(kd, 1, True, 1, None, 1)
            model = GP.build_chi_leaf(leaf, 1)
            wrapper = ['bare', 'reduced'][idx // 21 % 2]
            if wrapper == 'reduced':
                model = chi.ReducedPopulationModel(model)
            top = GP.leaf_top(rng, leaf, 1, strong_cov=True)
            n_g = min(n, 1000) if kd != 'T' else min(n, 4000)
            groups = int(rng.integers(2, 4))
            cov = (np.arange(n_g) % groups).astype(float)[:, None]
            seed_arg = [seed, np.int64(seed)][idx // 7 % 2]
            psi = np.asarray(model.sample(top, n_samples=n_g, seed=seed_arg,
                                          covariates=cov), dtype=float)[:, 0]
            th = np.real(leaf.vartheta(top, cov, n_g))
            mu, sd = th[:, 0, 0], th[:, 1, 0]
            z = (np.log(psi) - mu) / sd if kd == 'L' else (psi - mu) / sd
            feats.update(kind_of_model=kd, wrapper=wrapper, groups=groups)
            ctx.count('stream_independence_tests')
            # (shared noise shows as many equal standardised values; up to
            # two coincidences among thousands of values rounded to 1e-11
            # are left to chance - tail regimes concentrate the values)
            if len(np.unique(np.round(z, 11))) < n_g - 2:
                ctx.violation('streams_are_independent',
                              'identical_noise_across_covariate_groups',
                              {'distinct': int(len(np.unique(
                                  np.round(z, 11)))), 'n': n_g}, feats)
                return
            m_ = n_g // groups
            a = psi[0:m_ * groups:groups]
            b = psi[1:m_ * groups:groups]
            pairs = [(a, b, 'k-th individuals of two covariate groups')]
        elif kind == 'prior_predictive_outputs':
            # a prior concentrated on one point: all variation is noise
            pm, x = _pm(rng, n_out=2)
            prior = pints.ComposedLogPrior(*[
                pints.LogNormalLogPrior(float(np.log(v)), 1e-5) for v in x])
            ppm = chi.PriorPredictiveModel(pm, prior)
            df = ppm.sample(TIMES[:1], n_samples=min(n, 1500), seed=seed)
            outs = pm.get_output_names()
            a = df[df['Observable'] == outs[0]].sort_values('ID')[
                'Value'].to_numpy(dtype=float)
            b = df[df['Observable'] == outs[1]].sort_values('ID')[
                'Value'].to_numpy(dtype=float)
            pairs = [(a, b, 'outputs across prior predictive samples')]
        elif kind == 'posterior_outputs':
            pm, x = _pm(rng, n_out=2)
            ppm = _post_pred(rng, pm)
            df = ppm.sample(TIMES[:1], n_samples=min(n, 1500),
                            individual='a', seed=seed)
            outs = pm.get_output_names()
            a = df[df['Observable'] == outs[0]].sort_values('ID')[
                'Value'].to_numpy(dtype=float)
            b = df[df['Observable'] == outs[1]].sort_values('ID')[
                'Value'].to_numpy(dtype=float)
            # remove the shared posterior-draw effect by ranking residuals
            # within draws is not possible; posterior rows here differ by
            # 1e-3 relative, far below the noise
            pairs = [(a, b, 'outputs across posterior samples')]
        elif (idx // 7) % 2 == 1:
            from checks import c13
            fp = c13.FPCase(rng, int(rng.integers(1000)))
            fp.prior_mu = fp.point(rng)[:fp.n_top]
            fp.prior_sd = np.full(fp.n_top, 0.01)
            post = fp.build()
            init = np.asarray(post.sample_initial_parameters(
                n_samples=4, seed=seed), dtype=float)
            ctx.count('stream_independence_tests')
            feats['posterior'] = 'population filter'
            n_eps = fp.n_s * fp.n_out * fp.n_times
            eps = init[:, init.shape[1] - n_eps:]
            if init.shape != (4, post.n_parameters()):
                ctx.violation('initial_parameter_shape', 'initial_shape',
                              {'shape': init.shape}, feats)
            elif len(np.unique(eps)) < eps.size:
                ctx.violation('streams_are_independent',
                              'identical_noise_in_initial_points',
                              {'distinct values': int(len(np.unique(eps))),
                               'values': int(eps.size)}, feats)
            return
        else:
            from checks import c02
            case = c02.make_enumerated(rng, int(rng.integers(3000)),
                                       posterior=True)
            case.build(rng)
            post = case.sampling_posterior()
            init = post.sample_initial_parameters(n_samples=4, seed=seed)
            ctx.count('stream_independence_tests')
            if init.shape != (4, post.n_parameters()):
                ctx.violation('initial_parameter_shape', 'initial_shape',
                              {'shape': init.shape}, feats)
            elif any(np.array_equal(init[0], init[r]) for r in (1, 2, 3)) \
                    and any(l.kind != 'P' for l in case.leaves):
                ctx.violation('streams_are_independent',
                              'identical_initial_points',
                              {'points': init}, feats)
            return
    except Exception as e:      # noqa
        ctx.violation_exc('sampling_raises', e, {'kind': kind}, feats)
        return
    for a, b, what in pairs:
        ctx.count('stream_independence_tests')
        r = S.spearman(a, b)
        crit = S.corr_crit(len(a))
        ctx.maximum('abs_rank_corr_over_crit', abs(r) / crit)
        if abs(r) > crit:
            ctx.violation('streams_are_independent',
                          'correlated_streams:' + kind,
                          {'rank_correlation': r, 'critical': crit,
                           'what': what, 'n': len(a)}, feats)
            break


def pam_streams_case(ctx, rng, idx):
    """the constituent models of a PAMPredictiveModel draw from ONE stream:
    with identical constituent models, no two of the sampled measurements
    coincide (a stream restarted for every model repeats its first draws)"""
    n_models = int(rng.integers(2, 5))
    n_samples = int(rng.integers(2 * n_models, 30))
    seed = int(rng.integers(0, 2 ** 31 - 2))
    seed_arg = [seed, np.int64(seed), 0][idx % 3]
    feats = {'kind': 'pam_models', 'n_models': n_models,
             'seed_type': type(seed_arg).__name__}
    ctx.case(('pam_models', n_models, idx % 3), True,
             sample=dict(feats, seed=seed, n_samples=n_samples))
    try:
        pm, x = _pm(rng, n_out=int(rng.integers(1, 3)))
        names = pm.get_parameter_names()
        ds = c15._posterior_dataset(rng, names, 3, 8, ['a', 'b'])
        models = [chi.PosteriorPredictiveModel(pm, ds)
                  for _ in range(n_models)]
        w = rng.uniform(0.5, 1.5, n_models)
        pam = chi.PAMPredictiveModel(models, list(w / w.sum()))
        df = pam.sample(TIMES, n_samples=n_samples, individual='a',
                        seed=seed_arg)
    except Exception as e:      # noqa
        ctx.violation_exc('sampling_raises', e, {'kind': 'pam_models'},
                          feats)
        return
    v = df['Value'].to_numpy(dtype=float)
    ctx.count('stream_independence_tests')
    ctx.count('pam_values_compared', len(v))
    n_distinct = len(np.unique(v))
    if len(v) != n_samples * len(TIMES) * len(pm.get_output_names()):
        ctx.violation('pam_sample_count', 'pam_sample_count',
                      {'rows': len(v), 'n_samples': n_samples}, feats)
    elif n_distinct < len(v):
        ctx.violation('streams_are_independent',
                      'identical_noise_across_averaged_models',
                      {'values': len(v), 'distinct': n_distinct,
                       'n_models': n_models, 'seed': repr(seed_arg)}, feats)


def heterogeneous_joint_case(ctx, rng, idx):
    """the draws of one call are independent of each other (shared with
    C06): heterogeneous samples coincide with probability 1 / n_ids"""
    from checks import c06
    c06.heterogeneous_joint_case(ctx, rng, idx)


FAMILIES = [
    Family('heterogeneous_joint', heterogeneous_joint_case, quick=12,
           thorough=60),
    Family('pam_streams', pam_streams_case, quick=24, thorough=240),
    Family('reproducibility', reproducibility_case, quick=8 * 36,
           thorough=8 * 400),
    Family('independence', independence_case, quick=84, thorough=840),
    Family('seed_sweep', seed_sweep_case, quick=8 * 8, thorough=8 * 60),
    Family('shared_generator', shared_generator_case, quick=1, thorough=3),
]
