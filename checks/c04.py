"""
C04 - error models are the documented, normalised densities with exact
sensitivities.  Oracle: reference densities (harness/oracle/densities.py),
complex-step gradients, scipy quadrature for the normalisation.
"""
import numpy as np
from scipy.integrate import quad

from harness.bootstrap import load_chi
from harness.core import Family
from harness.oracle import densities as D

chi = load_chi()

PROP = 'C04'
TITLE = 'error models: documented normalised densities, exact sensitivities'
RULE = (
    'seeded random cases: (error model class [optionally inside '
    'ReducedErrorModel with a random fixed subset], vector length 1-40 with '
    'distinct model outputs, scales 0.05-20, output-sensitivity width 0-5, '
    'list/array input form); signature = (class, wrapper+fixed mask, length '
    'bucket, width, form); non-trivial = length >= 2 with non-constant '
    'outputs, or a normalisation / support case')
ASSUMPTIONS = [
    'scipy.integrate.quad and numpy arithmetic are correct',
    'the documented density is the one in the class docstrings / property '
    'statement (Gaussian; sd = sigma_rel*y; sd = sigma_base+sigma_rel*y; '
    'log-normal with mean y)',
    'model outputs are kept positive for the multiplicative and log-normal '
    'models (the documentation defines no density elsewhere)',
]
ANCHORS = [
    'chi._error_models.%s.%s' % (c, m)
    for c in D.ERROR_MODELS
    for m in ('_compute_log_likelihood', '_compute_pointwise_ll',
              '_compute_sensitivities')
] + ['chi._error_models.ReducedErrorModel.compute_sensitivities']
REQUIRED = {'value_compared': 50, 'gradient_entries_compared': 100,
            'normalisation_integrals': 4, 'support_cases': 4}

CLASSES = sorted(D.ERROR_MODELS)


def _gen_scales(rng, n):
    return np.exp(rng.uniform(np.log(0.05), np.log(20.0), size=n))


def _make(rng, cname, allow_reduced=True):
    """returns (model, n_full, full->free mask, fixed values)"""
    n_par, _ = D.ERROR_MODELS[cname]
    model = getattr(chi, cname)()
    full = _gen_scales(rng, n_par)
    free = np.ones(n_par, dtype=bool)
    wrapper = 'bare'
    if allow_reduced and rng.random() < 0.4:
        model = chi.ReducedErrorModel(model)
        wrapper = 'reduced'
        names = model.get_parameter_names()
        k = rng.integers(0, n_par + 1)
        fix = rng.permutation(n_par)[:k]
        if len(fix):
            model.fix_parameters({names[i]: float(full[i]) for i in fix})
            free[fix] = False
    return model, full, free, wrapper


def density_case(ctx, rng, idx):
    cname = CLASSES[idx % len(CLASSES)]
    n_par, ref = D.ERROR_MODELS[cname]
    model, full, free, wrapper = _make(rng, cname)
    n = int(rng.choice([1, 2, 3, 5, 8, 13, 21, 40, 40, 400, 2000]))
    width = int(rng.integers(0, 6))
    scale = float(np.exp(rng.uniform(np.log(0.1), np.log(50))))
    ybar = scale * rng.uniform(0.2, 3.0, size=n)
    if cname == 'GaussianErrorModel' and rng.random() < 0.5:
        ybar = ybar * rng.choice([-1, 1], size=n)
    if cname == 'ConstantAndMultiplicativeGaussianErrorModel' and \
            rng.random() < 0.3:
        # outputs below zero (change from baseline) with a standard
        # deviation sigma_base + sigma_rel * output that is still positive:
        # the documented density is defined there
        neg = rng.random(n) < 0.5
        ybar = np.where(neg, -rng.uniform(0.05, 0.8, size=n) * full[0] /
                        full[1], ybar)
    # observations in a plausible range around the outputs
    if cname == 'LogNormalErrorModel':
        y = ybar * np.exp(full[0] * rng.normal(size=n))
    elif cname == 'GaussianErrorModel':
        y = ybar + full[0] * rng.normal(size=n)
    elif cname == 'MultiplicativeGaussianErrorModel':
        y = ybar * (1 + full[0] * rng.normal(size=n))
    else:
        y = ybar + (full[0] + full[1] * ybar) * rng.normal(size=n)
    form = ['array', 'list', 'int', 'strided', 'bigint'][
        int(rng.integers(5))]
    if form == 'bigint' and (wrapper != 'bare' or n > 40):
        form = 'array'
    if form == 'bigint':
        # counts of the size of cell numbers, integer scale parameters: the
        # same numbers as int64 (powers of integer arrays wrap around)
        ybar = np.round(np.exp(rng.uniform(np.log(2e6), np.log(5e9),
                                           size=n)))
        full = np.round(rng.uniform(1, 3, size=n_par))
        if cname == 'LogNormalErrorModel':
            y = np.round(ybar * np.exp(0.3 * rng.normal(size=n)))
        elif cname == 'GaussianErrorModel':
            y = np.round(ybar + full[0] * rng.normal(size=n))
        else:
            y = np.round(ybar * (1 + 0.3 * rng.normal(size=n)))
            y = np.maximum(y, 1.0)
    if form == 'int' and n <= 40:
        # integer-valued data (counts) handed over as int64: the documented
        # density is the same function of the same numbers
        ybar = np.maximum(1.0, np.round(ybar * 3 / scale))
        if cname == 'GaussianErrorModel':
            ybar = ybar * rng.choice([-1, 1], size=n)
        int_y = bool(rng.integers(2))
        if int_y:
            y = np.round(ybar + rng.integers(-2, 3, size=n))
            if cname != 'GaussianErrorModel':
                y = np.maximum(1.0, y)
        else:
            # real-valued observations next to integer-typed outputs
            y = ybar + rng.uniform(-2, 2, size=n)
            if cname != 'GaussianErrorModel':
                y = np.maximum(0.3, y)
        if wrapper == 'bare' and rng.random() < 0.5:
            full = np.maximum(1.0, np.round(full))
    elif form == 'int':
        form = 'array'
    sens = rng.normal(size=(n, width))
    p_free = full[free]
    if form == 'list':
        a_p, a_ybar, a_y = list(p_free), list(ybar), list(y)
    elif form == 'bigint':
        a_p, a_ybar, a_y = p_free.astype(np.int64), \
            ybar.astype(np.int64), y.astype(np.int64)
        if rng.random() < 0.5:
            a_p, a_ybar, a_y = a_p.tolist(), a_ybar.tolist(), a_y.tolist()
    elif form == 'int':
        its = [np.int64, np.int32, np.int16, np.int8]
        if np.all(ybar > 0) and np.all(y > 0):
            its += [np.uint8, np.uint16]
        it = its[int(rng.integers(len(its)))]
        feats_dtype = it.__name__
        a_ybar = ybar.astype(it) if (not int_y or rng.random() < 0.7) \
            else ybar.copy()
        a_y = y.astype(it) if int_y else y.copy()
        if rng.random() < 0.3:
            a_ybar, a_y = a_ybar.tolist(), a_y.tolist()
        a_p = p_free.astype(np.int64) if np.all(
            p_free == np.round(p_free)) else p_free.copy()
    elif form == 'strided':
        # non-contiguous views into larger buffers
        a_p = np.repeat(p_free, 2)[::2]
        a_ybar = np.repeat(ybar, 3)[::3]
        a_y = np.column_stack([y, -y])[:, 0]
    else:
        a_p, a_ybar, a_y = p_free.copy(), ybar.copy(), y.copy()
        for a in (a_p, a_ybar, a_y):
            a.setflags(write=False)
    sens_in = np.asfortranarray(sens) if form == 'strided' else sens.copy()
    # (read-only: a write raises; writable, every second case: compared
    # with a snapshot after the call)
    sens_in.setflags(write=bool((idx // len(CLASSES)) % 2))
    if form == 'list':
        # array-like: a nested list (one row per time point)
        sens_in = sens.tolist()

    nontrivial = n >= 2 and np.ptp(ybar) > 0
    feats = {'class': cname, 'wrapper': wrapper, 'free': free.tolist(),
             'n': n, 'width': width, 'form': form}
    if form == 'int':
        feats['dtype'] = feats_dtype
    ctx.case((cname, wrapper, tuple(free), min(n, 5) if n < 100 else n, width,
              form),
             nontrivial, sample=dict(
                 feats, parameters=p_free, model_output=ybar[:4],
                 observations=y[:4]))

    # reference
    pw_ref = np.real(ref(y, ybar, full))
    tot_ref = float(np.sum(pw_ref))
    sc = float(np.sum(np.abs(pw_ref)))

    # one observation buffer reused for several data sets (overwritten in
    # place between evaluations, as a list edited by the caller would be)
    if form in ('array', 'list') and n <= 40:
        buf = np.array(y, dtype=float) if form == 'array' else list(y)
        shift = 1.0 + 0.3 * rng.random(n)
        for rep in range(3):
            want = float(np.sum(np.real(ref(np.asarray(buf, dtype=float),
                                            ybar, full))))
            got = model.compute_log_likelihood(a_p, a_ybar, buf)
            pw_b = np.asarray(model.compute_pointwise_ll(a_p, a_ybar, buf))
            s_b, _ = model.compute_sensitivities(a_p, a_ybar, sens.copy(),
                                                 buf)
            ctx.count('reused_buffer_evaluations')
            scb = abs(want) + 1.0
            if not (ctx.close(got, want, rtol=1e-10, scale=scb) and
                    ctx.close(np.sum(pw_b), want, rtol=1e-10, scale=scb) and
                    ctx.close(s_b, want, rtol=1e-10, scale=scb)):
                ctx.violation('value_vs_documented_density',
                              'reused_observation_buffer:' + cname,
                              {'evaluation': rep, 'value': got,
                               'pointwise sum': float(np.sum(pw_b)),
                               's1': s_b, 'reference': want}, feats)
                break
            for i_ in range(n):
                buf[i_] = float(buf[i_] * shift[i_])
    # value
    val = model.compute_log_likelihood(a_p, a_ybar, a_y)
    ctx.count('value_compared')
    ctx.maximum('value_relerr', ctx.relerr(val, tot_ref, scale=sc))
    if not ctx.close(val, tot_ref, rtol=1e-10, scale=sc):
        ctx.violation('value_vs_documented_density', 'value_mismatch:' + cname,
                      {'chi': val, 'reference': tot_ref}, feats)
    # pointwise
    pw = np.asarray(model.compute_pointwise_ll(a_p, a_ybar, a_y))
    ctx.count('pointwise_compared')
    if pw.shape != (n,):
        ctx.violation('pointwise_shape', 'pointwise_shape:' + cname,
                      {'shape': pw.shape, 'n': n}, feats)
    else:
        if not ctx.close(pw, pw_ref, rtol=1e-10, atol=1e-12):
            ctx.violation('pointwise_vs_documented_density',
                          'pointwise_mismatch:' + cname,
                          {'chi': pw, 'reference': pw_ref}, feats)
        if not ctx.close(np.sum(pw), val, rtol=1e-10, scale=sc):
            ctx.violation('pointwise_sums_to_total',
                          'pointwise_sum:' + cname,
                          {'sum': float(np.sum(pw)), 'total': val}, feats)
    # sensitivities (the caller's arrays are read, not written: the same
    # matrix of output sensitivities serves several evaluations)
    snaps = [(nm_, a_, np.array(a_, dtype=float)) for nm_, a_ in (
        ('parameters', a_p), ('model_output', a_ybar),
        ('model_sensitivities', sens_in), ('observations', a_y))
        if isinstance(a_, np.ndarray)]
    score, grad = model.compute_sensitivities(a_p, a_ybar, sens_in, a_y)
    grad = np.asarray(grad, dtype=float)
    ctx.count('s1_compared')
    for nm_, a_, snap_ in snaps:
        ctx.count('protected_arguments')
        if not np.array_equal(np.asarray(a_, dtype=float), snap_,
                              equal_nan=True):
            ctx.violation('argument_unchanged',
                          'argument_modified:%s:%s' % (cname, nm_),
                          {'before': snap_, 'after': np.asarray(a_)}, feats)
            return
    if snaps:
        _, grad2 = model.compute_sensitivities(a_p, a_ybar, sens_in, a_y)
        if not np.array_equal(np.asarray(grad2, dtype=float), grad,
                              equal_nan=True):
            ctx.violation('repeat_returns_same_result',
                          'second_call_differs:' + cname,
                          {'first': grad, 'second': np.asarray(grad2)},
                          feats)
            return
    if not ctx.close(score, val, rtol=1e-10, scale=sc):
        ctx.violation('s1_score_equals_value', 's1_score:' + cname,
                      {'s1': score, 'value': val}, feats)
    n_free = int(np.sum(free))
    if grad.shape != (width + n_free,):
        ctx.violation('gradient_length', 'gradient_length:' + cname,
                      {'shape': grad.shape, 'expected': width + n_free},
                      feats)
        return

    # reference gradient: theta (mechanistic, width) enters through
    # ybar(theta) = ybar + sens @ theta at theta = 0; then free error params
    def f(z):
        theta = z[:width]
        p = full.astype(complex)
        p[free] = z[width:]
        yb = ybar + sens @ theta if width else ybar.astype(complex)
        return np.sum(ref(y, yb, p))
    x0 = np.concatenate([np.zeros(width), p_free])
    g_ref = D.cstep_grad(f, x0)

    # scale: sum of absolute term derivatives is unknown; use max |g|
    gs = max(1.0, float(np.max(np.abs(g_ref))) if g_ref.size else 1.0)
    ctx.count('gradient_entries_compared', int(grad.size))
    ctx.maximum('gradient_relerr', ctx.relerr(grad, g_ref, scale=gs))
    if not ctx.close(grad, g_ref, rtol=1e-8, scale=gs):
        bad = int(np.argmax(np.abs(grad - g_ref)))
        which = 'mechanistic' if bad < width else 'error_param'
        ctx.violation('gradient_vs_complex_step',
                      'gradient_mismatch:%s:%s' % (cname, which),
                      {'chi': grad, 'reference': g_ref, 'worst_index': bad},
                      feats)


def normalisation_case(ctx, rng, idx):
    cname = CLASSES[idx % len(CLASSES)]
    n_par, ref = D.ERROR_MODELS[cname]
    model, full, free, wrapper = _make(rng, cname)
    ybar = float(np.exp(rng.uniform(np.log(0.2), np.log(30))))
    if cname == 'LogNormalErrorModel':
        full[0] = min(full[0], 1.5)
        if wrapper == 'reduced':
            model = chi.ReducedErrorModel(model.get_error_model())
            names = model.get_parameter_names()
            fixd = {names[i]: float(full[i])
                    for i in range(n_par) if not free[i]}
            if fixd:
                model.fix_parameters(fixd)
    p_free = full[free]
    ctx.case(('norm', cname, wrapper, tuple(free)), True,
             sample={'class': cname, 'wrapper': wrapper,
                     'parameters': full, 'model_output': ybar})

    def pdf(v):
        return float(np.exp(model.compute_pointwise_ll(
            p_free, [ybar], [v])[0]))
    if cname == 'LogNormalErrorModel':
        s = full[0]
        mode_log = np.log(ybar) - s ** 2 / 2
        pts = np.exp(mode_log + s * np.array([-8, -4, -2, -1, 0, 1, 2, 4, 8]))
        total, err = 0.0, 0.0
        edges = [0.0] + list(pts)
        for a, b in zip(edges[:-1], edges[1:]):
            v, e = quad(pdf, a, b, limit=200)
            total += v
            err += e
        v, e = quad(pdf, pts[-1], np.inf, limit=200)
        total += v
        err += e
    else:
        if cname == 'GaussianErrorModel':
            sd = full[0]
        elif cname == 'MultiplicativeGaussianErrorModel':
            sd = full[0] * ybar
        else:
            sd = full[0] + full[1] * ybar
        pts = ybar + sd * np.array([-10, -5, -2, -1, 0, 1, 2, 5, 10])
        total, err = 0.0, 0.0
        for a, b in zip(pts[:-1], pts[1:]):
            v, e = quad(pdf, a, b, limit=200)
            total += v
            err += e
    ctx.count('normalisation_integrals')
    ctx.maximum('normalisation_abs_err', abs(total - 1.0))
    if abs(total - 1.0) > 1e-6 + 10 * err:
        ctx.violation('density_integrates_to_one',
                      'normalisation:' + cname,
                      {'integral': total, 'quad_err': err, 'ybar': ybar,
                       'parameters': full}, {'class': cname})


def support_case(ctx, rng, idx):
    cname = CLASSES[idx % len(CLASSES)]
    n_par, ref = D.ERROR_MODELS[cname]
    model = getattr(chi, cname)()
    n = int(rng.integers(1, 6))
    width = int(rng.integers(0, 3))
    ybar = rng.uniform(0.5, 3, size=n)
    y = rng.uniform(0.5, 3, size=n)
    p = _gen_scales(rng, n_par)
    kind = ['zero_scale', 'negative_scale', 'bad_output',
            'bad_observation', 'all_negative',
            'all_negative_negative_output'][idx // 4 % 6]
    if kind == 'all_negative_negative_output' and cname not in (
            'GaussianErrorModel',
            'ConstantAndMultiplicativeGaussianErrorModel'):
        kind = 'all_negative'
    if kind in ('bad_output', 'bad_observation') and \
            cname != 'LogNormalErrorModel':
        kind = 'negative_scale'
    j = int(rng.integers(n_par))
    if kind == 'zero_scale':
        p[j] = 0.0
    elif kind == 'negative_scale':
        p[j] = -p[j]
    elif kind.startswith('all_negative'):
        # every scale parameter negative at once (signs cancel in products;
        # with negative outputs sigma_base + sigma_rel * output is positive)
        p = -p
        if kind == 'all_negative_negative_output':
            ybar = -ybar * 10
    elif kind == 'bad_observation':
        # a measured value outside the support of the log-normal density
        # (0: below the limit of quantification) has density 0
        y[int(rng.integers(n))] = [0.0, -1.0][int(rng.integers(2))]
    else:
        ybar[int(rng.integers(n))] = [0.0, -1.0][int(rng.integers(2))]
    sens = rng.normal(size=(n, width))
    feats = {'class': cname, 'kind': kind, 'n': n}
    ctx.case(('support', cname, kind, j), True, sample=dict(
        feats, parameters=p, model_output=ybar, observations=y))
    ctx.count('support_cases')
    val = model.compute_log_likelihood(p, ybar, y)
    pw = np.asarray(model.compute_pointwise_ll(p, ybar, y))
    score, grad = model.compute_sensitivities(p, ybar, sens, y)
    if val != -np.inf:
        ctx.violation('outside_support_scores_minus_inf',
                      'support_value:%s:%s' % (cname, kind),
                      {'value': val, 'parameters': p, 'ybar': ybar}, feats)
    if pw.shape != (n,) or not np.all(pw == -np.inf):
        # the total of the pointwise values must still be the total
        if not (np.sum(pw) == -np.inf):
            ctx.violation('pointwise_sums_to_total',
                          'support_pointwise:%s:%s' % (cname, kind),
                          {'pointwise': pw}, feats)
    if kind in ('bad_output', 'bad_observation') and pw.shape == (n,):
        # the pointwise value of a pair is the log-density of that pair:
        # pairs inside the support keep their finite value
        ok = (ybar > 0) & (y > 0)
        ctx.count('support_pointwise_pairs', int(np.sum(ok)))
        want = np.real(ref(y[ok], ybar[ok], p))
        if np.any(ok) and not ctx.close(pw[ok], want, rtol=1e-10,
                                        atol=1e-12):
            ctx.violation('pointwise_vs_documented_density',
                          'support_pointwise_inside_pairs:' + cname,
                          {'pointwise': pw, 'inside the support': ok,
                           'reference for those': want}, feats)
        if not np.all(pw[~ok] == -np.inf):
            ctx.violation('outside_support_scores_minus_inf',
                          'support_pointwise_outside_pairs:' + cname,
                          {'pointwise': pw, 'inside the support': ok},
                          feats)
    if score != -np.inf:
        ctx.violation('outside_support_scores_minus_inf',
                      'support_s1:%s:%s' % (cname, kind),
                      {'score': score}, feats)
    if np.asarray(grad).shape != (width + n_par,):
        ctx.violation('gradient_length',
                      'support_gradient_length:' + cname,
                      {'shape': np.asarray(grad).shape}, feats)


FAMILIES = [
    Family('density', density_case, quick=4000, thorough=100000),
    Family('normalisation', normalisation_case, quick=160, thorough=3000),
    Family('support', support_case, quick=320, thorough=3200),
]
