"""
C02 - hierarchical log-likelihood = individual likelihoods + population
density, vector read in the published order; names / IDs describe what each
position controls.  Oracle: harness/oracle/hierarchy.py (documented layout,
reference densities and transforms) + brute-force individual scores; names by
perturbation observed through a tap on every individual's mechanistic model.
"""
import numpy as np

from harness.bootstrap import load_chi
from harness.core import Family
from harness import gen_hier as GH
from harness import gen_pop as GP
from harness.oracle import densities as D

chi = load_chi()

PROP = 'C02'
TITLE = 'hierarchical log-likelihood = individuals + population density'
RULE = (
    'enumerated family: every sequence of population sub-models from the '
    '17-letter alphabet {G,Gn,L,Ln,T,P,H,G2,Ln2,P2,H2,T2,Cov(G),Cov2(Ln),'
    'Cov(Gn2),Cov(P),Cov(T)} with total dimension 3, for 1 and 3 individuals '
    '(exhaustive); random family: compositions up to dimension 7, 1-6 '
    'individuals, partial covariate selections, optional '
    'ReducedPopulationModel with a random fixed subset, optional posterior, '
    'int/str/default IDs; signature = (composition, n_ids, n_outputs, '
    'sigma fixed, reduced, posterior); non-trivial = any pooled / '
    'heterogeneous / non-centred / covariate / multi-dimensional part or >1 '
    'part')
ASSUMPTIONS = [
    'reference layout and transforms are those of the class docstrings / the '
    'property statement',
    'individual likelihoods are built on the analytic toy model (C01 ties '
    'them to the brute-force reference)',
    'covariate shifts keep every shifted scale positive (generator ranges)',
]
ANCHORS = [
    'chi._log_pdfs.HierarchicalLogLikelihood.__call__',
    'chi._log_pdfs.HierarchicalLogLikelihood.get_parameter_names',
    'chi._log_pdfs.HierarchicalLogLikelihood.get_id',
    'chi._log_pdfs.HierarchicalLogPosterior.__call__',
    'chi._population_models.ComposedPopulationModel._shape_eta',
    'chi._population_models.CovariatePopulationModel.compute_individual_parameters',
    'chi._population_models.PooledModel.compute_individual_parameters',
    'chi._population_models.HeterogeneousModel.compute_individual_parameters',
]
REQUIRED = {'value_compared': 100, 'positions_perturbed': 200,
            'names_checked': 200}
EXHAUSTIVE = False

_COMPS = None


def compositions():
    global _COMPS
    if _COMPS is None:
        _COMPS = GP.enumerate_compositions(3)
    return _COMPS


ROLE = {'G': [('mean',), ('std',)], 'L': [('mean',), ('std',)],
        'T': [('mu', 'mean'), ('sigma', 'std')]}


def make_enumerated(rng, idx, posterior=False):
    comps = compositions()
    seq = comps[idx % len(comps)]
    n_ids = [1, 3][(idx // len(comps)) % 2]
    leaves = GP.leaves_from_alphabet(seq, n_ids)
    case = GH.HierCase(rng, leaves, n_ids, n_out=1, fix_sigma=True,
                       em_names=['GaussianErrorModel'], posterior=posterior)
    return case


def make_random(rng, idx):
    n_ids = int(rng.integers(1, 7))
    if rng.random() < 0.06:
        # (ten and more individuals: labels '10', '11' sort before '2')
        n_ids = int(rng.integers(10, 14))
    n_out = int(rng.integers(1, 3))
    fix_sigma = bool(rng.integers(2))
    one_par = ['GaussianErrorModel', 'LogNormalErrorModel',
               'MultiplicativeGaussianErrorModel',
               'ConstantAndMultiplicativeGaussianErrorModel']
    em_names = [one_par[int(rng.integers(4))] for _ in range(n_out)]
    total = GH.n_dims_for(n_out, fix_sigma, em_names)
    leaves = GP.random_composition(rng, n_ids, total_dim=total,
                                   p_cov=0.35, cov_kinds='GLTPH')
    case = GH.HierCase(
        rng, leaves, n_ids, n_out, fix_sigma, em_names=em_names,
        reduced=rng.random() < 0.3, posterior=rng.random() < 0.3,
        id_style=['default', 'int', 'str', 'unsorted'][int(rng.integers(4))],
        nest=GP.random_nest(rng) if rng.random() < 0.3 else None)
    return case


def build(ctx, case, rng, tap=False):
    """builds the chi objects; classifies failures.  Returns obj or None"""
    feats = case.features()
    try:
        return case.build(rng, tap=tap)
    except NotImplementedError as e:
        ctx.violation_exc('constructible_model_is_usable', e,
                          {'case': case.describe()}, feats)
    except Exception as e:      # noqa
        ctx.violation_exc('constructible_model_is_usable', e,
                          {'case': case.describe()}, feats)
    return None


def check_value(ctx, case, x, tag):
    feats = case.features()
    try:
        val = case.obj(x)
    except Exception as e:      # noqa
        ctx.violation_exc('constructible_model_is_usable', e,
                          {'case': case.describe(), 'call': '__call__'},
                          feats)
        return None
    ref = float(np.real(case.ref_value(x)))
    ctx.count('value_compared')
    sc = abs(ref) + 10.0
    ctx.maximum('value_relerr_' + tag, ctx.relerr(val, ref, scale=sc))
    if not ctx.close(val, ref, rtol=1e-9, scale=sc):
        ctx.violation('value_vs_reference', 'value_mismatch',
                      {'chi': val, 'reference': ref,
                       'case': case.describe()}, feats)
    return val


def check_counts(ctx, case):
    feats = case.features()
    obj, h = case.obj, case.h
    n_free = int(np.sum(case.free_mask()))
    n_top_free = int(np.sum(case.free_top))
    got = (obj.n_parameters(), obj.n_parameters(exclude_bottom_level=True),
           len(obj.get_parameter_names()), len(obj.get_id()),
           len(obj.get_parameter_names(exclude_bottom_level=True)))
    want = (n_free, n_top_free, n_free, n_free, n_top_free)
    ctx.count('counts_checked')
    if tuple(int(g) for g in got) != want:
        ctx.violation('published_counts', 'count_mismatch',
                      {'chi': got, 'expected': want,
                       'case': case.describe()}, feats)
        return False
    prob = GH.flag_combinations_agree(obj)
    if prob:
        ctx.violation('published_counts', 'name_flag_combinations',
                      {'problems': prob, 'case': case.describe()}, feats)
        return False
    return True


def check_names_and_dataflow(ctx, case, x, rng, max_positions=40):
    """perturb positions; observe which individual's parameter moved"""
    feats = case.features()
    obj, h = case.obj, case.h
    names = obj.get_parameter_names()
    names_id = obj.get_parameter_names(include_ids=True)
    ids = obj.get_id()
    uniq = obj.get_id(unique=True)
    free_idx = np.flatnonzero(case.free_mask())
    desc = h.describe()
    n_mech = case.n_mech
    # global dimension offset of each leaf
    dim0, d0 = [], 0
    for l in case.leaves:
        dim0.append(d0)
        d0 += l.n_dim
    hdims = []          # global dim index of every bottom-level column
    for li, l in enumerate(case.leaves):
        if l.n_hdim():
            hdims += [dim0[li] + j for j in range(l.n_dim)]
    positions = list(range(len(free_idx)))
    if len(positions) > max_positions:
        positions = sorted(rng.choice(positions, size=max_positions,
                                      replace=False).tolist())
    case.clear_taps()
    base = obj(x)
    psis0 = case.tap_psis()
    if any(p is None for p in psis0) or not np.isfinite(base):
        ctx.count('dataflow_skipped_nonfinite')
        return
    ref0 = case.ref_psi(x)
    for k in positions:
        kf = int(free_idx[k])
        level, indiv, li, loc = desc[kf]
        leaf = case.leaves[li]
        # -------- name / id
        ctx.count('names_checked')
        problems = []
        if level == 'bottom':
            gd = hdims[(kf % h.n_hdim)]
            want_id = case.lls[indiv].get_id()
            if ids[k] != want_id:
                problems.append('id %r != %r' % (ids[k], want_id))
            if names[k] != case.dim_names[gd]:
                problems.append('name %r != %r' % (
                    names[k], case.dim_names[gd]))
            if names_id[k] != '%s %s' % (want_id, case.dim_names[gd]):
                problems.append('name with id %r' % names_id[k])
        else:
            if ids[k] is not None:
                problems.append('top-level id %r' % (ids[k],))
            if names_id[k] != names[k]:
                problems.append('top-level name with id differs')
            nb = leaf.n_base(case.n_ids)
            if loc < nb:
                row, d = divmod(loc, leaf.n_dim)
                cov_c = None
            else:
                s, cov_c = divmod(loc - nb, leaf.cov['n_cov'])
                row, d = leaf.cov['sel'][s]
            dn = case.dim_names[dim0[li] + d]
            if dn not in names[k]:
                problems.append('name %r lacks dimension name %r' % (
                    names[k], dn))
            if leaf.kind in ROLE:
                if not any(w in names[k].lower() for w in ROLE[leaf.kind][row]):
                    problems.append('name %r lacks role of row %d' % (
                        names[k], row))
            if leaf.kind == 'H' and ('ID %d' % (row + 1)) not in names[k]:
                problems.append('name %r lacks ID %d' % (names[k], row + 1))
            if leaf.kind == 'P' and 'ooled' not in names[k]:
                problems.append('name %r lacks "Pooled"' % names[k])
            if cov_c is not None and ('Cov. %d' % (cov_c + 1)) \
                    not in names[k]:
                problems.append('name %r lacks covariate name' % names[k])
        if problems:
            ctx.violation('published_name_and_id', 'name_or_id_mismatch:' +
                          level + ':' + leaf.kind +
                          (':cov' if leaf.cov else ''),
                          {'position': k, 'problems': problems,
                           'names': names, 'ids': ids,
                           'case': case.describe()}, feats)
        # -------- data flow
        x1 = np.array(x, dtype=float)
        x1[k] = x1[k] * 1.013 + 0.007
        case.clear_taps()
        try:
            v1 = obj(x1)
        except Exception as e:      # noqa
            ctx.violation_exc('constructible_model_is_usable', e,
                              {'case': case.describe()}, feats)
            return
        psis1 = case.tap_psis()
        if any(p is None for p in psis1):
            ctx.count('dataflow_skipped_rejected_point')
            continue
        ref1 = case.ref_psi(x1)
        got = set()
        for i in range(case.n_ids):
            for j in range(n_mech):
                if psis0[i][j] != psis1[i][j]:
                    got.add((i, j))
        want = set()
        for i in range(case.n_ids):
            for j in range(n_mech):
                if ref0[i, j] != ref1[i, j]:
                    want.add((i, j))
        ctx.count('positions_perturbed')
        ok_vals = all(
            abs(psis1[i][j] - ref1[i, j]) <= 1e-12 * (1 + abs(ref1[i, j]))
            for i in range(case.n_ids) for j in range(n_mech))
        if got != want or not ok_vals:
            ctx.violation('position_controls_announced_quantity',
                          'dataflow_mismatch:' + level + ':' + leaf.kind +
                          (':cov' if leaf.cov else ''),
                          {'position': k, 'name': names[k], 'id': ids[k],
                           'moved_in_chi': sorted(got),
                           'moved_in_reference': sorted(want),
                           'case': case.describe()}, feats)
        if level == 'bottom' and got and ids[k] is not None:
            movers = set(i for i, _ in got)
            if movers != {uniq.index(ids[k])} if ids[k] in uniq else True:
                ctx.violation('position_controls_announced_quantity',
                              'id_does_not_match_mover',
                              {'position': k, 'id': ids[k],
                               'moved': sorted(got), 'unique_ids': uniq},
                              feats)


def check_integer_vector(ctx, case, rng, with_s1=False):
    """a whole-number vector scores the same whether it is handed over as
    floats, as an integer array or as a list of Python ints"""
    if any(l.cov for l in case.leaves):
        return
    n = int(np.sum(case.free_mask()))
    xi = rng.integers(1, 3, size=n)
    feats = dict(case.features(), input_type='integer vector')
    forms = [('float array', np.array(xi, dtype=float)),
             ('int array', np.array(xi, dtype=int)),
             ('list of ints', [int(v) for v in xi])]
    vals, grads = {}, {}
    for name, arg in forms:
        try:
            vals[name] = case.obj(arg)
            if with_s1:
                s, g = case.obj.evaluateS1(arg)
                grads[name] = (s, np.asarray(g, dtype=float))
        except Exception as e:      # noqa
            ctx.violation_exc('constructible_model_is_usable', e,
                              {'case': case.describe(), 'input': name},
                              feats)
            return
    ctx.count('integer_vectors_compared')
    ref = vals['float array']
    for name in ('int array', 'list of ints'):
        if not ctx.close(vals[name], ref, rtol=1e-12,
                         scale=abs(ref) + 1 if np.isfinite(ref) else 1):
            ctx.violation('value_independent_of_vector_dtype',
                          'integer_vector_scores_differently',
                          {'float': ref, name: vals[name], 'vector': xi,
                           'case': case.describe()}, feats)
            return
        if with_s1 and np.isfinite(ref):
            gs = 1 + float(np.max(np.abs(grads['float array'][1])))
            if not ctx.close(grads[name][1], grads['float array'][1],
                             rtol=1e-10, scale=gs):
                ctx.violation('gradient_independent_of_vector_dtype',
                              'integer_vector_gradient_differs',
                              {'float': grads['float array'][1],
                               name: grads[name][1], 'vector': xi,
                               'case': case.describe()}, feats)
                return


def _run(ctx, rng, case, tag, dataflow):
    ctx.case(case.signature(), case.nontrivial(), sample=case.describe())
    if build(ctx, case, rng, tap=True) is None:
        return
    ctx.count('constructed')
    x = case.x_free()
    if check_value(ctx, case, x, tag) is None:
        return
    if not check_counts(ctx, case):
        return
    if dataflow:
        check_names_and_dataflow(ctx, case, x, rng)
    # a second, independent point (layout errors can cancel at one point)
    x2 = x * np.exp(0.05 * rng.normal(size=len(x)))
    check_value(ctx, case, x2, tag)
    # the caller goes on using the population model object: a second
    # likelihood for fewer individuals is built from it, and a fixed value
    # is changed - the first likelihood keeps scoring what it was built for
    if len(case.lls) > 1 and not case.posterior:
        try:
            k = len(case.lls) - 1
            kw = {}
            if case.h.n_cov:
                kw['covariates'] = case.cov[:k]
            chi.HierarchicalLogLikelihood(case.lls[:k], case.pm, **kw)
            if isinstance(case.pm, chi.ReducedPopulationModel) and \
                    case.pm.n_fixed_parameters() > 0:
                nm = [n for n, f in zip(case.top_names_full, case.free_top)
                      if not f][0]
                case.pm.fix_parameters({nm: 0.123})
            ctx.count('sibling_likelihoods_built')
        except Exception as e:      # noqa
            ctx.violation_exc('constructible_model_is_usable', e,
                              {'case': case.describe(),
                               'call': 'sibling likelihood'},
                              case.features())
            return
        if check_value(ctx, case, x, tag + '_after_sibling') is None:
            return
    # one work vector, updated in place between evaluations (finite
    # differences, line searches, samplers that reuse a proposal buffer):
    # every evaluation is scored at the values the vector holds then
    w = np.array(x, dtype=float)
    if check_value(ctx, case, w, tag + '_buffer') is not None:
        ctx.count('in_place_updates')
        for k in rng.permutation(len(w))[:4]:
            w[k] = w[k] * 1.03 + 0.002
            if check_value(ctx, case, w, tag + '_buffer') is None:
                break
    check_integer_vector(ctx, case, rng)


def enumerated_case(ctx, rng, idx):
    case = make_enumerated(rng, idx, posterior=(idx % 5 == 0))
    _run(ctx, rng, case, 'enum', dataflow=True)


def random_case(ctx, rng, idx):
    case = make_random(rng, idx)
    _run(ctx, rng, case, 'random', dataflow=(idx % 2 == 0))


def boundary_case(ctx, rng, idx):
    """population density -inf (negative scale / psi outside support)"""
    case = make_enumerated(rng, idx)
    if not any(l.kind in 'GLT' for l in case.leaves):
        return
    ctx.case(('boundary',) + case.signature(), True, sample=case.describe())
    if build(ctx, case, rng) is None:
        return
    x = case.x_free().copy()
    h = case.h
    desc = h.describe()
    cand = []
    for k, (level, indiv, li, loc) in enumerate(desc):
        l = case.leaves[li]
        if level == 'top' and l.kind in 'GLT' and not l.cov \
                and l.n_dim <= loc < 2 * l.n_dim:
            cand.append(k)
    if not cand:
        return
    k = cand[int(rng.integers(len(cand)))]
    x[k] = -abs(x[k])
    try:
        v = case.obj(x)
    except Exception as e:      # noqa
        ctx.violation_exc('constructible_model_is_usable', e,
                          {'case': case.describe(), 'x': x},
                          case.features())
        return
    ctx.count('boundary_evaluated')
    try:
        s1 = case.obj.evaluateS1(x)[0]
    except Exception as e:      # noqa
        ctx.violation_exc('constructible_model_is_usable', e,
                          {'case': case.describe(), 'x': x,
                           'call': 'evaluateS1'}, case.features())
        return
    # (centred and non-centred models alike: a negative scale is outside
    # the support; value and S1 score agree on it)
    if v != -np.inf or s1 != -np.inf:
        ctx.violation('negative_scale_scores_minus_inf', 'boundary_value',
                      {'value': v, 's1 score': s1, 'position': k,
                       'case': case.describe()}, case.features())


N_ENUM = None


def _n_enum():
    return 2 * len(compositions())


FAMILIES = [
    Family('enumerated', enumerated_case, quick=_n_enum(),
           thorough=_n_enum()),
    Family('random', random_case, quick=1500, thorough=20000),
    Family('boundary', boundary_case, quick=300, thorough=2000),
]
