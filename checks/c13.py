"""
C13 - the population-filter log-posterior is prior + population density +
noise term + filter term (up to a parameter-independent constant), has exact
sensitivities, and publishes names / IDs that describe each position.
Oracle: brute force from the C05 / C12 references and the analytic toy model;
names / IDs by perturbation observed through taps on the owned mechanistic
model (shared call list) and on the filter's public compute_log_likelihood.
"""
import functools

import numpy as np
import pints

from harness.bootstrap import load_chi
from harness.core import Family, Rejected
from harness import forms as FM
from harness import gen_pop as GP
from harness import toys
from harness.oracle.hierarchy import Hierarchy
from harness.oracle import densities as D
from checks import c12

chi = load_chi()

PROP = 'C13'
TITLE = 'filter posterior = prior + population + noise + filter; gradient'
RULE = (
    'configurations = (filter class, population composition over the '
    'n_outputs+2 mechanistic parameters with pooled / heterogeneous / '
    'non-centred / covariate dimensions at every position incl. all-pooled '
    'and all-heterogeneous, sigma fixed or free, additive or log-scale '
    'noise, 2-8 simulated individuals [mixture: multiples of k], unsorted '
    'unique times, 1-2 observables); 3 parameter vectors per configuration '
    '(constancy of the offset); signature = (filter, composition, sigma '
    'free, log scale, n_samples bucket, n_observables); non-trivial = any '
    'special / non-centred / covariate dimension or unsorted times')
ASSUMPTIONS = [
    'the noise term is fixed by the statement only up to a parameter-'
    'independent constant: the oracle checks that value - reference is the '
    'same number at every parameter vector of one configuration',
    'filters, population densities and transforms: references of C12 / C05',
    'covariate models around pooled / heterogeneous parts are generated '
    '(they are constructible)',
    'at whole-numbered points the float64 evaluation (validated by the reference elsewhere) is the oracle for the other input forms; gradients next to a non-finite score are not compared',
    'log-normal filters are used with noise on the log scale (keeps simulated values positive; see KF-C12-lognormal-filter-nonpositive)',
]
ANCHORS = [
    'chi._log_pdfs.PopulationFilterLogPosterior.__call__',
    'chi._log_pdfs.PopulationFilterLogPosterior.evaluateS1',
    'chi._log_pdfs.PopulationFilterLogPosterior._reshape_bottom_parameters',
    'chi._log_pdfs.PopulationFilterLogPosterior._remove_duplicates',
    'chi._log_pdfs.PopulationFilterLogPosterior.get_parameter_names',
    'chi._log_pdfs.PopulationFilterLogPosterior.get_id',
]
REQUIRED = {'offset_sets_compared': 100, 'gradients_compared': 100,
            'positions_perturbed': 200, 'names_checked': 200}

_TAP = {'on': False, 'args': []}
_PATCHED = False


def _patch_filters():
    """class-level tap on the public compute_log_likelihood of every filter"""
    global _PATCHED
    if _PATCHED:
        return
    _PATCHED = True
    for cname in c12.CLASSES + ['ComposedPopulationFilter']:
        cls = getattr(chi, cname)
        orig = cls.compute_log_likelihood

        @functools.wraps(orig)
        def wrapped(self, simulated_obs, _orig=orig):
            # (only the call the posterior makes: a composite calls its
            # parts through the same public method)
            if _TAP['on'] and not _TAP.get('depth'):
                _TAP['args'].append(np.array(simulated_obs, dtype=float))
            _TAP['depth'] = _TAP.get('depth', 0) + 1
            try:
                return _orig(self, simulated_obs)
            finally:
                _TAP['depth'] -= 1
        cls.compute_log_likelihood = wrapped


class FPCase(object):
    def __init__(self, rng, idx, special_mode=None, allow_fixed=True):
        self.n_out = int(rng.integers(1, 3))
        self.n_dim = self.n_out + 2
        self.fname = c12.CLASSES[idx % len(c12.CLASSES)]
        self.k = int(rng.integers(2, 4))
        if self.fname == 'GaussianMixtureFilter':
            self.n_s = self.k * int(rng.integers(2, 4))
        else:
            self.n_s = int(rng.integers(2, 9))
        self.log_scale = bool(rng.integers(2))
        if self.fname.startswith('LogNormal'):
            self.log_scale = True       # keeps simulated values positive
        self.sigma_free = bool(rng.integers(2))
        n_s = self.n_s
        mode = special_mode or ['random', 'random', 'all_pooled',
                                'all_hetero', 'all_pooled_composed',
                                'all_hetero_composed', 'no_special'][
                                    int(rng.integers(7))]
        self.mode = mode
        nd = self.n_dim
        if mode == 'all_pooled':
            leaves = [GP.make_leaf('P', nd)]
        elif mode == 'all_hetero':
            leaves = [GP.make_leaf('H', nd, n_ids=n_s)]
        elif mode == 'all_pooled_composed':
            leaves = [GP.make_leaf('P', 1) for _ in range(nd)]
        elif mode == 'all_hetero_composed':
            leaves = [GP.make_leaf('H', 1, n_ids=n_s) for _ in range(nd)]
        elif mode == 'no_special':
            leaves = GP.random_composition(
                rng, n_s, total_dim=nd, kinds='GLT', p_cov=0.3)
        else:
            leaves = GP.random_composition(
                rng, n_s, total_dim=nd, kinds='GLTPH', p_cov=0.3,
                cov_kinds='GLTPH', p_partial=0.5)
        self.leaves = leaves
        self.h = Hierarchy(leaves, n_s)
        # sub-models hidden behind wrappers: a block as a nested composed
        # model, single sub-models inside (unfixed) reduced models, or the
        # whole model inside a reduced model
        self.nest = GP.random_nest(rng) if idx % 3 == 1 else None
        self.reduced_top = idx % 7 == 3
        # data
        self.n_times = int(rng.integers(1, 5))
        self.times = rng.permutation(
            np.array([0.2, 0.7, 1.1, 1.9, 2.6, 3.3]))[:self.n_times]
        self.order = np.argsort(self.times)
        # the measurements may be spread over several filters of the same
        # kind, one per block of (input-order) time points, composed into one
        # (also a single block: a plain wrapper)
        self.blocks = None
        if rng.random() < 0.25:
            self.blocks = [self.n_times] if rng.random() < 0.3 \
                else c12._split(rng, self.n_times)
        n_ids = int(rng.integers(2, 6))
        self.obs = rng.uniform(1.0, 4.0,
                               size=(n_ids, self.n_out, self.n_times))
        if rng.random() < 0.4:
            m = rng.random(self.obs.shape) < 0.3
            for r in range(self.n_out):
                for j in range(self.n_times):
                    if np.all(m[:, r, j]):
                        m[0, r, j] = False
            self.obs[m] = np.nan
        self.sigma_fixed_vals = rng.uniform(0.05, 0.3, size=self.n_out)
        self.cov = None
        if self.h.n_cov:
            if rng.random() < 0.5:
                self.cov = rng.uniform(-1, 1, size=(n_s, self.h.n_cov))
                self.cov_arg = self.cov
            else:
                row = rng.uniform(-1, 1, size=self.h.n_cov)
                self.cov = np.broadcast_to(row, (n_s, self.h.n_cov)).copy()
                self.cov_arg = row
        # population parameters fixed through the reduced wrapper (half of
        # the reduced cases): the posterior equals the unreduced one at
        # the fixed values, with the fixed entries removed from the vector
        self.fixed_pop = np.zeros(self.h.n_top, dtype=bool)
        self.fixed_vals = np.zeros(self.h.n_top)
        if self.reduced_top and rng.random() < 0.5 and self.h.n_top > 1 \
                and allow_fixed:
            _, z0, _ = GP.hierarchy_vector(rng, leaves, n_s)
            k_fix = int(rng.integers(1, self.h.n_top))
            fi = rng.permutation(self.h.n_top)[:k_fix]
            self.fixed_pop[fi] = True
            self.fixed_vals = np.real(z0[self.h.n_bottom:]).astype(float)
        self.pre_sens = None
        u_ = rng.random()
        if u_ < 0.12:
            self.pre_sens = 'all'
        elif u_ < 0.3:
            mech_ = ['a%d' % (i + 1) for i in range(self.n_out)] + ['k', 'b']
            k_ = int(rng.integers(1, len(mech_)))
            self.pre_sens = tuple(
                mech_[i] for i in sorted(rng.permutation(len(mech_))[:k_]))
        self.n_pop = int(np.sum(~self.fixed_pop))
        self.n_top = self.n_pop + (self.n_out if self.sigma_free else 0)
        self.prior_mu = rng.uniform(0.2, 0.6, size=self.n_top)
        self.prior_sd = rng.uniform(1.0, 2.0, size=self.n_top)

    def build(self):
        model = toys.ToyMulti(self.n_out)
        model.tap = True
        model.share_calls = True
        self.user_model = model
        # the user's model may arrive with sensitivities switched on, for
        # all parameters or for a subset
        if self.pre_sens == 'all':
            model.enable_sensitivities(True)
        elif self.pre_sens is not None:
            model.enable_sensitivities(True, list(self.pre_sens))
        if self.blocks is None:
            flt = c12.make_filter(self.fname, self.obs.copy(), self.k)
        else:
            edges = np.concatenate([[0], np.cumsum(self.blocks)])
            flt = chi.ComposedPopulationFilter([
                c12.make_filter(self.fname, self.obs[:, :, a:b].copy(),
                                self.k)
                for a, b in zip(edges[:-1], edges[1:])])
        pm = GP.build_chi(self.leaves, self.n_s, nest=self.nest)
        if self.reduced_top:
            full_names = pm.get_parameter_names()
            pm = chi.ReducedPopulationModel(pm)
            if np.any(self.fixed_pop):
                if len(set(full_names)) != len(full_names):
                    raise Rejected('duplicate population parameter names')
                pm.fix_parameters({
                    full_names[i]: float(self.fixed_vals[i])
                    for i in np.where(self.fixed_pop)[0]})
        prior = pints.ComposedLogPrior(*[
            pints.GaussianLogPrior(float(m), float(s))
            for m, s in zip(self.prior_mu, self.prior_sd)])
        kw = {}
        if self.h.n_cov:
            kw['covariates'] = self.cov_arg
        self.post = chi.PopulationFilterLogPosterior(
            flt, self.times.copy(), model, pm, prior,
            sigma=None if self.sigma_free else (
                # (one output: the standard deviation may be a plain number)
                float(self.sigma_fixed_vals[0])
                if (self.n_out == 1 and self.n_s % 2 == 0)
                else list(self.sigma_fixed_vals)),
            error_on_log_scale=self.log_scale, n_samples=self.n_s, **kw)
        return self.post

    def point(self, rng):
        h = self.h
        _, z, _ = GP.hierarchy_vector(rng, self.leaves, self.n_s)
        bottom, pop = z[:h.n_bottom], z[h.n_bottom:]
        pop = pop[~self.fixed_pop]
        parts = [pop]
        if self.sigma_free:
            parts.append(rng.uniform(0.05, 0.3, size=self.n_out))
        parts.append(bottom)
        parts.append(rng.normal(size=self.n_s * self.n_out * self.n_times))
        return np.concatenate(parts)

    def split(self, x):
        h = self.h
        x = np.asarray(x)
        pop = np.array(self.fixed_vals, dtype=complex)
        pop[~self.fixed_pop] = x[:self.n_pop]
        sigma = x[self.n_pop:self.n_top] if self.sigma_free \
            else self.sigma_fixed_vals
        eb = self.n_top + h.n_bottom
        bottom = x[self.n_top:eb]
        eps = x[eb:].reshape(self.n_s, self.n_out, self.n_times)
        return pop, sigma, bottom, eps

    def sim(self, x):
        """(pop score, psi (n_s, n_dim), simulated measurements); complex"""
        pop, sigma, bottom, eps = self.split(x)
        z = np.concatenate([bottom, pop])
        s, psi = self.h.pop_score(z, self.cov)
        ts = self.times[self.order]
        y = np.empty((self.n_s, self.n_out, self.n_times), dtype=complex)
        for q in range(self.n_s):
            for r in range(self.n_out):
                y[q, r] = toys.toy_multi_ref(psi[q], ts, r, self.n_out)
        sg = np.asarray(sigma).reshape(1, self.n_out, 1)
        if self.log_scale:
            y = y * np.exp(sg * eps)
        else:
            y = y + sg * eps
        return s, psi, y

    def ref(self, x):
        """reference value without the parameter-independent constant"""
        x = np.asarray(x)
        pop, sigma, bottom, eps = self.split(x)
        s, psi, y = self.sim(x)
        top = x[:self.n_top]
        prior = np.sum(D.norm_logpdf(top, self.prior_mu, self.prior_sd))
        if self.blocks is not None:
            # y is in sorted time order: y[:, :, j] belongs to input time
            # order[j]
            yo = np.empty(y.shape, dtype=complex)
            yo[:, :, self.order] = y
            edges = np.concatenate([[0], np.cumsum(self.blocks)])
            f = 0.0
            for a, b in zip(edges[:-1], edges[1:]):
                f = f + c12.ref_value(self.fname, self.obs[:, :, a:b],
                                      yo[:, :, a:b], self.k)
            return prior + s - np.sum(eps ** 2) / 2 + f
        obs_sorted = self.obs[:, :, self.order]
        return prior + s - np.sum(eps ** 2) / 2 \
            + c12.ref_value(self.fname, obs_sorted, y, self.k)

    def _fixed_special(self):
        """is a pooled / heterogeneous base parameter among the fixed ones"""
        desc = self.h.describe()
        for i in np.where(self.fixed_pop)[0]:
            _, _, li, loc = desc[self.h.n_bottom + int(i)]
            leaf = self.leaves[li]
            if leaf.kind in 'PH' and loc < leaf.n_base(self.n_s):
                return True
        return False

    def signature(self):
        return (self.fname[:9], '+'.join(GP.leaf_code(l) for l in self.leaves),
                self.sigma_free, self.log_scale, min(self.n_s, 4), self.n_out,
                None if self.blocks is None else len(self.blocks))

    def nontrivial(self):
        return any(l.kind in 'PH' or l.cov or not l.centered
                   for l in self.leaves) or \
            not np.array_equal(self.order, np.arange(self.n_times))

    def describe(self):
        return {'filter': self.fname, 'kernels': self.k,
                'population': [GP.leaf_code(l) for l in self.leaves],
                'mode': self.mode, 'n_samples': self.n_s,
                'n_outputs': self.n_out, 'times': self.times,
                'sigma_free': self.sigma_free, 'log_scale': self.log_scale,
                'observations_shape': self.obs.shape,
                'composed_filter_blocks': self.blocks,
                'covariates': None if self.cov is None else self.cov_arg}

    def features(self):
        kinds = [l.kind for l in self.leaves]
        return {'filter': self.fname, 'mode': self.mode,
                'composed_filter': self.blocks is not None,
                'leaves': [GP.leaf_code(l) for l in self.leaves],
                'n_leaves': len(self.leaves),
                'all_pooled': all(k == 'P' for k in kinds),
                'all_hetero': all(k == 'H' for k in kinds),
                'has_cov': any(bool(l.cov) for l in self.leaves),
                'nested_wrappers': self.nest is not None,
                'reduced_top': self.reduced_top,
                'fixed_population_parameters': int(np.sum(self.fixed_pop)),
                'fixed_special': self._fixed_special(),
                'sigma_free': self.sigma_free, 'log_scale': self.log_scale}


def _names(ctx, case, x, rng):
    """names / IDs by perturbation through the taps"""
    post, h = case.post, case.h
    feats = case.features()
    names = post.get_parameter_names()
    names_id = post.get_parameter_names(include_ids=True)
    ids = post.get_id()
    n = post.n_parameters()
    if not (len(names) == len(ids) == len(names_id) == n == len(x)):
        ctx.violation('published_counts', 'count_mismatch',
                      {'names': len(names), 'ids': len(ids),
                       'n_parameters': n, 'vector': len(x),
                       'case': case.describe()}, feats)
        return
    if len(post.get_parameter_names(exclude_bottom_level=True)) != \
            post.n_parameters(exclude_bottom_level=True) or \
            post.n_parameters(exclude_bottom_level=True) != case.n_top:
        ctx.violation('published_counts', 'top_count_mismatch',
                      {'case': case.describe()}, feats)
    mech_names = case.user_model.parameters()
    out_names = case.user_model.outputs()
    dim0, d0 = [], 0
    for l in case.leaves:
        dim0.append(d0)
        d0 += l.n_dim
    hdims = []
    for li, l in enumerate(case.leaves):
        if l.n_hdim():
            hdims += [dim0[li] + j for j in range(l.n_dim)]

    def observe(xv):
        case.user_model.calls[:] = []
        _TAP['args'][:] = []
        _TAP['on'] = True
        try:
            v = post(xv)
        finally:
            _TAP['on'] = False
        calls = list(case.user_model.calls)
        if len(calls) != case.n_s or not _TAP['args']:
            return v, None, None
        psi = np.array([c[0] for c in calls])
        return v, psi, _TAP['args'][-1]
    v0, psi0, y0 = observe(x)
    if psi0 is None or not np.isfinite(v0):
        ctx.count('dataflow_skipped_nonfinite')
        return
    _, rpsi0, ry0 = case.sim(x)
    positions = list(range(len(x)))
    if len(positions) > 36:
        positions = sorted(rng.choice(positions, 36, replace=False).tolist())
    eb = case.n_top + h.n_bottom
    desc = h.describe()
    for k in positions:
        x1 = np.array(x, dtype=float)
        x1[k] = x1[k] * 1.011 + 0.003
        v1, psi1, y1 = observe(x1)
        ctx.count('names_checked')
        problems = []
        # ------- expected label
        if k < case.n_pop:
            level, _, li, loc = desc[
                h.n_bottom + int(np.where(~case.fixed_pop)[0][k])]
            leaf = case.leaves[li]
            if ids[k] is not None:
                problems.append('population entry with id %r' % (ids[k],))
            nb = leaf.n_base(case.n_s)
            if loc < nb:
                row, d = divmod(loc, leaf.n_dim)
            else:
                sidx, cc = divmod(loc - nb, leaf.cov['n_cov'])
                row, d = leaf.cov['sel'][sidx]
                if ('Cov. %d' % (cc + 1)) not in names[k]:
                    problems.append('covariate name missing in %r' % names[k])
            if mech_names[dim0[li] + d] not in names[k]:
                problems.append('%r lacks %r' % (
                    names[k], mech_names[dim0[li] + d]))
            if leaf.kind == 'H' and ('ID %d' % (row + 1)) not in names[k]:
                problems.append('%r lacks ID %d' % (names[k], row + 1))
        elif k < case.n_top:
            r = k - case.n_pop
            if ids[k] is not None:
                problems.append('sigma entry with id')
            if out_names[r] not in names[k] or 'igma' not in names[k]:
                problems.append('sigma name %r' % names[k])
        elif k < eb:
            q, c = divmod(k - case.n_top, h.n_hdim)
            want_id = 'Sim. %d' % (q + 1)
            if ids[k] != want_id:
                problems.append('id %r != %r' % (ids[k], want_id))
            if names[k] != mech_names[hdims[c]]:
                problems.append('name %r != %r' % (
                    names[k], mech_names[hdims[c]]))
            if names_id[k] != want_id + ' ' + mech_names[hdims[c]]:
                problems.append('name with id %r' % names_id[k])
        else:
            q, rest = divmod(k - eb, case.n_out * case.n_times)
            r, j = divmod(rest, case.n_times)
            want_id = 'Sim. %d' % (q + 1)
            if ids[k] != want_id:
                problems.append('id %r != %r' % (ids[k], want_id))
            if out_names[r] not in names[k] or \
                    not names[k].endswith('time %d' % (j + 1)) or \
                    'psilon' not in names[k]:
                problems.append('epsilon name %r for output %d time %d' % (
                    names[k], r, j + 1))
        if problems:
            ctx.violation('published_name_and_id', 'name_or_id_mismatch',
                          {'position': k, 'problems': problems,
                           'case': case.describe()}, feats)
        # ------- data flow
        if psi1 is None:
            ctx.count('dataflow_skipped_rejected_point')
            continue
        _, rpsi1, ry1 = case.sim(x1)
        ctx.count('positions_perturbed')
        ok = np.allclose(psi1, np.real(rpsi1), rtol=1e-12, atol=1e-13) and \
            np.allclose(y1, np.real(ry1), rtol=1e-11, atol=1e-12)
        moved_psi = set(zip(*np.nonzero(psi1 != psi0)))
        want_psi = set(zip(*np.nonzero(np.real(rpsi1) != np.real(rpsi0))))
        moved_y = set(zip(*np.nonzero(y1 != y0)))
        want_y = set(zip(*np.nonzero(np.real(ry1) != np.real(ry0))))
        if not ok or moved_psi != want_psi or moved_y != want_y:
            ctx.violation('position_controls_announced_quantity',
                          'dataflow_mismatch',
                          {'position': k, 'name': names[k], 'id': ids[k],
                           'psi_moved': sorted(moved_psi)[:8],
                           'psi_expected': sorted(want_psi)[:8],
                           'y_moved': sorted(moved_y)[:8],
                           'y_expected': sorted(want_y)[:8],
                           'case': case.describe()}, feats)
        if k >= case.n_top and (moved_psi or moved_y):
            movers = set(int(a[0]) for a in moved_psi) | \
                set(int(a[0]) for a in moved_y)
            if ids[k] is None or movers != {int(ids[k].split()[-1]) - 1}:
                ctx.violation('position_controls_announced_quantity',
                              'id_does_not_match_mover',
                              {'position': k, 'id': ids[k],
                               'movers': sorted(movers)}, feats)


def posterior_case(ctx, rng, idx, special_mode=None):
    _patch_filters()
    case = FPCase(rng, idx, special_mode)
    feats = case.features()
    ctx.case(case.signature(), case.nontrivial(), sample=case.describe())
    try:
        post = case.build()
    except Exception as e:      # noqa
        ctx.violation_exc('construction_raises', e,
                          {'case': case.describe()}, feats)
        return
    ctx.count('constructed')
    xs = [case.point(rng) for _ in range(3)]
    # the very first evaluation of a fresh posterior may be the one with
    # sensitivities (a gradient-based sampler): it is compared below with
    # the same call after plain evaluations
    first_s1 = None
    if idx % 3 == 0:
        try:
            first_s1 = post.evaluateS1(xs[0].copy())
        except Exception as e:      # noqa
            ctx.violation_exc('evaluateS1_raises', e,
                              {'case': case.describe(),
                               'call': 'first evaluation'}, feats)
            return
    offsets, vals = [], []
    for x in xs:
        x.setflags(write=False)
        try:
            v = post(x)
        except Exception as e:      # noqa
            ctx.violation_exc('evaluation_raises', e,
                              {'case': case.describe()}, feats)
            return
        r = float(np.real(case.ref(x)))
        vals.append(v)
        offsets.append(v - r)
    ctx.count('offset_sets_compared')
    sc = max(abs(v) for v in vals if np.isfinite(v)) + 10 \
        if any(np.isfinite(v) for v in vals) else 10
    if not all(np.isfinite(o) for o in offsets):
        ctx.violation('value_vs_reference', 'nonfinite_offset',
                      {'values': vals, 'offsets': offsets,
                       'case': case.describe()}, feats)
        return
    ctx.maximum('offset_spread', (max(offsets) - min(offsets)) / sc)
    if max(offsets) - min(offsets) > 1e-9 * sc:
        ctx.violation('value_vs_reference', 'offset_not_constant',
                      {'values': vals, 'offsets': offsets,
                       'case': case.describe()}, feats)
        return
    if first_s1 is not None:
        again = post.evaluateS1(xs[0].copy())
        ctx.count('first_call_with_sensitivities')
        g0, g1 = np.asarray(first_s1[1], float), np.asarray(again[1], float)
        if not (ctx.close(first_s1[0], again[0], rtol=1e-12, scale=sc) and
                g0.shape == g1.shape and ctx.close(
                    g0, g1, rtol=1e-9, scale=1 + float(np.max(np.abs(g1))))):
            ctx.violation('gradient_vs_complex_step',
                          'first_evaluateS1_differs_from_later_one',
                          {'first': g0, 'after plain evaluations': g1,
                           'scores': [first_s1[0], again[0]],
                           'case': case.describe()}, feats)
            return
    # one work vector overwritten in place between evaluations gives what
    # the fresh vectors gave
    w = np.array(xs[0], dtype=float)
    try:
        post(w)
        for j in (1, 2, 0):
            w[:] = xs[j]
            vw = post(w)
            sw = post.evaluateS1(w)[0]
            ctx.count('in_place_updates')
            if not (ctx.close(vw, vals[j], rtol=1e-12, scale=sc) and
                    ctx.close(sw, vals[j], rtol=1e-9, scale=sc)):
                ctx.violation('value_vs_reference', 'reused_work_vector',
                              {'fresh vector': vals[j], 'work vector': vw,
                               's1 score': sw, 'case': case.describe()},
                              feats)
                return
    except Exception as e:      # noqa
        ctx.violation_exc('evaluation_raises', e,
                          {'case': case.describe(), 'call': 'work vector'},
                          feats)
        return
    # gradient
    x = xs[idx % 3]
    try:
        if idx % 2:
            score, grad = post.evaluateS1(x)
            v = post(x)
        else:
            v = post(x)
            score, grad = post.evaluateS1(x)
    except Exception as e:      # noqa
        ctx.violation_exc('evaluateS1_raises', e, {'case': case.describe()},
                          feats)
        return
    ctx.count('gradients_compared')
    grad = np.asarray(grad, dtype=float)
    if not ctx.close(score, v, rtol=1e-9, scale=sc):
        ctx.violation('s1_score_equals_value', 's1_score_mismatch',
                      {'s1': score, 'value': v, 'case': case.describe()},
                      feats)
    if grad.shape != (len(x),):
        ctx.violation('gradient_length', 'gradient_length',
                      {'shape': grad.shape, 'expected': len(x),
                       'case': case.describe()}, feats)
        return
    g_ref = D.cstep_grad(case.ref, np.array(x))
    gs = 1.0 + float(np.max(np.abs(g_ref)))
    ctx.maximum('gradient_relerr', ctx.relerr(grad, g_ref, scale=gs))
    if not ctx.close(grad, g_ref, rtol=1e-7, scale=gs):
        bad = int(np.argmax(np.abs(grad - g_ref)))
        eb = case.n_top + case.h.n_bottom
        block = 'population' if bad < case.n_pop else (
            'sigma' if bad < case.n_top else (
                'bottom' if bad < eb else 'epsilon'))
        ctx.violation('gradient_vs_complex_step',
                      'gradient_mismatch:' + block,
                      {'chi': grad, 'reference': g_ref, 'worst': bad,
                       'names': post.get_parameter_names(),
                       'case': case.describe()}, feats)
    # a simulated individual outside the support of its population model
    # (a negative value under a log-normal / truncated Gaussian model): the
    # score returned with the sensitivities is the value
    h_ = case.h
    off = 0
    for l in case.leaves:
        if l.kind in 'LT' and l.centered and l.n_hdim():
            xb = np.array(x, dtype=float)
            xb[case.n_top + off] = -abs(xb[case.n_top + off]) - 0.1
            try:
                with np.errstate(all='ignore'):
                    vb = post(xb)
                    sb = post.evaluateS1(xb)[0]
                ctx.count('rejected_points_compared')
                if not (vb == sb or (vb != vb and sb != sb)):
                    ctx.violation('s1_score_equals_value',
                                  's1_score_mismatch_at_rejected_point',
                                  {'value': vb, 's1': sb,
                                   'case': case.describe()}, feats)
            except Exception as e:      # noqa
                ctx.violation_exc('evaluateS1_raises', e,
                                  {'case': case.describe(),
                                   'call': 'rejected point'}, feats)
            break
        off += l.n_hdim()
    if idx % 2 == 0:
        _names(ctx, case, np.array(x), rng)
    # ---- the same whole-numbered point as float64 / integer-typed / list
    xi = FM.intify(np.array(x))
    try:
        vf = post(xi.copy())
    except Exception as e:      # noqa
        ctx.count('integer_point_not_evaluable')
        return
    if not np.isfinite(vf):
        ctx.count('integer_point_outside_support')
        return
    form = FM.pick(rng, ['int64', 'int32', 'pyint', 'list', 'strided'])
    xv = FM.variant(xi, form)
    try:
        got = (post(xv),) + tuple(post.evaluateS1(xv))
        base = (vf,) + tuple(post.evaluateS1(xi.copy()))
    except Exception as e:      # noqa
        ctx.violation_exc('evaluation_raises', e,
                          {'case': case.describe(), 'input_form': form},
                          dict(feats, input_form=form))
        return
    ctx.count('input_forms_compared')
    # (whole-numbered points are often degenerate for the filters - equal
    # simulated values in a cell - so the float64 evaluation, which the
    # reference validates elsewhere, is the oracle here)
    if not np.isfinite(base[1]):
        # no gradient is defined next to a non-finite score
        got, base = got[:2], base[:2]
    if not FM.same(got, base, 1e-10):
        ctx.violation('same_numbers_same_result', 'input_form:' + form,
                      {'float64': base[:2], form: got[:2],
                       'x': xi, 'case': case.describe()},
                      dict(feats, input_form=form))


def special_case(ctx, rng, idx):
    modes = ['all_pooled', 'all_hetero', 'all_pooled_composed',
             'all_hetero_composed']
    posterior_case(ctx, rng, idx, special_mode=modes[idx % 4])


FAMILIES = [
    Family('posterior', posterior_case, quick=1200, thorough=20000),
    Family('special', special_case, quick=300, thorough=5000),
]
