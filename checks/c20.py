"""
C20 - figures faithfully render the supplied data and prediction bands.
Oracle: group-by on the input frame compared with the (x, y) arrays of the
plotly traces (public trace objects of the figure); the band definition of
the property statement evaluated on the samples; frame digests before / after.
"""
import numpy as np
import pandas as pd

from harness.bootstrap import load_chi
from harness.core import Family

chi = load_chi()
import chi.plots            # noqa

PROP = 'C20'
TITLE = 'figures faithfully render data and prediction bands'
RULE = (
    'data frames: 1-8 individuals (int / float / str IDs), 1-3 observables, '
    'NaNs in values / times, custom column keys, non-unique index, unsorted '
    'rows, dose rows; figures: PD / PK time-series and predictive plots '
    '(add_data, add_simulation, add_prediction with 1-7 bulk probabilities '
    'in (0,1), sample sets of 2-500 values per time with ties), residual '
    'plots; signature = (figure class, id dtype, n_ids bucket, flags); '
    'non-trivial = >=2 individuals or NaNs or ties or >=2 probabilities')
ASSUMPTIONS = [
    'figures are read through plotly\'s public trace objects '
    '(figure.data[i].x / .y / .name / .yaxis / .mode)',
    'a band limit that does not exist (too few samples on one side) is not '
    'judged (statement: whenever both limits exist)',
]
ANCHORS = [
    'chi.plots._time_series.PDTimeSeriesPlot.add_data',
    'chi.plots._time_series.PKTimeSeriesPlot.add_data',
    'chi.plots._time_series.PDPredictivePlot.add_data',
    'chi.plots._time_series.PKPredictivePlot.add_data',
    'chi.plots._time_series.PDPredictivePlot._compute_bulk_probs',
    'chi.plots._time_series.PKPredictivePlot._compute_bulk_probs',
    'chi.plots._residuals.ResidualPlot.add_data',
]
REQUIRED = {'data_figures': 200, 'traces_compared': 400,
            'band_figures': 60, 'band_limits_checked': 500,
            'frames_digested': 400, 'residual_figures': 30}

PLOTS = ['PDTimeSeriesPlot', 'PKTimeSeriesPlot', 'PDPredictivePlot',
         'PKPredictivePlot']


def digest(df):
    return (tuple(df.columns), tuple(str(t) for t in df.dtypes),
            tuple(df.index.tolist()),
            pd.util.hash_pandas_object(df, index=True).sum())


def gen_frame(rng, pk):
    # (any number of individuals: also more than a colour palette has
    # entries - plotly's qualitative palettes have 10 and 24)
    n_ids = int(rng.integers(1, 9)) if rng.random() < 0.8 else \
        int(rng.integers(9, 30))
    style = ['int', 'float', 'str'][int(rng.integers(3))]
    labels = [{'int': 3 * i + 1, 'float': i + 0.5, 'str': 'id-%d' % i}[style]
              for i in range(n_ids)]
    n_obs = int(rng.integers(1, 4))
    obs = ['obs %s' % 'ABC'[o] for o in range(n_obs)]
    keys = dict(id='ID', time='Time', obs='Observable', value='Value',
                dose='Dose', duration='Duration')
    if rng.random() < 0.3:
        keys = dict(id='who', time='when', obs='what', value='how much',
                    dose='given', duration='for')
    rows = []
    has_nan = False
    combined = pk and rng.random() < 0.35
    for lab in labels:
        for o in obs:
            for _ in range(int(rng.integers(0, 5))):
                v = float(np.round(rng.uniform(0.1, 9), 3))
                t = float(rng.choice([0.5, 1.0, 1.5, 2.0, 3.0, 4.5]))
                if rng.random() < 0.08:
                    v = np.nan
                    has_nan = True
                r = {keys['id']: lab, keys['time']: t, keys['obs']: o,
                     keys['value']: v}
                if pk:
                    r[keys['dose']] = np.nan
                    r[keys['duration']] = np.nan
                    if combined and rng.random() < 0.4:
                        # a sample recorded on the dosing row itself
                        r[keys['dose']] = float(np.round(
                            rng.uniform(1, 5), 2))
                        r[keys['duration']] = 0.01
                rows.append(r)
        if pk:
            for _ in range(int(rng.integers(0, 3))):
                rows.append({keys['id']: lab,
                             keys['time']: float(rng.uniform(0, 4)),
                             keys['obs']: np.nan, keys['value']: np.nan,
                             keys['dose']: float(np.round(
                                 rng.uniform(1, 5), 2)),
                             keys['duration']: float(rng.choice(
                                 [0.01, 0.5]))})
    if not rows:
        rows.append({keys['id']: labels[0], keys['time']: 1.0,
                     keys['obs']: obs[0], keys['value']: 1.0})
        if pk:
            rows[0][keys['dose']] = np.nan
            rows[0][keys['duration']] = np.nan
    df = pd.DataFrame(rows)
    df = df.iloc[rng.permutation(len(df))]
    if rng.random() < 0.25:
        # a first row without an observable (a missed sample, a baseline
        # record)
        first = {keys['id']: labels[0], keys['time']: 0.0,
                 keys['obs']: np.nan, keys['value']: np.nan}
        if pk:
            first[keys['dose']] = np.nan
            first[keys['duration']] = np.nan
        df = pd.concat([pd.DataFrame([first]), df])
    if rng.random() < 0.5:
        df.index = np.zeros(len(df), dtype=int)
    else:
        df = df.reset_index(drop=True)
    if rng.random() < 0.5:
        df['extra'] = 'x'
    return df, keys, labels, obs, style, has_nan


def _pairs(x, y):
    """sorted multiset of (x, y) with NaN as a sentinel"""
    out = []
    for a, b in zip(np.asarray(x, dtype=float), np.asarray(y, dtype=float)):
        out.append((-1e300 if a != a else float(a),
                    -1e300 if b != b else float(b)))
    return sorted(out)


def data_case(ctx, rng, idx):
    pname = PLOTS[idx % 4]
    pk = pname.startswith('PK')
    df, keys, labels, obs, style, has_nan = gen_frame(rng, pk)
    present = [o for o in obs if (df[keys['obs']] == o).any()]
    if not present:
        return
    observable = present[int(rng.integers(len(present)))]
    explicit = bool(rng.integers(2))
    if not explicit:
        first = df[keys['obs']].dropna().unique()[0]
        observable = first
    feats = {'figure': pname, 'id_style': style, 'n_ids': len(labels),
             'has_nan': has_nan, 'custom_keys': keys['id'] != 'ID',
             'explicit_observable': explicit}
    ctx.case((pname, style, min(len(labels), 3), has_nan,
              keys['id'] != 'ID', explicit),
             len(labels) >= 2 or has_nan,
             sample=dict(feats, head=df.head(5).to_dict('records')))
    fig = getattr(chi.plots, pname)()
    before = digest(df)
    kw = dict(id_key=keys['id'], time_key=keys['time'], obs_key=keys['obs'],
              value_key=keys['value'])
    if pk:
        kw.update(dose_key=keys['dose'], dose_duration_key=keys['duration'])
    try:
        fig.add_data(df, observable=observable if explicit else None, **kw)
    except Exception as e:      # noqa
        ctx.violation_exc('add_data_raises', e, {'case': feats}, feats)
        return
    ctx.count('data_figures')
    ctx.count('frames_digested')
    if digest(df) != before:
        ctx.violation('caller_frame_unchanged', 'frame_mutated:' + pname,
                      {'case': feats}, feats)
    sub = df[df[keys['obs']] == observable]
    ids = list(sub[keys['id']].unique())
    traces = list(fig._fig.data)
    biom = [t for t in traces if (not pk) or t.yaxis == 'y2']
    dose = [t for t in traces if pk and t.yaxis != 'y2']
    if len(biom) != len(ids):
        ctx.violation('one_marker_trace_per_individual',
                      'trace_count:' + pname,
                      {'traces': len(biom), 'individuals': len(ids)}, feats)
        return
    for i, _id in enumerate(ids):
        t = biom[i]
        rows = sub[sub[keys['id']] == _id]
        want = _pairs(rows[keys['time']], rows[keys['value']])
        got = _pairs(t.x, t.y)
        ctx.count('traces_compared')
        if t.mode != 'markers' or got != want:
            ctx.violation('trace_holds_exactly_the_individuals_pairs',
                          'trace_pairs:' + pname,
                          {'id': _id, 'trace': got[:8], 'rows': want[:8],
                           'name': t.name}, feats)
            return
        if str(_id) not in str(t.name) and not (
                style == 'float' and str(int(_id)) in str(t.name)):
            ctx.violation('trace_label', 'trace_name:' + pname,
                          {'id': _id, 'name': t.name}, feats)
    if pk:
        drows = df[df[keys['dose']].notnull()]
        if len(dose) != len(ids):
            ctx.violation('one_dose_trace_per_individual',
                          'dose_trace_count:' + pname,
                          {'traces': len(dose), 'individuals': len(ids)},
                          feats)
            return
        for i, _id in enumerate(ids):
            rows = drows[drows[keys['id']] == _id]
            want = _pairs(rows[keys['time']], rows[keys['dose']])
            got = _pairs(dose[i].x if dose[i].x is not None else [],
                         dose[i].y if dose[i].y is not None else [])
            ctx.count('traces_compared')
            if got != want:
                ctx.violation('dose_panel_holds_the_individuals_dose_rows',
                              'dose_pairs:' + pname,
                              {'id': _id, 'trace': got, 'rows': want},
                              feats)
                return
        # a second frame on the SAME figure (the follow-up period of the same
        # individuals, with other doses): its rows are drawn as well
        if idx % 3 == 0 and len(drows):
            df2 = df.copy()
            df2[keys['time']] = df2[keys['time']] + 11.0
            m2 = df2[keys['dose']].notnull()
            df2.loc[m2, keys['dose']] = df2.loc[m2, keys['dose']] * 1.5 + 0.25
            try:
                fig.add_data(df2, observable=observable if explicit else None,
                             **kw)
            except Exception as e:      # noqa
                ctx.violation_exc('add_data_raises', e,
                                  {'case': feats, 'call': 'second frame'},
                                  feats)
                return
            ctx.count('second_frames_on_one_figure')
            traces2 = list(fig._fig.data)[len(traces):]
            dose2 = [t for t in traces2 if t.yaxis != 'y2']
            d2 = df2[df2[keys['dose']].notnull()]
            want_all = _pairs(d2[d2[keys['id']].isin(ids)][keys['time']],
                              d2[d2[keys['id']].isin(ids)][keys['dose']])
            got_all = sorted(p_ for t in dose2 for p_ in _pairs(
                t.x if t.x is not None else [],
                t.y if t.y is not None else []))
            if got_all != sorted(want_all):
                ctx.violation('dose_panel_holds_the_individuals_dose_rows',
                              'dose_rows_of_a_second_frame:' + pname,
                              {'drawn': got_all[:8],
                               'dose rows': sorted(want_all)[:8]}, feats)


def _limits_exist(s, p):
    """both band limits exist by the rank rule (average ranks for ties, as
    the figures use), in exact arithmetic"""
    from fractions import Fraction
    s = np.asarray(s, dtype=float)
    s = s[~np.isnan(s)]
    n = len(s)
    if n == 0:
        return False
    pf = Fraction(repr(round(float(p), 10)))
    lo_thr, up_thr = (1 - pf) / 2, (1 + pf) / 2
    order = np.sort(s)
    has_lo = has_up = False
    for v in np.unique(order):
        first = int(np.searchsorted(order, v, side='left')) + 1
        last = int(np.searchsorted(order, v, side='right'))
        rank = Fraction(first + last, 2 * n)
        has_lo = has_lo or rank <= lo_thr
        has_up = has_up or rank >= up_thr
    return has_lo and has_up


def band_case(ctx, rng, idx):
    pname = ['PDPredictivePlot', 'PKPredictivePlot'][idx % 2]
    pk = pname.startswith('PK')
    n_times = int(rng.integers(1, 6))
    times = rng.permutation(np.array([0.5, 1.0, 2.0, 3.5, 5.0, 8.0]))[:n_times]
    # the origin of the time axis is arbitrary (seconds late in a long
    # experiment, epoch time stamps): neighbouring times stay distinct
    times = times + float(rng.choice([0, 0, 0, 2e5, 1.7e9]))
    n_s = int(rng.choice([2, 3, 5, 10, 40, 200, 500, 1000, 2000]))
    ties = bool(rng.integers(2))
    rows = []
    samples = {}
    for t in times:
        v = rng.normal(5, 2, size=n_s)
        if ties:
            v = np.round(v, 0)
        samples[float(t)] = v
        for j, vv in enumerate(v):
            r = {'ID': j + 1, 'Time': float(t), 'Observable': 'conc',
                 'Value': float(vv)}
            if pk:
                r['Dose'] = np.nan
                r['Duration'] = np.nan
            rows.append(r)
    # a second observable that must be ignored
    for t in times[:1]:
        r = {'ID': 1, 'Time': float(t), 'Observable': 'Another',
             'Value': 1e6}
        if pk:
            r['Dose'] = np.nan
            r['Duration'] = np.nan
        rows.append(r)
    # (an untreated group: the dose columns exist but hold no dose event)
    dose_free = pk and rng.random() < 0.25
    if pk and not dose_free:
        rows.append({'ID': 1, 'Time': 0.0, 'Observable': np.nan,
                     'Value': np.nan, 'Dose': 2.0, 'Duration': 0.01})
    nan_time_row = rng.random() < 0.2
    if nan_time_row:
        # a prediction row without a time belongs to no time point
        r = {'ID': 1, 'Time': np.nan, 'Observable': 'conc', 'Value': 3.3}
        if pk:
            r['Dose'] = np.nan
            r['Duration'] = np.nan
        rows.append(r)
    df = pd.DataFrame(rows)
    if rng.random() < 0.5:
        df = df.iloc[rng.permutation(len(df))]
    n_p = int(rng.integers(1, 8))
    # (probabilities with two to four decimals, also close to 1 and close
    # to each other: 0.95 next to 0.954 are two requests)
    digits = int(rng.integers(2, 5))
    probs = set(np.round(rng.uniform(0.05, 0.9995 if digits > 2 else 0.98,
                                     size=n_p), digits))
    if digits > 2 and rng.random() < 0.5:
        p0 = float(np.round(rng.uniform(0.5, 0.99), 2))
        probs |= {p0, float(np.round(p0 + 0.004, 3))}
    if digits > 2 and rng.random() < 0.3:
        probs.add([0.995, 0.999, 0.9975][int(rng.integers(3))])
    # (at most 7 probabilities per figure are documented)
    probs = sorted(probs)
    probs = [float(p) for p in rng.permutation(probs)][:7]
    feats = {'figure': pname, 'n_samples': n_s, 'ties': ties,
             'bulk_probs': probs, 'n_times': n_times,
             'dose_free_prediction': bool(dose_free)}
    if dose_free:
        ctx.count('dose_free_pk_predictions')
    ctx.case((pname, n_s, ties, len(probs), n_times, bool(dose_free)),
             ties or len(probs) >= 2, sample=feats)
    fig = getattr(chi.plots, pname)()
    before = digest(df)
    try:
        # (without an observable argument the first observable of the
        # frame is shown)
        if df['Observable'].dropna().iloc[0] == 'conc' and idx % 3 == 2:
            feats['observable_argument'] = False
            fig.add_prediction(df, bulk_probs=list(probs))
        else:
            fig.add_prediction(df, observable='conc',
                               bulk_probs=list(probs))
    except Exception as e:      # noqa
        ctx.violation_exc('add_prediction_raises', e, {'case': feats}, feats)
        return
    ctx.count('band_figures')
    ctx.count('frames_digested')
    if digest(df) != before:
        ctx.violation('caller_frame_unchanged', 'frame_mutated:' + pname,
                      {'case': feats}, feats)
    bands = [t for t in fig._fig.data if t.fill == 'toself']
    if len(bands) != len(probs):
        ctx.violation('one_band_per_probability', 'band_count:' + pname,
                      {'bands': len(bands), 'probabilities': len(probs)},
                      feats)
        return
    labelled = sorted(float(str(t.text).split()[0]) for t in bands)
    if labelled != sorted(probs):
        # (every band is drawn for - and labelled with - one of the
        # requested probabilities)
        ctx.violation('one_band_per_probability',
                      'band_probabilities:' + pname,
                      {'bands drawn for': labelled,
                       'requested': sorted(probs)}, feats)
        return
    limits = {}
    for t in bands:
        p = float(str(t.text).split()[0])
        x = np.asarray(t.x, dtype=float)
        y = np.asarray(t.y, dtype=float)
        # by the documented rank rule a limit exists at a time point iff a
        # sample has rank fraction <= (1 - p) / 2 (lower) and one has
        # >= (1 + p) / 2 (upper); decided here in exact arithmetic
        exists = {}
        for tt in times:
            exists[float(tt)] = _limits_exist(samples[float(tt)], p)
        # the filled polygon visits exactly the time points with both
        # limits, once forwards and once backwards, without missing
        # vertices (a NaN vertex splits the shaded area into two shapes)
        want_t = np.array(sorted(tt for tt, e in exists.items() if e))
        n = len(x) // 2
        if np.any(np.isnan(x)) or np.any(np.isnan(y)):
            ctx.violation('band_geometry',
                          'band_polygon_with_missing_vertices:' + pname,
                          {'x': x, 'y': y, 'prob': p}, feats)
            return
        if len(x) != 2 * n or not np.array_equal(x[:n], x[n:][::-1]) or \
                not np.array_equal(np.sort(x[:n]), want_t):
            ctx.violation('band_geometry', 'band_times:' + pname,
                          {'x': x, 'times with both limits': want_t,
                           'prob': p}, feats)
            return
        # the filled polygon runs along the upper limits in time order and
        # back along the lower ones: only then is the shaded region the
        # region between the limits
        if np.any(np.diff(x[:n]) < 0):
            ctx.violation('band_geometry', 'band_polygon_not_in_time_order:'
                          + pname, {'x': x}, feats)
            return
        upper, lower = y[:n], y[n:][::-1]
        for j in range(n):
            s = samples[float(x[j])]
            lo, up = lower[j], upper[j]
            ctx.count('band_limits_checked')
            if np.isnan(lo) or np.isnan(up):
                ctx.count('band_limits_missing')
                continue
            limits[(p, float(x[j]))] = (lo, up)
            if lo not in s or up not in s:
                ctx.violation('band_limits_are_sample_values',
                              'band_limit_not_a_sample:' + pname,
                              {'prob': p, 'time': x[j], 'limits': (lo, up)},
                              feats)
                return
            frac = float(np.mean((s >= lo) & (s <= up)))
            if frac < p - 1e-12:
                ctx.violation('band_encloses_requested_fraction',
                              'band_coverage:' + pname,
                              {'prob': p, 'time': x[j], 'limits': (lo, up),
                               'enclosed': frac, 'samples': np.sort(s)[:30]},
                              feats)
                return
    # nested for increasing probabilities
    for t in times:
        ps = sorted(p for (p, tt) in limits if tt == float(t))
        for a, b in zip(ps[:-1], ps[1:]):
            la, ua = limits[(a, float(t))]
            lb, ub = limits[(b, float(t))]
            if lb > la or ub < ua:
                ctx.violation('bands_nested', 'bands_not_nested:' + pname,
                              {'time': t, 'inner': (a, la, ua),
                               'outer': (b, lb, ub)}, feats)
                return
    # scatter form
    fig2 = getattr(chi.plots, pname)()
    fig2.add_prediction(df, observable='conc', bulk_probs=None)
    tr = [t for t in fig2._fig.data if t.mode == 'markers' and
          t.name == 'Predicted samples']
    sub = df[df['Observable'] == 'conc']
    if len(tr) != 1 or _pairs(tr[0].x, tr[0].y) != _pairs(
            sub['Time'], sub['Value']):
        ctx.violation('prediction_scatter', 'prediction_scatter:' + pname,
                      {}, feats)


def simulation_case(ctx, rng, idx):
    n = int(rng.integers(1, 30))
    # (frames as users assemble them: one simulation in time order, several
    # simulations concatenated so the times restart, evaluation at unordered
    # measurement times, descending times, a missing time in the middle)
    order = ['sorted', 'concatenated', 'shuffled', 'descending',
             'nan_inside'][int(rng.integers(5))]
    times = np.sort(rng.uniform(0, 9, n))
    if order == 'concatenated':
        k = int(rng.integers(0, n + 1))
        times = np.concatenate([np.sort(times[:k]), np.sort(
            rng.uniform(0, 9, n - k))])
    elif order == 'shuffled':
        times = rng.permutation(times)
    elif order == 'descending':
        times = times[::-1].copy()
    elif order == 'nan_inside' and n >= 3:
        times[int(rng.integers(1, n - 1))] = np.nan
    df = pd.DataFrame({'Time': times,
                       'Value': rng.uniform(0, 5, n),
                       'x': rng.uniform(0, 1, n)})
    if rng.random() < 0.3:
        df.index = rng.permutation(n) + 5
    keys = ('Time', 'Value')
    if idx % 2:
        df = df.rename(columns={'Time': 't', 'Value': 'x2'})
        keys = ('t', 'x2')
    ctx.case(('simulation', idx % 2, min(n, 4), order), n >= 2,
             sample={'n': n, 'order': order})
    fig = chi.plots.PDTimeSeriesPlot()
    before = digest(df)
    held = df.copy(deep=True)
    fig.add_simulation(df, time_key=keys[0], value_key=keys[1])
    ctx.count('frames_digested')
    t = fig._fig.data[-1]
    ctx.count('traces_compared')
    if digest(df) != before or not df.equals(held):
        ctx.violation('caller_frame_unchanged', 'frame_mutated:simulation',
                      {'order': order, 'n': n}, {'order': order})
    # the line visits the (time, value) pairs of the frame, in the order of
    # the rows or in chronological order
    tx = np.asarray(t.x, dtype=float)
    ty = np.asarray(t.y, dtype=float)
    hx = held[keys[0]].to_numpy()
    hy = held[keys[1]].to_numpy()
    chrono = np.argsort(hx, kind='stable')

    def same(a, b):
        return a.shape == b.shape and np.array_equal(a, b, equal_nan=True)
    in_rows = same(tx, hx) and same(ty, hy)
    in_time = same(tx, hx[chrono]) and same(ty, hy[chrono])
    if t.mode != 'lines' or not (in_rows or in_time):
        ctx.violation('simulation_trace', 'simulation_trace',
                      {'order': order, 'n': n}, {'order': order})


def residual_case(ctx, rng, idx):
    n_ids = int(rng.integers(1, 5)) if rng.random() < 0.8 else \
        int(rng.integers(9, 30))
    times = np.array([0.5, 1.0, 2.0, 4.0])[:int(rng.integers(1, 5))]
    meas = pd.DataFrame([
        {'ID': i + 1, 'Time': float(t), 'Observable': 'conc',
         'Value': float(rng.uniform(1, 5))}
        for i in range(n_ids) for t in times])
    pred = pd.DataFrame([
        {'ID': s + 1, 'Time': float(t), 'Observable': 'conc',
         'Value': float(rng.uniform(1, 5))}
        for s in range(int(rng.integers(1, 6))) for t in times])
    # a second observable in both frames, before or after the one of
    # interest (without an observable argument the first one of the
    # prediction frame is shown)
    target = 'conc'
    if rng.random() < 0.5:
        other_m = meas.assign(Observable='Another',
                              Value=rng.uniform(6, 9, len(meas)))
        other_p = pred.assign(Observable='Another',
                              Value=rng.uniform(6, 9, len(pred)))
        first = bool(rng.integers(2))
        meas = pd.concat([other_m, meas] if rng.random() < 0.5
                         else [meas, other_m], ignore_index=True)
        pred = pd.concat([other_p, pred] if first else [pred, other_p],
                         ignore_index=True)
        if first:
            target = 'Another'
    use_default_obs = rng.random() < 0.4
    one_individual = None
    if rng.random() < 0.4:
        one_individual = int(rng.integers(1, n_ids + 1))
    if rng.random() < 0.5:
        meas = meas.iloc[rng.permutation(len(meas))]
    show_res = bool(rng.integers(2))
    show_rel = bool(rng.integers(2))
    feats = {'figure': 'ResidualPlot', 'n_ids': n_ids,
             'show_residuals': show_res, 'show_relative': show_rel}
    ctx.case(('residual', min(n_ids, 3), show_res, show_rel, len(times)),
             True, sample=feats)
    b_m, b_p = digest(meas), digest(pred)
    vals_before = meas['Value'].to_numpy().copy()
    try:
        fig = chi.plots.ResidualPlot(meas)
        kw_ = {}
        if not use_default_obs:
            target = 'conc'
            kw_['observable'] = target
        if one_individual is not None:
            kw_['individual'] = one_individual
        fig.add_data(pred, show_residuals=show_res, show_relative=show_rel,
                     **kw_)
    except Exception as e:      # noqa
        ctx.violation_exc('residual_plot_raises', e, {'case': feats}, feats)
        return
    ctx.count('residual_figures')
    ctx.count('frames_digested', 2)
    if digest(meas) != b_m or digest(pred) != b_p or not np.array_equal(
            meas['Value'].to_numpy(), vals_before):
        ctx.violation('caller_frame_unchanged', 'frame_mutated:ResidualPlot',
                      {'case': feats}, feats)
        return
    feats['observable_argument'] = not use_default_obs
    feats['individual_argument'] = one_individual is not None
    means = pred[pred['Observable'] == target].groupby('Time')[
        'Value'].mean()
    traces = list(fig._fig.data)
    held_meas = meas
    meas = meas[meas['Observable'] == target]
    ids = list(meas['ID'].unique())
    if one_individual is not None:
        ids = [one_individual]
    if len(traces) != len(ids):
        ctx.violation('one_marker_trace_per_individual',
                      'trace_count:ResidualPlot',
                      {'traces': len(traces), 'ids': len(ids)}, feats)
        return
    for i, _id in enumerate(ids):
        rows = meas[meas['ID'] == _id]
        mp = np.array([means[t] for t in rows['Time']])
        y = rows['Value'].to_numpy(dtype=float)
        if show_res:
            y = y - mp
        if show_rel:
            y = y / mp
        ctx.count('traces_compared')
        if not np.allclose(np.asarray(traces[i].x, dtype=float), mp) or \
                not np.allclose(np.asarray(traces[i].y, dtype=float), y):
            ctx.violation('residual_trace', 'residual_pairs',
                          {'id': _id, 'trace_y': traces[i].y, 'expected': y},
                          feats)
            return


FAMILIES = [
    Family('data', data_case, quick=600, thorough=12000),
    Family('bands', band_case, quick=240, thorough=5000),
    Family('simulation', simulation_case, quick=40, thorough=400),
    Family('residual', residual_case, quick=120, thorough=2000),
]
