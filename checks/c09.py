"""
C09 - simulation returns the IVP solution (and its derivatives) with the i-th
vector entry assigned to the i-th published parameter name.
Oracle: harness/oracle/pk.py (matrix exponential / DOP853 on a hand-written
right-hand side) evaluated from a {published name: value} dictionary; the
library models' documented equations written out by hand.
"""
import os
import tempfile

import numpy as np
from scipy.integrate import solve_ivp

from harness.bootstrap import load_chi, VERIF
from harness.core import Family
from harness import forms as FM
from harness.oracle import pk

chi = load_chi()

PROP = 'C09'
TITLE = 'simulation = IVP solution and derivatives in published order'
RULE = (
    'programs = generated SBML models (1-3 compartments with one species '
    'each, first-order and Michaelis-Menten transfers with/without volume '
    'factor, optional rate-rule state, optional assignment-rule '
    'intermediate, identifiers drawn so that declaration and alphabetical '
    'order differ) + the 4 library models; per program: published order, a '
    'random output selection incl. intermediates, optional renaming, a '
    'random parameter vector, an increasing grid incl. t=0 and repeated '
    'times, sensitivities on the full and on a reduced model; signature = '
    '(structure code, n parameters, outputs kind, reduced?); non-trivial = '
    '>=2 states or an intermediate output or a reduced model')
ASSUMPTIONS = [
    'myokit\'s compiled CVODES core is replaced by the reference integrator '
    'of DESIGN 2.2 (LSODA rtol 1e-10); nothing is claimed about CVODES',
    'oracle: scipy expm (linear models, complex-step sensitivities) and '
    'DOP853 rtol 1e-12 (non-linear, central differences); tolerances 1e-6 '
    '(values) / 1e-5 (sensitivities)',
    'SBML import is myokit\'s; species without reactions are constants',
]
ANCHORS = [
    'chi._mechanistic_models.SBMLModel._set_number_and_names',
    'chi._mechanistic_models.SBMLModel._set_state',
    'chi._mechanistic_models.SBMLModel._set_const',
    'chi._mechanistic_models.SBMLModel.simulate',
    'chi._mechanistic_models.SBMLModel.enable_sensitivities',
    'chi._mechanistic_models.ReducedMechanisticModel.simulate',
]
REQUIRED = {'programs': 20, 'values_compared': 40,
            'sensitivity_arrays_compared': 40, 'order_checks': 20}


def _load(am, cls):
    d = os.path.join(VERIF, '.scratch')
    os.makedirs(d, exist_ok=True)
    fd, path = tempfile.mkstemp(suffix='.xml', dir=d)
    with os.fdopen(fd, 'w') as f:
        f.write(am.sbml())
    try:
        return cls(path)
    finally:
        os.remove(path)


def _times(rng):
    pool = np.array([0.0, 0.3, 0.7, 1.1, 1.6, 2.4, 3.1])
    k = int(rng.integers(1, 6))
    t = np.sort(rng.choice(pool, size=k, replace=False))
    if rng.random() < 0.4 and 0.0 not in t:
        t = np.concatenate([[0.0], t])
    if rng.random() < 0.3:
        t = np.sort(np.concatenate([t, [t[int(rng.integers(len(t)))]]]))
    return t


def generated_case(ctx, rng, idx):
    am = pk.random_model(rng)
    cls = [chi.SBMLModel, chi.PKPDModel][idx % 2]
    code = '%dc%s%s%s' % (len(am.comps), 'L' if am.is_linear() else 'N',
                          'x' if am.extra else '', 'a' if am.assign else '')
    feats = {'structure': code, 'class': cls.__name__}
    try:
        m = _load(am, cls)
    except Exception as e:      # noqa
        ctx.violation_exc('model_import', e, {'model': am.describe()}, feats)
        return
    ctx.count('programs')
    names = m.parameters()
    want = am.parameter_names()
    ctx.count('order_checks')
    if names != want or m.n_parameters() != len(want):
        ctx.violation('published_parameter_order', 'parameter_order',
                      {'chi': names, 'expected': want,
                       'model': am.describe()}, feats)
        return
    if m.outputs() != am.state_names() or m.n_outputs() != len(
            am.state_names()):
        ctx.violation('published_output_order', 'default_outputs',
                      {'chi': m.outputs(), 'expected': am.state_names()},
                      feats)
    cands = am.output_candidates()
    outs = [cands[i] for i in rng.permutation(len(cands))[
        :int(rng.integers(1, min(4, len(cands)) + 1))]]
    inter = any(o.endswith('_concentration') or
                (am.assign and o == 'global.' + am.assign['id'])
                for o in outs)
    reduced = idx % 3 == 0
    ctx.case((code, len(want), inter, reduced, cls.__name__),
             len(am.state_names()) >= 2 or inter or reduced,
             sample={'model': am.describe(), 'outputs': outs,
                     'parameters': want})
    try:
        m.set_outputs(outs)
    except Exception as e:      # noqa
        ctx.violation_exc('set_outputs_raises', e,
                          {'outputs': outs, 'model': am.describe()}, feats)
        return
    if m.outputs() != outs:
        ctx.violation('published_output_order', 'selected_outputs',
                      {'chi': m.outputs(), 'expected': outs}, feats)
    # optional renaming: positions keep their meaning
    pub = list(names)
    if rng.random() < 0.3:
        j = int(rng.integers(len(names)))
        m.set_parameter_names({names[j]: 'renamed parameter'})
        pub[j] = 'renamed parameter'
        if m.parameters() != pub:
            ctx.violation('published_parameter_order', 'rename_order',
                          {'chi': m.parameters(), 'expected': pub}, feats)
    out_pub = list(outs)
    if rng.random() < 0.3:
        m.set_output_names({outs[0]: 'renamed output'})
        out_pub[0] = 'renamed output'
        if m.outputs() != out_pub:
            ctx.violation('published_output_order', 'rename_outputs',
                          {'chi': m.outputs(), 'expected': out_pub}, feats)
    x = rng.uniform(0.3, 2.0, len(names))
    x.setflags(write=False)
    times = _times(rng)
    vals = dict(zip(names, x))          # original names, published positions
    try:
        y = np.asarray(m.simulate(x, times))
    except Exception as e:      # noqa
        ctx.violation_exc('simulate_raises', e,
                          {'model': am.describe(), 'outputs': outs,
                           'times': times}, feats)
        return
    ref = np.real(am.solve(vals, times, outs))
    ctx.count('values_compared')
    sc = np.max(np.abs(ref)) + 1e-3
    ctx.maximum('value_relerr', ctx.relerr(y, ref, scale=sc))
    if y.shape != ref.shape or not ctx.close(y, ref, rtol=1e-6, scale=sc):
        ctx.violation('solution_of_the_ivp', 'value_mismatch',
                      {'chi': y, 'reference': ref, 'outputs': outs,
                       'times': times, 'parameters': vals,
                       'model': am.describe()}, feats)
        return
    # ---- a copy taken after a simulation solves the same problem, also at
    # ---- a point that shares some values with the last one simulated
    try:
        mc = m.copy()
        x2 = np.array(x)
        chg = rng.random(len(x2)) < 0.5
        x2[chg] = rng.uniform(0.3, 2.0, int(np.sum(chg)))
        yc = np.asarray(mc.simulate(x2, times))
        refc = np.real(am.solve(dict(zip(names, x2)), times, outs))
        ctx.count('copies_after_simulation')
        if yc.shape != refc.shape or not ctx.close(
                yc, refc, rtol=1e-6, scale=np.max(np.abs(refc)) + 1e-3):
            ctx.violation('solution_of_the_ivp', 'copy_after_simulation',
                          {'chi': yc, 'reference': refc, 'outputs': outs,
                           'parameters': x2, 'previous_parameters': x,
                           'model': am.describe()}, feats)
            return
        # re-selecting the copy's current outputs in another order
        if len(outs) >= 2:
            perm = [int(i) for i in rng.permutation(len(outs))]
            if perm == sorted(perm):
                perm = perm[::-1]
            mc.set_outputs([out_pub[i] for i in perm])
            yp = np.asarray(mc.simulate(x2, times))
            ctx.count('output_permutations')
            if mc.outputs() != [out_pub[i] for i in perm] or \
                    yp.shape != refc.shape or not ctx.close(
                        yp, refc[perm], rtol=1e-6,
                        scale=np.max(np.abs(refc)) + 1e-3):
                ctx.violation('published_output_order', 'permuted_outputs',
                              {'requested': [out_pub[i] for i in perm],
                               'published': mc.outputs(), 'chi': yp,
                               'reference': refc[perm],
                               'model': am.describe()}, feats)
                return
    except Exception as e:      # noqa
        ctx.violation_exc('simulate_raises', e,
                          {'model': am.describe(), 'outputs': outs,
                           'step': 'copy / permuted outputs'}, feats)
        return
    # ---- boundary values of the parameter vector: rate constants and
    # initial amounts that are exactly zero (a closed transfer route, no
    # elimination, an empty compartment)
    xz = np.array(x)
    michaelis = set('global.' + t['km'] for t in am.trans
                    if t['kind'] == 'mm')
    zeroable = [i for i, n_ in enumerate(names) if not (
        n_.endswith('.size') or n_ in michaelis)]
    if zeroable:
        for i in rng.permutation(zeroable)[:int(rng.integers(
                1, len(zeroable) + 1))]:
            xz[i] = 0.0
        try:
            yz = np.asarray(m.simulate(xz, times))
            refz = np.real(am.solve(dict(zip(names, xz)), times, outs))
            ctx.count('zero_valued_parameter_simulations')
            scz = np.max(np.abs(refz)) + 1e-3
            if yz.shape != refz.shape or not ctx.close(
                    yz, refz, rtol=1e-6, scale=scz):
                ctx.violation('solution_of_the_ivp',
                              'value_mismatch_with_zero_parameters',
                              {'chi': yz, 'reference': refz,
                               'parameters': dict(zip(names, xz)),
                               'model': am.describe()}, feats)
                return
        except Exception as e:      # noqa
            ctx.violation_exc('simulate_raises', e,
                              {'model': am.describe(), 'parameters': xz},
                              feats)
            return
    # ---- the same call with the numbers in another container / dtype
    form = FM.pick(rng)
    xf, tf = np.array(x), times
    if form in ('int64', 'int32', 'pyint'):
        xf = FM.intify(x)
        tf = np.unique(np.round(times * 2))
    xv, tv = FM.variant(xf, form), FM.variant(tf, form)
    if xv is not None and tv is not None:
        try:
            yv = np.asarray(m.simulate(xv, tv))
        except Exception as e:      # noqa
            ctx.violation_exc('simulate_raises', e,
                              {'model': am.describe(), 'outputs': outs,
                               'times': tf, 'input_form': form},
                              dict(feats, input_form=form))
            return
        refv = np.real(am.solve(dict(zip(names, xf)), tf, outs))
        ctx.count('input_forms_compared')
        scv = np.max(np.abs(refv)) + 1e-3
        if yv.shape != refv.shape or not ctx.close(yv, refv, rtol=1e-6,
                                                   scale=scv):
            ctx.violation('solution_of_the_ivp', 'input_form:' + form,
                          {'chi': yv, 'reference': refv, 'outputs': outs,
                           'times': tf, 'parameters': xf,
                           'model': am.describe()},
                          dict(feats, input_form=form))
            return
    # ---- sensitivities (full model)
    obj = m
    free = np.ones(len(names), dtype=bool)
    if reduced:
        obj = chi.ReducedMechanisticModel(m)
        k = int(rng.integers(1, len(names)))
        fi = rng.permutation(len(names))[:k]
        cur = obj.parameters()
        # the net fixed set is reached in one call or over several, before
        # and / or after the sensitivities are switched on (a parameter may
        # be fixed in between and released again)
        how = ['fix_then_enable', 'enable_then_fix', 'enable_fix_fix',
               'fix_enable_fix', 'enable_fix_swap', 'fix_then_enable',
               'fix_then_enable', 'select_then_fix',
               'select_then_fix'][int(rng.integers(9))]
        feats['fix_history'] = how
        ka = int(rng.integers(0, k + 1)) if how in (
            'enable_fix_fix', 'fix_enable_fix') else k
        part_a = {cur[i]: float(x[i]) for i in fi[:ka]}
        part_b = {cur[i]: float(x[i]) for i in fi[ka:]}
        others = [i for i in range(len(names)) if i not in set(fi)]
        select_first = None
        if how == 'select_then_fix':
            # a selection that contains parameters fixed afterwards: the
            # sensitivities are those of the selected parameters that stay
            # free
            k_sel = int(rng.integers(1, len(cur) + 1))
            select_first = [cur[i] for i in rng.permutation(len(cur))[:k_sel]]
            if not any(cur[i] in select_first for i in fi):
                select_first.append(cur[int(fi[0])])
            if all(n_ in [cur[i] for i in fi] for n_ in select_first):
                select_first = None
                how = 'enable_then_fix'
                feats['fix_history'] = how
                obj.enable_sensitivities(True)
            else:
                obj.enable_sensitivities(True, select_first)
        if how.startswith('enable'):
            obj.enable_sensitivities(True)
        if how == 'enable_fix_swap' and others:
            # another parameter is fixed first and exchanged for the final
            # ones in the next call
            j = others[int(rng.integers(len(others)))]
            obj.fix_parameters({cur[j]: float(x[j]) * 1.3})
            part_a[cur[j]] = None
        if part_a or not part_b:
            obj.fix_parameters(part_a)
        if how == 'fix_enable_fix':
            obj.enable_sensitivities(True)
        if part_b:
            obj.fix_parameters(part_b)
        free[fi] = False
        if obj.parameters() != [p for p, f in zip(pub, free) if f]:
            ctx.violation('published_parameter_order', 'reduced_order',
                          {'chi': obj.parameters()}, feats)
    subset = None
    if reduced and locals().get('select_first'):
        subset = list(select_first)
    try:
        if not obj.has_sensitivities():
            if rng.random() < (0.7 if reduced else 0.4) and \
                    int(np.sum(free)) >= 2:
                # sensitivities for a selection of the (free) parameters,
                # named in any order: columns in published order
                cand = list(obj.parameters())   # the free ones
                k_s = int(rng.integers(1, len(cand)))
                subset = [cand[i] for i in rng.permutation(len(cand))[:k_s]]
                feats['sensitivity_selection'] = True
                if rng.random() < 0.5:
                    # (another selection of the same size came first)
                    obj.enable_sensitivities(True, [cand[i] for i in
                                                    rng.permutation(
                                                        len(cand))[:k_s]])
                obj.enable_sensitivities(True, subset)
            else:
                if rng.random() < 0.4 and len(obj.parameters()) >= 2:
                    # an earlier selection (one parameter, then another of
                    # the same size) is replaced by the later requests
                    pn_ = list(obj.parameters())
                    obj.enable_sensitivities(True, [pn_[int(
                        rng.integers(len(pn_)))]])
                    obj.enable_sensitivities(True, [pn_[int(
                        rng.integers(len(pn_)))]])
                    feats['earlier_selections'] = True
                obj.enable_sensitivities(True)
        y2, s = obj.simulate(x[free], times)
    except Exception as e:      # noqa
        ctx.violation_exc('simulate_raises', e,
                          {'model': am.describe(), 'with_sens': True,
                           'fixed': (~free).tolist()}, feats)
        return
    free_names = [n for n, f in zip(names, free) if f]
    if subset is not None:
        # (published names may differ from the abstract model's names only
        # by position: map through the published list)
        pub_free = [n for n, f in zip(pub, free) if f]
        free_names = [fn for fn, pn in zip(free_names, pub_free)
                      if pn in subset]
    sref, tol = am.sensitivities(vals, times, outs, free_names)
    ctx.count('sensitivity_arrays_compared')
    s = np.asarray(s)
    ss = np.max(np.abs(sref)) + 1e-3
    if s.shape != sref.shape:
        ctx.violation('sensitivity_shape', 'sensitivity_shape',
                      {'shape': s.shape, 'expected': sref.shape,
                       'fixed': (~free).tolist()}, feats)
        return
    ctx.maximum('sensitivity_relerr', ctx.relerr(s, sref, scale=ss))
    if not ctx.close(s, sref, rtol=max(tol * 10, 1e-6), scale=ss):
        k = int(np.argmax(np.max(np.abs(s - sref), axis=(0, 1))))
        ctx.violation('derivatives_in_parameter_order',
                      'sensitivity_mismatch',
                      {'worst_parameter': free_names[k],
                       'chi': s[:, :, k], 'reference': sref[:, :, k],
                       'free': free_names, 'model': am.describe()}, feats)
    if not ctx.close(np.asarray(y2), ref, rtol=1e-6, scale=sc):
        ctx.violation('solution_of_the_ivp', 'value_mismatch_with_sens',
                      {'chi': y2, 'reference': ref}, feats)
    # ---- no time points: empty arrays of the documented shapes
    try:
        y0_, s0_ = obj.simulate(x[free], [])
        ctx.count('empty_time_vectors')
        if np.shape(y0_) != (len(outs), 0) or np.shape(s0_) != (
                0, len(outs), len(free_names)):
            ctx.violation('sensitivity_shape', 'empty_times_shape',
                          {'outputs': np.shape(y0_),
                           'sensitivities': np.shape(s0_),
                           'expected': [(len(outs), 0),
                                        (0, len(outs), len(free_names))]},
                          feats)
    except Exception as e:      # noqa
        ctx.violation_exc('simulate_raises', e,
                          {'model': am.describe(), 'call': 'no time points'},
                          feats)
        return
    # ---- later calls on the same object: the same arguments give the same
    # outputs and derivatives again, also after a call with other arguments
    # (the first call was compared with the reference above)
    try:
        ya, sa = obj.simulate(x[free], times)
        obj.simulate(x[free] * 1.07, times[:max(1, len(times) // 2)])
        yb, sb = obj.simulate(x[free], times)
    except Exception as e:      # noqa
        ctx.violation_exc('simulate_raises', e,
                          {'model': am.describe(), 'call': 'repeated'}, feats)
        return
    ctx.count('repeated_sensitivity_calls')
    for tag, yy, s_ in (('second call', ya, sa),
                        ('after a call with other arguments', yb, sb)):
        if not (ctx.close(np.asarray(yy), np.asarray(y2), rtol=1e-9,
                          scale=sc) and
                ctx.close(np.asarray(s_), s, rtol=1e-7, scale=ss)):
            k = int(np.argmax(np.max(np.abs(np.asarray(s_) - s),
                                     axis=(0, 1))))
            ctx.violation('derivatives_in_parameter_order',
                          'sensitivities_depend_on_earlier_calls',
                          {'which': tag, 'worst_parameter': free_names[k],
                           'first call': s[:, :, k],
                           'this call': np.asarray(s_)[:, :, k],
                           'model': am.describe()}, feats)
            break


# ------------------------------------------------------------ library
def _lib_rhs(which, v):
    if which == 'one_compartment_pk_model':
        names = ['central.drug_amount']

        def f(t, y):
            return [-v['global.elimination_rate'] * y[0]]

        def out(o, Y):
            return {'central.drug_amount': Y[0],
                    'central.drug_concentration':
                        Y[0] / v['central.size']}[o]
    elif which == 'erlotinib_tumour_growth_inhibition_model':
        names = ['central.drug_amount', 'global.tumour_volume']

        def f(t, y):
            a, vt = y
            c = a / v['central.size']
            lam, vc = v['global.lambda'], v['global.critical_volume']
            return [-v['global.elimination_rate'] * a,
                    lam * vt / (vt / vc + 1) - v['global.kappa'] * c * vt]

        def out(o, Y):
            return {'central.drug_amount': Y[0],
                    'global.tumour_volume': Y[1],
                    'central.drug_concentration':
                        Y[0] / v['central.size']}[o]
    elif which == 'tumour_growth_inhibition_model_koch':
        names = ['global.tumour_volume']

        def f(t, y):
            vt = y[0]
            l0, l1 = v['global.lambda_0'], v['global.lambda_1']
            return [2 * l0 * l1 * vt / (2 * l0 * vt + l1)
                    - v['global.kappa'] * v['global.drug_concentration']
                    * vt]

        def out(o, Y):
            return {'global.tumour_volume': Y[0]}[o]
    else:
        names = ['global.tumour_volume']

        def f(t, y):
            vt = y[0]
            lam, vc = v['global.lambda'], v['global.critical_volume']
            return [lam * vt / (vt / vc + 1)
                    - v['global.kappa'] * v['global.drug_concentration']
                    * vt]

        def out(o, Y):
            return {'global.tumour_volume': Y[0]}[o]
    return names, f, out


LIB = ['one_compartment_pk_model', 'erlotinib_tumour_growth_inhibition_model',
       'tumour_growth_inhibition_model_koch',
       'tumour_growth_inhibition_model_koch_reparametrised']
LIB_PARAMS = {
    LIB[0]: ['central.drug_amount', 'central.size',
             'global.elimination_rate'],
    LIB[1]: ['central.drug_amount', 'global.tumour_volume', 'central.size',
             'global.critical_volume', 'global.elimination_rate',
             'global.kappa', 'global.lambda'],
    LIB[2]: ['global.tumour_volume', 'global.drug_concentration',
             'global.kappa', 'global.lambda_0', 'global.lambda_1'],
    LIB[3]: ['global.tumour_volume', 'global.critical_volume',
             'global.drug_concentration', 'global.kappa', 'global.lambda'],
}


def _lib_solve(which, vals, times, outs):
    names, f, out = _lib_rhs(which, vals)
    y0 = [vals[n] for n in names]
    te = np.unique(times)
    sol = solve_ivp(f, (0.0, float(times[-1]) + 1e-9), y0, method='DOP853',
                    rtol=1e-12, atol=1e-14, t_eval=te)
    look = {t: sol.y[:, i] for i, t in enumerate(te)}
    Y = np.array([look[t] for t in times]).T
    return np.array([out(o, Y) for o in outs])


def library_case(ctx, rng, idx):
    from chi.library import ModelLibrary
    which = LIB[idx % 4]
    m = getattr(ModelLibrary(), which)()
    feats = {'library_model': which}
    names = m.parameters()
    ctx.count('programs')
    ctx.count('order_checks')
    ctx.case(('library', which, idx // 4 % 6), True,
             sample={'model': which, 'parameters': names})
    if names != LIB_PARAMS[which]:
        ctx.violation('published_parameter_order', 'library_order',
                      {'chi': names, 'expected': LIB_PARAMS[which]}, feats)
        return
    outs = m.outputs()
    if which in LIB[:2] and rng.random() < 0.6:
        pool = ['central.drug_amount', 'central.drug_concentration'] + (
            ['global.tumour_volume'] if which == LIB[1] else [])
        outs = [pool[i] for i in rng.permutation(len(pool))[
            :int(rng.integers(1, len(pool) + 1))]]
        m.set_outputs(outs)
    x = rng.uniform(0.3, 2.0, len(names))
    times = _times(rng)
    vals = dict(zip(names, x))
    y = np.asarray(m.simulate(x, times))
    ref = _lib_solve(which, vals, times, outs)
    ctx.count('values_compared')
    sc = np.max(np.abs(ref)) + 1e-3
    ctx.maximum('value_relerr_library', ctx.relerr(y, ref, scale=sc))
    if y.shape != ref.shape or not ctx.close(y, ref, rtol=1e-6, scale=sc):
        ctx.violation('library_model_obeys_documented_equations',
                      'library_value_mismatch:' + which,
                      {'chi': y, 'reference': ref, 'parameters': vals,
                       'times': times, 'outputs': outs}, feats)
        return
    m.enable_sensitivities(True)
    y2, s = m.simulate(x, times)
    sref = np.empty((len(times), len(outs), len(names)))
    for k, nm in enumerate(names):
        h = 1e-5 * max(abs(vals[nm]), 0.1)
        vp, vm = dict(vals), dict(vals)
        vp[nm] += h
        vm[nm] -= h
        sref[:, :, k] = ((_lib_solve(which, vp, times, outs)
                          - _lib_solve(which, vm, times, outs)) / (2 * h)).T
    ctx.count('sensitivity_arrays_compared')
    ss = np.max(np.abs(sref)) + 1e-3
    ctx.maximum('sensitivity_relerr_library', ctx.relerr(s, sref, scale=ss))
    if np.asarray(s).shape != sref.shape or not ctx.close(
            s, sref, rtol=1e-4, scale=ss):
        ctx.violation('derivatives_in_parameter_order',
                      'library_sensitivity_mismatch:' + which,
                      {'chi': s, 'reference': sref}, feats)
        return
    # the same call again, and once more after a call with other arguments
    ya, sa = m.simulate(x, times)
    m.simulate(x * 1.07, times[:max(1, len(times) // 2)])
    yb, sb = m.simulate(x, times)
    ctx.count('repeated_sensitivity_calls')
    for tag, s_ in (('second call', sa),
                    ('after a call with other arguments', sb)):
        if not ctx.close(np.asarray(s_), np.asarray(s), rtol=1e-7, scale=ss):
            ctx.violation('derivatives_in_parameter_order',
                          'sensitivities_depend_on_earlier_calls',
                          {'which': tag, 'first call': s, 'this call': s_},
                          feats)
            break


FAMILIES = [
    Family('generated', generated_case, quick=96, thorough=1500),
    Family('library', library_case, quick=32, thorough=400),
]
