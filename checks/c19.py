"""
C19 - evaluations are pure: no hidden state, no input mutation, same result
in any interleaving and in forked workers; objects built from user models
are unaffected by later changes to those models.
Monitors: the first result of every (object, call, argument) triple is the
oracle for all later repeats in a random interleaving; arguments are
write-protected; frames are digested; np.empty is poisoned on random calls;
pints.ParallelEvaluator (fork) versus pints.SequentialEvaluator.
"""
import copy
import numpy as np
import pandas as pd
import pints

from harness.bootstrap import load_chi
from harness.core import Family
from harness import gen_hier as GH
from harness import gen_loglik as GL
from harness import gen_pop as GP
from harness import poison
from harness import toys
from harness.oracle import densities as D
from checks import c12

chi = load_chi()
poison.install()

PROP = 'C19'
TITLE = 'evaluations are pure: no hidden state, no input mutation'
RULE = (
    'families of sibling objects built from one user mechanistic model and '
    'user error models (toy or dosed library PK model): several individual '
    'log-likelihoods (some with fixed parameters), a hierarchical '
    'log-likelihood / posterior over them, a predictive model, a population '
    'model, a problem controller and its posteriors, copies; random '
    'interleavings of 20-120 value / pointwise / S1 / seeded-sampling / '
    'simulate calls with user-model mutations (outputs, regimen, route, '
    'renaming, error-model renaming) injected between calls and np.empty '
    'poisoned on random calls; exhaustive family: all interleavings of 4 '
    'calls over 3 objects x 3 call kinds; parallel family: fork evaluation '
    'after different pre-fork histories; signature = (family, model, '
    'mutation kinds, call-kind sequence hash); non-trivial = every history')
ASSUMPTIONS = [
    'exact equality is required between repeats of the same call (the '
    'reference integrator is deterministic)',
    'gradients returned together with a non-finite score are not compared '
    '(chi documents no value for them)',
    'reference integrator behind myokit.Simulation for the SBML family',
    "a result that is a view of the caller's own argument (pooled models) is not held: it changes when the caller overwrites its argument",
]
ANCHORS = [
    'chi._log_pdfs.LogLikelihood.__call__',
    'chi._log_pdfs.LogLikelihood.evaluateS1',
    'chi._log_pdfs.HierarchicalLogLikelihood.evaluateS1',
    'chi._mechanistic_models.SBMLModel.simulate',
    'chi._mechanistic_models.PKPDModel.copy',
    'chi._error_models.ReducedErrorModel.compute_log_likelihood',
    'chi._population_models.ReducedPopulationModel.compute_log_likelihood',
]
REQUIRED = {'calls_made': 5000, 'repeats_compared': 2000,
            'user_model_mutations': 100, 'poisoned_calls': 500,
            'parallel_comparisons': 8, 'protected_arguments': 5000,
            'work_vector_calls': 500, 'held_results_rechecked': 5000}

TIMES = np.array([0.4, 1.0, 1.9, 2.6])


def _ro(a):
    a = np.array(a, dtype=float)
    a.setflags(write=False)
    return a


class ArgumentModified(Exception):
    pass


def _guarded(fn, first, *arrays, **kwargs):
    """calls fn(first, *arrays, **kwargs) with WRITABLE copies of the other
    array arguments (what a caller's own float64 buffers are) and reports a
    callee that wrote into one of them"""
    mine = [np.array(a) if isinstance(a, np.ndarray) else a for a in arrays]
    kmine = dict((k, np.array(v) if isinstance(v, np.ndarray) else v)
                 for k, v in kwargs.items())
    res = fn(first, *mine, **kmine)
    for pos, (a, b) in enumerate(zip(arrays, mine)):
        if isinstance(a, np.ndarray) and not np.array_equal(
                a, b, equal_nan=True):
            raise ArgumentModified('positional argument %d of %s' % (
                pos + 1, getattr(fn, '__name__', fn)))
    for k, v in kwargs.items():
        if isinstance(v, np.ndarray) and not np.array_equal(
                v, kmine[k], equal_nan=True):
            raise ArgumentModified('argument %s of %s' % (
                k, getattr(fn, '__name__', fn)))
    # (results that are views of the writable copies stay valid: the copies
    # are not touched again)
    return res


def _freeze(result):
    """hashable / comparable snapshot of a result"""
    if isinstance(result, tuple):
        return tuple(_freeze(r) for r in result)
    if isinstance(result, pd.DataFrame):
        return ('df', tuple(result.columns),
                tuple(np.asarray(result['Value'], dtype=float).tolist()))
    if isinstance(result, (list, np.ndarray)):
        return np.array(result, dtype=float)
    return result


def _equal(a, b):
    if isinstance(a, tuple) and isinstance(b, tuple):
        if len(a) != len(b):
            return False
        # ((score, gradient) pairs are compared entry by entry also where
        # the score is -inf: what a rejected point returns is a result like
        # any other, gradient-based samplers read it)
        return all(_equal(x, y) for x, y in zip(a, b))
    if isinstance(a, np.ndarray) or isinstance(b, np.ndarray):
        a, b = np.asarray(a), np.asarray(b)
        return a.shape == b.shape and np.array_equal(a, b, equal_nan=True)
    if isinstance(a, float) and isinstance(b, float):
        return a == b or (a != a and b != b)
    return a == b


class World(object):
    """one user model family and the evaluation entry points"""

    def __init__(self, rng, sbml, reduced_user_model=False,
                 reduced_user_em=False):
        self.sbml = sbml
        self.reduced_user_model = reduced_user_model
        self.entries = []        # (object name, call name, fn, args list)
        # entry index -> results of the same calls, each on a freshly built
        # object that was never evaluated before
        self.fresh = {}
        if sbml:
            from chi.library import ModelLibrary
            um = ModelLibrary().one_compartment_pk_model()
            um.set_administration('central', direct=bool(rng.integers(2)))
            um.set_dosing_regimen(2.0, start=0.2, duration=0.3, period=1.0,
                                  num=2)
            um.set_outputs(['central.drug_concentration'])
            n_out = 1
        else:
            n_out = int(rng.integers(1, 3))
            um = toys.ToyMulti(n_out)
        self.fixed_name = None
        if reduced_user_model:
            # the user's own model is already a reduced model: every object
            # built from it copies a model that carries a fixed-value buffer
            um = chi.ReducedMechanisticModel(um)
            names = um.parameters()
            self.fixed_name = names[int(rng.integers(len(names)))]
            self.fixed_value = float(rng.uniform(0.5, 1.5))
            um.fix_parameters({self.fixed_name: self.fixed_value})
        self.user_model = um
        self.n_out = n_out
        ems = sorted(D.ERROR_MODELS)
        self.em_names = [ems[int(rng.integers(4))] for _ in range(n_out)]
        self.user_ems = [getattr(chi, e)() for e in self.em_names]
        # one of the user's error models may be a reduced model whose last
        # parameter is fixed (e.g. a known assay noise): the object carries
        # configuration that enters the density
        self.reduced_em = None
        if reduced_user_em:
            o_ = int(rng.integers(n_out))
            rem = chi.ReducedErrorModel(self.user_ems[o_])
            self.reduced_em = (o_, rem.get_parameter_names()[-1])
            rem.fix_parameters({self.reduced_em[1]: float(
                rng.uniform(0.15, 0.4))})
            self.user_ems[o_] = rem
        n_mech = um.n_parameters()
        if sbml:
            mech = rng.uniform(0.5, 1.5, n_mech)
        else:
            mech = toys.toy_multi_params(rng, n_out)
            if reduced_user_model:
                full = um.mechanistic_model().parameters()
                mech = np.delete(mech, full.index(self.fixed_name))
        err = np.concatenate([rng.uniform(0.15, 0.4, em_.n_parameters())
                              for em_ in self.user_ems])
        self.x_ind = np.concatenate([mech, err])
        n_ind = len(self.x_ind)
        # ---- individual likelihoods (siblings)
        self.lls = []
        n_ids = int(rng.integers(2, 4))
        for i in range(n_ids):
            times = [np.sort(rng.choice(TIMES, size=int(rng.integers(1, 5)),
                                        replace=False))
                     for _ in range(n_out)]
            obs = [rng.uniform(0.5, 3, size=len(t)) for t in times]
            # (the outputs of a dosed model may be named again when the
            # likelihood is created: the optional outputs argument)
            okw = {'outputs': list(um.outputs())} if (
                sbml and i % 2 == 1) else {}
            ll = chi.LogLikelihood(um, self.user_ems, obs, times, **okw)
            self.lls.append(ll)
        pts = [_ro(self.x_ind * np.exp(0.05 * rng.normal(size=n_ind)))
               for _ in range(3)]
        for i, ll in enumerate(self.lls):
            self._add('ll%d' % i, ll, pts, s1=True, pointwise=True)
        # one sibling with fixed parameters (separate object)
        llf = chi.LogLikelihood(um, self.user_ems,
                                [rng.uniform(0.5, 3, size=2)] * n_out,
                                [TIMES[:2]] * n_out,
                                **({'outputs': list(um.outputs())}
                                   if sbml else {}))
        names = llf.get_parameter_names()
        fix_i = int(rng.integers(len(names)))
        llf.fix_parameters({names[fix_i]: float(self.x_ind[fix_i])})
        ptsf = [_ro(np.delete(p, fix_i)) for p in pts]
        self._add('ll_fixed', llf, ptsf, s1=True, pointwise=True)
        if reduced_user_model and n_mech >= 2:
            # a sibling whose fixed set differs: releases the user's fixed
            # parameter and fixes another one instead
            lld = chi.LogLikelihood(um, self.user_ems,
                                    [rng.uniform(0.5, 3, size=2)] * n_out,
                                    [TIMES[1:3]] * n_out)
            free_names = um.parameters()
            other = free_names[int(rng.integers(len(free_names)))]
            lld.fix_parameters({self.fixed_name: None,
                                other: float(rng.uniform(0.5, 1.5))})
            self._add('ll_other_fixed_set', lld,
                      [_ro(p[:lld.n_parameters()]) for p in pts],
                      s1=True, pointwise=True)
        # ---- hierarchical over the first likelihoods
        leaves = GP.random_composition(rng, n_ids, total_dim=n_ind,
                                       p_cov=0.0)
        pop = GP.build_chi(leaves, n_ids)
        self.pop_leaves = leaves
        self.user_pop = pop
        hl = chi.HierarchicalLogLikelihood(self.lls, pop)
        h, xv, _ = GP.hierarchy_vector(rng, leaves, n_ids)
        # bottom entries near the individual point
        hpts = [_ro(xv), _ro(xv * np.exp(0.02 * rng.normal(size=len(xv))))]
        # a rejected point (negative population parameters: scales outside
        # the support) is answered the same way every time, too
        xr = np.array(xv)
        xr[h.n_bottom:] = -np.abs(xr[h.n_bottom:])
        hpts_r = hpts + [_ro(xr)]
        self._add('hier', hl, hpts_r, s1=True)
        prior = pints.ComposedLogPrior(*[
            pints.GaussianLogPrior(0.4, 2.0) for _ in range(h.n_top)])
        self._add('hier_post', chi.HierarchicalLogPosterior(hl, prior), hpts,
                  s1=True)
        # ---- a second hierarchical likelihood over the *same* individual
        # likelihoods with a reduced population model
        names_top = pop.get_parameter_names()
        if len(set(names_top)) == len(names_top) and h.n_top > 1:
            rpop = chi.ReducedPopulationModel(GP.build_chi(leaves, n_ids))
            j = int(rng.integers(h.n_top))
            rpop.fix_parameters({names_top[j]: float(xv[h.n_bottom + j])})
            hl2 = chi.HierarchicalLogLikelihood(self.lls, rpop)
            self._add('hier_reduced', hl2,
                      [_ro(np.delete(p, h.n_bottom + j)) for p in hpts],
                      s1=True)
        # seeded initial points (seed 0 is a seed)
        hpost = chi.HierarchicalLogPosterior(hl, pints.ComposedLogPrior(*[
            pints.LogNormalLogPrior(-1.0, 0.3) for _ in range(h.n_top)]))
        self.entries.append(
            ('hier_post', 'initial_points',
             lambda a, q=hpost: q.sample_initial_parameters(
                 n_samples=2, seed=int(a[0])),
             [_ro([0]), _ro([int(rng.integers(1, 1000))])]))
        # ---- stand-alone population models (bare, composed, reduced with
        # a fixed entry), each called with several parameter vectors
        for j in range(2):
            n2 = int(rng.integers(1, 4))
            with_cov = rng.random() < 0.4
            lv = GP.random_composition(
                rng, n2, max_parts=3 if with_cov else 2, max_dim=2,
                kinds='GLTPH' if with_cov else 'GLTP',
                p_cov=0.5 if with_cov else 0.0, cov_kinds='GLTPH')
            pmod = GP.build_chi(lv, n2)
            tp = np.concatenate([GP.leaf_top(rng, l, n2) for l in lv])
            nm = pmod.get_parameter_names()
            n_cov2 = pmod.n_covariates()
            if rng.random() < 0.6 and len(set(nm)) == len(nm) and len(nm) > 1:
                pmod = chi.ReducedPopulationModel(pmod)
                jf = int(rng.integers(len(nm)))
                pmod.fix_parameters({nm[jf]: float(tp[jf])})
                tp = np.delete(tp, jf)
            tps = [_ro(tp), _ro(tp * 1.07), _ro(tp * 0.9)]
            # (a rejected point for the scoring calls)
            tps_r = tps + [_ro(-np.abs(tp))]
            eta = _ro(rng.uniform(0.2, 0.9, size=(n2, pmod.n_dim())))
            kw = {}
            kw3 = {}
            if n_cov2:
                kw = {'covariates': _ro(rng.uniform(-1, 1, (n2, n_cov2)))}
                kw3 = {'covariates': _ro(rng.uniform(-1, 1, (3, n_cov2)))}
            sd = [0, int(rng.integers(1, 1000))][int(rng.integers(2))]
            nme = 'popmodel%d' % j
            self.entries.append(
                (nme, 'psi', lambda a, m=pmod, e=eta, kw=kw:
                 _guarded(m.compute_individual_parameters, a, e, **kw), tps))
            # (the documented matrix of inter-individual fluctuations, owned
            # and reused by the caller)
            self.entries.append(
                (nme, 'psi_eta', lambda a, m=pmod, e=eta, kw=kw:
                 _guarded(m.compute_individual_parameters, a, e,
                          return_eta=True, **kw), tps))
            self.entries.append(
                (nme, 'sample', lambda a, m=pmod, sd=sd, kw3=kw3:
                 _guarded(m.sample, a, n_samples=3, seed=sd, **kw3), tps))
            self.entries.append(
                (nme, 'll', lambda a, m=pmod, e=eta, kw=kw:
                 _guarded(m.compute_log_likelihood, a, e, **kw), tps_r))
            self.entries.append(
                (nme, 'S1', lambda a, m=pmod, e=eta, kw=kw:
                 _guarded(m.compute_sensitivities, a, e, reduce=True, **kw),
                 tps_r))
            self.entries.append(
                (nme, 'S1_upstream', lambda a, m=pmod, e=eta, kw=kw:
                 _guarded(m.compute_sensitivities, a, e,
                          dlogp_dpsi=np.array(e) * 0.3, reduce=True, **kw),
                 tps_r))
        # ---- population model on its own (shared with hl!)
        top = _ro(xv[h.n_bottom:])
        seed = [0, int(rng.integers(1, 1000))][int(rng.integers(2))]
        self.entries.append(('pop', 'sample',
                             lambda a, pop=pop: pop.sample(a, n_samples=3,
                                                           seed=seed),
                             [top]))
        # ---- predictive model
        pm = chi.PredictiveModel(um, self.user_ems)
        self.entries.append(
            ('predictive', 'sample',
             lambda a, pm=pm: pm.sample(a, TIMES[::-1], n_samples=2,
                                        seed=seed, return_df=False), pts))
        self.entries.append(
            ('predictive', 'sample_table',
             lambda a, pm=pm: pm.sample(a, TIMES, n_samples=2, seed=seed),
             pts[:1]))
        # ---- posterior predictive model: one object serves several
        # individuals (the argument is the position of the individual)
        from checks import c15
        ids_pp = ['ind a', 'ind b', 'ind c']
        ds_pp = c15._posterior_dataset(rng, pm.get_parameter_names(), 2, 5,
                                       ids_pp)
        ppm = chi.PosteriorPredictiveModel(pm, ds_pp)
        self.entries.append(
            ('posterior_predictive', 'sample',
             lambda a, m_=ppm: m_.sample(
                 TIMES, n_samples=3, individual=ids_pp[int(a[0])],
                 seed=seed)['Value'].to_numpy(dtype=float),
             [_ro(np.array([0.0])), _ro(np.array([1.0])),
              _ro(np.array([2.0]))]))
        self.fresh[len(self.entries) - 1] = [
            _freeze(chi.PosteriorPredictiveModel(pm, ds_pp).sample(
                TIMES, n_samples=3, individual=i_, seed=seed)[
                    'Value'].to_numpy(dtype=float)) for i_ in ids_pp]
        # ---- the user's own model (and a copy)
        mp = [_ro(mech), _ro(mech * 1.1)]
        self.entries.append(('user_model_copy', 'simulate',
                             lambda a, m=um.copy(): m.simulate(a, TIMES),
                             mp))
        # ---- error models
        for o, em in enumerate(self.user_ems):
            ybar = _ro(rng.uniform(1, 3, 3))
            y = _ro(rng.uniform(1, 3, 3))
            npar = em.n_parameters()
            p = _ro(rng.uniform(0.2, 0.5, npar))
            emc = copy.deepcopy(em)
            self.entries.append(
                ('error_model%d' % o, 'll',
                 lambda a, em=emc, yb=ybar, y=y:
                 em.compute_log_likelihood(a, yb, y), [p]))
            self.entries.append(
                ('error_model%d' % o, 'sample',
                 lambda a, em=emc, yb=ybar: em.sample(a, yb, n_samples=2,
                                                      seed=seed), [p]))
        # ---- controller
        rows = []
        out_names = um.outputs()
        for i in range(2):
            for o in range(n_out):
                for t in TIMES[:3]:
                    rows.append({'ID': i + 1, 'Time': float(t),
                                 'Observable': out_names[o],
                                 'Value': float(rng.uniform(0.5, 3)),
                                 'Dose': np.nan, 'Duration': np.nan})
            rows.append({'ID': i + 1, 'Time': 0.1 * (i + 1),
                         'Observable': np.nan, 'Value': np.nan,
                         'Dose': 1.0 + i, 'Duration': 0.2})
        self.frame = pd.DataFrame(rows)
        self.frame_digest = self._digest(self.frame)
        # (the controller takes plain error models only)
        ctrl = chi.ProblemModellingController(um, [
            getattr(chi, e)() for e in self.em_names]
            if self.reduced_em is not None else self.user_ems)
        if self.reduced_em is not None:
            # the same parameter fixed through the controller
            o_ = self.reduced_em[0]
            pos = n_mech + sum(D.ERROR_MODELS[e][0]
                               for e in self.em_names[:o_ + 1]) - 1
            ctrl.fix_parameters({ctrl.get_parameter_names()[pos]: 0.3})
        ctrl.set_data(self.frame)
        ctrl.set_log_prior(pints.ComposedLogPrior(*[
            pints.LogNormalLogPrior(0.0, 1.0) for _ in range(n_ind)]))
        self.ctrl = ctrl
        cp = ctrl.get_log_posterior()
        self._add('controller_post', cp, pts, s1=True)
        self.entries.append(
            ('controller', 'fresh_posterior',
             lambda a, c=ctrl: c.get_log_posterior()(a), pts[:2]))
        self.names_snapshot = {
            'll0': self.lls[0].get_parameter_names(),
            'hier': hl.get_parameter_names(),
            'predictive': pm.get_parameter_names(),
            'controller': ctrl.get_parameter_names()}
        self.named = {'ll0': self.lls[0], 'hier': hl, 'predictive': pm,
                      'controller': ctrl}

    @staticmethod
    def _digest(df):
        return (tuple(df.columns), tuple(str(t) for t in df.dtypes),
                pd.util.hash_pandas_object(df, index=True).sum())

    def _add(self, name, obj, pts, s1=False, pointwise=False):
        self.entries.append((name, 'value', lambda a, o=obj: o(a), pts))
        if s1:
            self.entries.append(
                (name, 'S1', lambda a, o=obj: o.evaluateS1(a), pts))
        if pointwise:
            self.entries.append(
                (name, 'pointwise',
                 lambda a, o=obj: o.compute_pointwise_ll(a), pts))

    # ------------------------------------------------------- mutations
    def mutate_user_models(self, rng):
        """later changes to the user's models"""
        kind = ['outputs', 'regimen', 'route', 'rename_params',
                'rename_error', 'sensitivities', 'refix_user_model',
                'refix_user_model', 'sibling_hierarchical',
                'sibling_hierarchical'][int(rng.integers(10))]
        um = self.user_model
        if kind == 'sibling_hierarchical':
            # the user builds another hierarchical likelihood for a smaller
            # group from the same population-model object
            try:
                chi.HierarchicalLogLikelihood(self.lls[:-1], self.user_pop)
            except Exception:       # noqa
                return None
            return kind
        if self.reduced_user_model and kind in ('route', 'rename_params'):
            kind = 'refix_user_model'
        try:
            if kind == 'refix_user_model' and self.reduced_em is not None \
                    and (not self.reduced_user_model or rng.random() < 0.5):
                # the user re-uses their reduced error model with another
                # fixed value (for the next individual, say)
                o_, name_ = self.reduced_em
                self.user_ems[o_].fix_parameters({name_: float(
                    rng.uniform(0.5, 0.9))})
                return 'refix_user_error_model'
            if kind == 'refix_user_model':
                if not self.reduced_user_model:
                    return None
                um.fix_parameters({self.fixed_name: float(
                    rng.uniform(2.0, 3.0))})
                return kind
            if kind == 'outputs' and self.sbml:
                um.set_outputs(['central.drug_amount',
                                'central.drug_concentration'])
            elif kind == 'regimen' and self.sbml:
                um.set_dosing_regimen(float(rng.uniform(5, 9)), start=0.0,
                                      duration=0.1)
            elif kind == 'route' and self.sbml:
                um.set_administration('central',
                                      direct=bool(rng.integers(2)))
            elif kind == 'rename_params' and self.sbml:
                nm = um.parameters()
                um.set_parameter_names({nm[0]: 'mutated %d' % int(
                    rng.integers(10 ** 6))})
            elif kind == 'rename_error':
                em = self.user_ems[int(rng.integers(len(self.user_ems)))]
                em.set_parameter_names(
                    ['mutated %d' % i for i in range(em.n_parameters())])
            elif kind == 'sensitivities':
                um.enable_sensitivities(bool(rng.integers(2)))
            else:
                return None
        except Exception:       # noqa
            return None
        return kind


def run_history(ctx, rng, world, n_calls, feats, schedule=None):
    first = {}
    kinds = []
    mutations = []
    work = {}      # caller-owned work vectors, overwritten in place
    held = []      # (raw result kept by the caller, snapshot, step, label)
    for step in range(n_calls):
        if schedule is not None:
            ei, ai = schedule[step]
        else:
            ei = int(rng.integers(len(world.entries)))
            ai = None
        name, call, fn, args = world.entries[ei]
        if ai is None:
            ai = int(rng.integers(len(args)))
        arg = args[ai % len(args)]
        # a caller may keep ONE work vector and overwrite it in place
        # between evaluations (line searches, finite differences, samplers)
        if rng.random() < 0.35:
            w = work.get(len(arg))
            if w is None:
                w = np.empty(len(arg))
                work[len(arg)] = w
            w[:] = arg
            arg = w
            ctx.count('work_vector_calls')
        before = arg.copy()
        poisoned = rng.random() < 0.3
        poison.set_on(poisoned)
        try:
            res = fn(arg)
        except Exception as e:      # noqa
            poison.set_on(False)
            if isinstance(e, ArgumentModified):
                ctx.violation('argument_unchanged',
                              'argument_modified:%s.%s' % (
                                  name.rstrip('0123456789'), call),
                              {'which': str(e)}, feats)
                return
            ctx.violation_exc('evaluation_raises', e,
                              {'object': name, 'call': call,
                               'poisoned': poisoned, 'history': kinds[-6:],
                               'mutations': mutations}, feats)
            return
        poison.set_on(False)
        ctx.count('calls_made')
        ctx.count('protected_arguments')
        if poisoned:
            ctx.count('poisoned_calls')
        kinds.append('%s.%s' % (name, call))
        if not np.array_equal(arg, before):
            ctx.violation('argument_unchanged', 'argument_modified:%s.%s' % (
                name.rstrip('0123456789'), call), {}, feats)
            return
        snap = _freeze(res)
        # results the caller still holds (batch evaluation of several chains
        # keeps every gradient until the batch is done) were not rewritten
        for raw, snap0, step0, label0 in held:
            ctx.count('held_results_rechecked')
            if not _equal(_freeze(raw), snap0):
                ctx.violation(
                    'returned_result_not_rewritten_by_later_calls',
                    'held_result_rewritten:' + label0,
                    {'returned_at_step': step0, 'as': snap0,
                     'now': _freeze(raw), 'rewritten_by': kinds[-1],
                     'step': step}, feats)
                return
        parts = res if isinstance(res, tuple) else (res,)
        aliases_input = any(
            isinstance(r, np.ndarray) and np.shares_memory(r, arg)
            for r in parts)
        if aliases_input:
            # a result that is a view of the caller's own array changes when
            # the caller overwrites that array: not held
            ctx.count('results_that_are_views_of_the_argument')
        elif isinstance(res, (tuple, np.ndarray)):
            held.append((res, snap, step, '%s.%s' % (
                name.rstrip('0123456789'), call)))
            if len(held) > 6:
                held.pop(0)
        if ei in world.fresh:
            ctx.count('compared_with_fresh_object')
            want = world.fresh[ei][ai % len(args)]
            if not _equal(want, snap):
                ctx.violation(
                    'repeat_returns_same_result',
                    'differs_from_fresh_object:%s.%s' % (
                        name.rstrip('0123456789'), call),
                    {'fresh object': want, 'this object': snap,
                     'step': step, 'calls_before': kinds[:-1][-10:]}, feats)
                return
        key = (ei, ai % len(args))
        if key in first:
            ctx.count('repeats_compared')
            if not _equal(first[key][0], snap):
                ctx.violation(
                    'repeat_returns_same_result',
                    'result_changed:%s.%s' % (name.rstrip('0123456789'),
                                              call),
                    {'first': first[key][0], 'now': snap,
                     'first_step': first[key][1], 'step': step,
                     'first_poisoned': first[key][2], 'poisoned': poisoned,
                     'calls_between': kinds[first[key][1] + 1:step][-10:],
                     'mutations': mutations}, feats)
                return
        else:
            first[key] = (snap, step, poisoned)
        # occasionally the user changes their own models
        if schedule is None and rng.random() < 0.08:
            k = world.mutate_user_models(rng)
            if k:
                mutations.append((step, k))
                ctx.count('user_model_mutations')
    # published names of the siblings did not follow the user's renames
    for key, obj in world.named.items():
        now = obj.get_parameter_names()
        if now != world.names_snapshot[key]:
            ctx.violation('unaffected_by_later_changes_to_user_models',
                          'names_changed:' + key,
                          {'before': world.names_snapshot[key], 'now': now,
                           'mutations': mutations}, feats)
            return
    if World._digest(world.frame) != world.frame_digest:
        ctx.violation('caller_frame_unchanged', 'frame_modified',
                      {}, feats)
    feats['mutations'] = [k for _, k in mutations]


def history_case(ctx, rng, idx):
    sbml = idx % 3 == 0
    reduced_um = idx % 4 == 1
    reduced_em = bool(rng.random() < 0.35)
    feats = {'family': 'history', 'sbml': sbml,
             'reduced_user_model': reduced_um,
             'reduced_user_error_model': reduced_em}
    try:
        world = World(rng, sbml, reduced_user_model=reduced_um,
                      reduced_user_em=reduced_em)
    except Exception as e:      # noqa
        ctx.violation_exc('setup_raises', e, {}, feats)
        return
    n = int(rng.integers(20, 60 if sbml else 121))
    feats['population'] = [GP.leaf_code(l) for l in world.pop_leaves]
    ctx.case(('history', sbml, reduced_um, n // 20, idx), True,
             sample=dict(feats, n_calls=n, entry_points=sorted(set(
                 '%s.%s' % (e[0], e[1]) for e in world.entries))))
    run_history(ctx, rng, world, n, feats)


def exhaustive_case(ctx, rng, idx):
    """all sequences of 4 calls over 3 objects x 3 call kinds"""
    feats = {'family': 'exhaustive'}
    world = World(rng, sbml=False)
    # 9 entries: value / S1 / pointwise of ll0, ll1, ll_fixed
    sel = [i for i, e in enumerate(world.entries)
           if e[0] in ('ll0', 'll1', 'll_fixed')]
    assert len(sel) == 9
    code = idx % (9 ** 4)
    seq = []
    for _ in range(4):
        seq.append(sel[code % 9])
        code //= 9
    schedule = [(e, 0) for e in seq] + [(e, 0) for e in seq]
    ctx.case(('exhaustive', tuple(seq)), True,
             sample={'sequence': ['%s.%s' % (world.entries[e][0],
                                             world.entries[e][1])
                                  for e in seq]})
    run_history(ctx, rng, world, len(schedule), feats, schedule=schedule)


def parallel_case(ctx, rng, idx):
    sbml = idx % 2 == 0
    feats = {'family': 'parallel', 'sbml': sbml}
    world = World(rng, sbml)
    name = ['controller_post', 'hier_post', 'll0'][idx // 2 % 3]
    ent = [e for e in world.entries if e[0] == name and e[1] == 'value'][0]
    obj_fn, pts = ent[2], ent[3]
    obj = obj_fn.__defaults__[0]
    n_workers = int(rng.integers(2, 5))
    ctx.case(('parallel', sbml, name, n_workers), True,
             sample=dict(feats, object=name, workers=n_workers))
    # pre-fork history: sensitivities on / other evaluations
    pre = ['none', 's1', 'value_s1_value'][idx % 3]
    try:
        if pre != 'none':
            obj.evaluateS1(pts[0])
        if pre == 'value_s1_value':
            obj(pts[1])
            obj.evaluateS1(pts[1])
        positions = [np.array(p) for p in pts] * 2
        seq = pints.SequentialEvaluator(obj).evaluate(positions)
        par = pints.ParallelEvaluator(
            obj, n_workers=n_workers).evaluate(positions)
        seq2 = pints.SequentialEvaluator(obj).evaluate(positions)
    except Exception as e:      # noqa
        ctx.violation_exc('parallel_evaluation_raises', e,
                          {'object': name, 'pre': pre}, feats)
        return
    ctx.count('parallel_comparisons')
    if not (np.array_equal(seq, par, equal_nan=True) and
            np.array_equal(seq, seq2, equal_nan=True)):
        ctx.violation('sequential_equals_parallel', 'parallel_mismatch:' +
                      name, {'sequential': seq, 'parallel': par,
                             'sequential_after': seq2, 'pre': pre}, feats)


FAMILIES = [
    Family('history', history_case, quick=200, thorough=4000),
    Family('exhaustive', exhaustive_case, quick=400, thorough=6561),
    Family('parallel', parallel_case, quick=16, thorough=120),
]
