"""
C05 - population models: documented densities, additive composition, layout
invariance, exact sensitivities in all three return forms.
Oracle: reference densities / transforms (harness/oracle/hierarchy.py) and
complex-step differentiation of F = log p + <c, psi>.
"""
import numpy as np

from harness.bootstrap import load_chi
from harness.core import Family
from harness import forms as FM
from harness import gen_pop as GP
from harness.oracle.hierarchy import Hierarchy
from harness.oracle import densities as D

chi = load_chi()

PROP = 'C05'
TITLE = 'population models: densities, additivity, layouts, sensitivities'
RULE = (
    'leaf families: each of {Gaussian, LogNormal} x {centred, non-centred}, '
    'TruncatedGaussian, Pooled, Heterogeneous with n_dim 1-4, 1-7 distinct '
    'individuals, every documented parameter layout (flat, (p,d) matrix, '
    '(n,p,d) tensor broadcast and individual-specific), 1-D observations for '
    'n_dim=1, with/without upstream sensitivities, all three return forms; '
    'composed family: 1-4 parts incl. covariate parts and a reduced wrapper; '
    'signature = (class code, n_dim, n_ids, layout, upstream, form); '
    'non-trivial = n_ids >= 2 or n_dim >= 2 or non-flat layout')
ASSUMPTIONS = [
    'documented densities: Gaussian, log-normal, Gaussian truncated at 0, '
    'point mass for pooled/heterogeneous, standard normal for non-centred',
    'observations of pooled / heterogeneous models equal the parameters '
    '(otherwise the point mass is -inf, tested separately)',
    'population models document np.ndarray inputs: input forms are array forms only',
    'composed models are evaluated in the flat layout except in the composed_layout family (open finding KF-C05-composed-matrix-layout)',
]
ANCHORS = [
    'chi._population_models.%s.%s' % (c, m)
    for c in ('GaussianModel', 'LogNormalModel', 'TruncatedGaussianModel',
              'PooledModel', 'HeterogeneousModel')
    for m in ('compute_log_likelihood', 'compute_sensitivities',
              'compute_individual_parameters')
] + ['chi._population_models.ComposedPopulationModel._compute_sensitivities',
     'chi._population_models.ComposedPopulationModel._compute_reduced_sensitivities',
     'chi._population_models.ReducedPopulationModel.compute_sensitivities']
REQUIRED = {'value_compared': 200, 'layout_pairs_compared': 200,
            'gradient_forms_compared': 200, 'psi_compared': 100,
            'layout_matrix': 30, 'layout_tensor': 30,
            'pointmass_cases': 100}

KINDS = [('G', True), ('G', False), ('L', True), ('L', False), ('T', True),
         ('P', True), ('H', True)]
LAYOUTS = ['flat', 'matrix', 'tensor', 'tensor_individual']


def _layout(theta_flat, leaf, n_ids, layout, rng):
    """returns (array handed to chi, tensor th (n,p,d) the reference uses)"""
    npd = GP.n_per_dim(leaf, n_ids)
    mat = theta_flat.reshape(npd, leaf.n_dim)
    th = np.broadcast_to(mat[None], (n_ids, npd, leaf.n_dim)).copy()
    if layout == 'flat':
        return theta_flat.copy(), th
    if layout == 'matrix':
        return mat.copy(), th
    if layout == 'tensor':
        return th.copy(), th
    # individual-specific tensor (what covariate models hand over)
    th = th * (1 + 0.1 * rng.uniform(-1, 1, size=th.shape))
    return th.copy(), th


def _obs(rng, leaf, th, n_ids):
    """bottom-level 'observations' with finite density"""
    if leaf.kind == 'P':
        return th[:, 0, :].copy()
    if leaf.kind == 'H':
        return np.array([th[i, i, :] for i in range(n_ids)])
    return GP.leaf_bottom(rng, leaf, n_ids)


def _F(leaf, n_ids, c):
    """complex-safe F(obs, th) = log p + <c, psi>  and per-individual terms"""
    def terms(obs, th):
        out = []
        for i in range(n_ids):
            lp = leaf.logp(th[i:i + 1], obs[i:i + 1]) \
                if leaf.kind in 'GLT' else 0.0
            psi = _psi(leaf, th, obs, n_ids)[i]
            out.append(lp + np.sum(c[i] * psi))
        return out
    return terms


def _psi(leaf, th, obs, n_ids):
    if leaf.kind == 'P':
        return th[:, 0, :]
    if leaf.kind == 'H':
        return np.array([th[i, i, :] for i in range(n_ids)])
    return leaf.psi(th, obs, n_ids)


def leaf_case(ctx, rng, idx):
    kind, centered = KINDS[idx % len(KINDS)]
    layout = LAYOUTS[(idx // len(KINDS)) % len(LAYOUTS)]
    n_dim = int(rng.integers(1, 5))
    n_ids = int(rng.integers(1, 8))
    leaf = GP.make_leaf(kind, n_dim, centered, 0, None, n_ids)
    code = GP.leaf_code(leaf)
    upstream = bool(rng.integers(2))
    obs1d = n_dim == 1 and rng.random() < 0.3
    model = GP.build_chi_leaf(leaf, n_ids)
    model.set_n_ids(n_ids)
    theta = GP.leaf_top(rng, leaf, n_ids)
    tail = kind == 'T' and (idx // (len(KINDS) * len(LAYOUTS))) % 3 == 1
    if tail:
        # truncation far in the upper tail of the untruncated Gaussian
        # (mean 4-14 scales below 0): any real mean is in the support
        theta[:n_dim] = -theta[n_dim:] * rng.uniform(4, 14, size=n_dim)
    arr, th = _layout(theta, leaf, n_ids, layout, rng)
    obs = _obs(rng, leaf, th, n_ids)
    c = rng.normal(size=(n_ids, n_dim)) if upstream else \
        np.zeros((n_ids, n_dim))
    feats = {'class': code, 'kind': kind, 'n_dim': n_dim, 'n_ids': n_ids,
             'layout': layout, 'upstream': upstream, 'obs1d': obs1d,
             'tail_regime': tail}
    ctx.case((code, n_dim, min(n_ids, 3), layout, upstream, obs1d, tail),
             n_ids >= 2 or n_dim >= 2 or layout != 'flat',
             sample=dict(feats, parameters=arr, observations=obs))
    ctx.count('layout_' + layout.split('_')[0])
    obs_in = obs[:, 0].copy() if obs1d else obs.copy()
    arr.setflags(write=False)
    obs_in.setflags(write=False)

    # ---------------- value
    ref = float(np.real(
        leaf.logp(th, obs) if kind in 'GLT' else 0.0))
    try:
        val = model.compute_log_likelihood(arr, obs_in)
    except Exception as e:      # noqa
        ctx.violation_exc('evaluation_raises', e, {'case': feats}, feats)
        return
    ctx.count('value_compared')
    sc = abs(ref) + 1
    ctx.maximum('value_relerr', ctx.relerr(val, ref, scale=sc))
    if not ctx.close(val, ref, rtol=1e-10, scale=sc):
        ctx.violation('value_vs_documented_density',
                      'value_mismatch:%s:%s' % (code.rstrip('0123456789'),
                                                layout),
                      {'chi': val, 'reference': ref, 'parameters': arr,
                       'observations': obs}, feats)
    # ---------------- caller-owned buffers overwritten in place between
    # evaluations (parameters and individual parameters)
    if kind in 'GLT' and layout == 'flat' and not obs1d:
        wp = np.array(arr, dtype=float)
        wo = np.array(obs, dtype=float)
        try:
            model.compute_log_likelihood(wp, wo)
            for rep in range(2):
                theta2 = theta * (1 + 0.03 * rng.random(len(theta)))
                arr2, th2 = _layout(theta2, leaf, n_ids, 'flat', rng)
                wp[:] = arr2
                wo *= 1 + 0.02 * rng.random(wo.shape)
                ref2 = float(np.real(leaf.logp(th2, wo)))
                v2 = model.compute_log_likelihood(wp, wo)
                s2 = model.compute_sensitivities(wp, wo)[0]
                ctx.count('reused_buffer_evaluations')
                if not (ctx.close(v2, ref2, rtol=1e-10, scale=abs(ref2) + 1)
                        and ctx.close(s2, ref2, rtol=1e-10,
                                      scale=abs(ref2) + 1)):
                    ctx.violation('value_vs_documented_density',
                                  'reused_buffers:' + code.rstrip(
                                      '0123456789'),
                                  {'chi': v2, 's1': s2, 'reference': ref2,
                                   'evaluation': rep + 2}, feats)
                    break
        except Exception as e:      # noqa
            ctx.violation_exc('evaluation_raises', e,
                              {'case': feats, 'call': 'reused buffers'},
                              feats)
    # ---------------- layout invariance (same numbers, other layouts)
    if layout in ('matrix', 'tensor'):
        try:
            v_flat = model.compute_log_likelihood(theta.copy(), obs_in)
            ctx.count('layout_pairs_compared')
            if not ctx.close(val, v_flat, rtol=1e-12, scale=sc):
                ctx.violation('layout_invariance',
                              'layout_value_differs:%s:%s' % (
                                  code.rstrip('0123456789'), layout),
                              {'flat': v_flat, layout: val}, feats)
        except Exception as e:      # noqa
            ctx.violation_exc('evaluation_raises', e, {'case': feats}, feats)

    # ---------------- individual parameters
    try:
        eta_in = obs.copy()
        if rng.random() < 0.5 and kind in 'GLT':
            eta_in = obs.flatten()
        psi = model.compute_individual_parameters(arr, eta_in)
        psi = np.asarray(psi, dtype=float)
        psi_ref = np.real(_psi(leaf, th.astype(complex), obs, n_ids))
        ctx.count('psi_compared')
        if psi.shape != (n_ids, n_dim) or not ctx.close(
                psi, psi_ref, rtol=1e-12):
            ctx.violation('individual_parameter_transform',
                          'psi_mismatch:%s:%s' % (
                              code.rstrip('0123456789'), layout),
                          {'chi': psi, 'reference': psi_ref}, feats)
        if kind in 'GLT':
            eta_back = np.asarray(model.compute_individual_parameters(
                arr, eta_in, return_eta=True), dtype=float)
            if eta_back.shape != (n_ids, n_dim) or not np.array_equal(
                    eta_back, obs):
                ctx.violation('individual_parameter_transform',
                              'return_eta_mismatch:' + code, {}, feats)
    except Exception as e:      # noqa
        ctx.violation_exc('evaluation_raises', e,
                          {'case': feats, 'call': 'individual_parameters'},
                          feats)

    # ---------------- the flat eta layout needs no configured number of
    # individuals (these models are defined for any number of rows), and a
    # reduced model whose fixed parameters form whole rows takes the rest
    # in the matrix layout in every method
    if kind in 'GLT' and not tail:
        try:
            fresh = GP.build_chi_leaf(leaf, 1)
            psi_f = np.asarray(fresh.compute_individual_parameters(
                arr, obs.flatten()), dtype=float)
            ctx.count('flat_eta_without_set_n_ids')
            if psi_f.shape != (n_ids, n_dim) or not ctx.close(
                    psi_f, np.real(_psi(leaf, th.astype(complex), obs,
                                        n_ids)), rtol=1e-12):
                ctx.violation('individual_parameter_transform',
                              'psi_mismatch_flat_eta_unconfigured:' +
                              code.rstrip('0123456789'),
                              {'chi': psi_f}, feats)
            red = chi.ReducedPopulationModel(GP.build_chi_leaf(leaf, 1))
            nm = red.get_parameter_names()
            red.fix_parameters({nm[n_dim + j]: float(theta[n_dim + j])
                                for j in range(n_dim)})
            if layout != 'flat':
                raise StopIteration     # shared parameters only
            mat = theta[:n_dim].reshape(1, n_dim).copy()
            v_m = red.compute_log_likelihood(mat, obs.copy())
            psi_m = np.asarray(red.compute_individual_parameters(
                mat, obs.copy()), dtype=float)
            ctx.count('reduced_matrix_layout_calls')
            if not ctx.close(v_m, ref, rtol=1e-10, scale=sc) or \
                    not ctx.close(psi_m, np.real(_psi(
                        leaf, th.astype(complex), obs, n_ids)), rtol=1e-12):
                ctx.violation('layout_invariance',
                              'reduced_matrix_layout:' +
                              code.rstrip('0123456789'),
                              {'value': v_m, 'reference': ref}, feats)
        except StopIteration:
            pass
        except Exception as e:      # noqa
            ctx.violation_exc('evaluation_raises', e,
                              {'case': feats,
                               'call': 'flat eta / reduced matrix layout'},
                              feats)
    # ---------------- sensitivities, three forms
    terms = _F(leaf, n_ids, c)

    def f_obs(z):
        return sum(terms(z, th.astype(complex)))
    g_obs = D.cstep_grad(f_obs, obs) if kind in 'GLT' else c.copy()
    # per-individual derivative w.r.t. its own tensor slice
    g_th = np.zeros(th.shape)
    if kind in 'GLT':
        for i in range(n_ids):
            def f_i(z, i=i):
                t2 = th.astype(complex)
                t2[i] = z
                return terms(obs, t2)[i]
            g_th[i] = D.cstep_grad(f_i, th[i])
    dl = c.copy() if upstream else None
    if dl is not None:
        dl.setflags(write=False)
    forms = [('separate', dict(reduce=False, flattened=False)),
             ('flattened', dict(reduce=False, flattened=True)),
             ('reduced', dict(reduce=True))]
    if kind in 'GLT':
        # (reduce is documented to take priority over flattened)
        forms += [('reduced', dict(reduce=True, flattened=False)),
                  ('reduced', dict(reduce=True, flattened=True))]
    for fname, kw in forms:
        try:
            out = model.compute_sensitivities(arr, obs_in, dlogp_dpsi=dl,
                                              **kw)
        except Exception as e:      # noqa
            ctx.violation_exc('evaluation_raises', e,
                              {'case': feats, 'form': fname}, feats)
            continue
        ctx.count('gradient_forms_compared')
        score = out[0]
        if not ctx.close(score, val, rtol=1e-10, scale=sc):
            ctx.violation('s1_score_equals_value',
                          's1_score:%s:%s' % (code.rstrip('0123456789'),
                                              layout),
                          {'s1': score, 'value': val, 'form': fname}, feats)
        gs = 1.0 + float(np.max(np.abs(g_obs))) + float(np.max(np.abs(g_th)))
        if fname == 'reduced':
            got = np.asarray(out[1], dtype=float)
            if kind in 'GLT':
                want = np.concatenate([g_obs.ravel(),
                                       g_th.sum(axis=0).ravel()])
            elif kind == 'P':
                want = c.sum(axis=0)
            else:
                want = c.ravel()
            n_b, n_t = model.n_hierarchical_parameters(n_ids)
            if got.shape != (n_b + n_t,):
                ctx.violation('gradient_length',
                              'reduced_length:' + code.rstrip('0123456789'),
                              {'shape': got.shape,
                               'n_hierarchical_parameters': (n_b, n_t)},
                              feats)
                continue
        else:
            dpsi = np.asarray(out[1], dtype=float)
            dth = np.asarray(out[2], dtype=float)
            if dpsi.shape != (n_ids, n_dim):
                ctx.violation('gradient_length', 'dpsi_shape:' + code,
                              {'shape': dpsi.shape}, feats)
                continue
            if fname == 'separate':
                want_th = g_th
            else:
                want_th = g_th.sum(axis=0).ravel()
                if dth.shape != (model.n_parameters(),):
                    ctx.violation('gradient_length',
                                  'flattened_length:' +
                                  code.rstrip('0123456789'),
                                  {'shape': dth.shape,
                                   'n_parameters': model.n_parameters()},
                                  feats)
                    continue
            if dth.shape != want_th.shape:
                ctx.violation('gradient_length',
                              'dtheta_shape:%s:%s' % (
                                  code.rstrip('0123456789'), fname),
                              {'shape': dth.shape,
                               'expected': want_th.shape}, feats)
                continue
            got = np.concatenate([dpsi.ravel(), dth.ravel()])
            want = np.concatenate([g_obs.ravel(), want_th.ravel()])
        ctx.maximum('gradient_relerr', ctx.relerr(got, want, scale=gs))
        if not ctx.close(got, want, rtol=1e-8, scale=gs):
            ctx.violation('gradient_vs_complex_step',
                          'gradient_mismatch:%s:%s:%s' % (
                              code.rstrip('0123456789'), layout, fname),
                          {'chi': got, 'reference': want, 'form': fname,
                           'parameters': arr, 'observations': obs}, feats)


def composed_case(ctx, rng, idx):
    n_ids = int(rng.integers(1, 6))
    leaves = GP.random_composition(rng, n_ids, max_parts=4, max_dim=3,
                                   p_cov=0.3, cov_kinds='GLTPH')
    force = len(leaves) == 1 and rng.random() < 0.5
    reduced = rng.random() < 0.35
    upstream = bool(rng.integers(2))
    h = Hierarchy(leaves, n_ids)
    codes = [GP.leaf_code(l) for l in leaves]
    feats = {'leaves': codes, 'n_ids': n_ids, 'reduced': reduced,
             'upstream': upstream, 'composed': len(leaves) > 1 or force}
    ctx.case(('+'.join(codes), min(n_ids, 3), reduced, upstream, force),
             True, sample=feats)
    # models without heterogeneous parts are documented to ignore the
    # configured number of individuals: some are evaluated for another
    # number of rows than they were configured for
    n_conf = n_ids
    if rng.random() < 0.3 and not any(l.kind == 'H' for l in leaves):
        n_conf = int(rng.integers(1, 6))
    feats['n_ids_configured'] = n_conf
    _, x, cov = GP.hierarchy_vector(rng, leaves, n_ids)
    bottom, top = x[:h.n_bottom], x[h.n_bottom:]
    free = np.ones(len(top), dtype=bool)
    # a sub-model may itself be a reduced model with some or ALL of its
    # population parameters fixed (a distribution known from the literature)
    sub_fixed = len(leaves) > 1 and not reduced and rng.random() < 0.25
    feats['sub_model_with_fixed_parameters'] = sub_fixed
    try:
        if sub_fixed:
            models = [GP.build_chi_leaf(l, n_conf) for l in leaves]
            j = int(rng.integers(len(leaves)))
            off = sum(l.n_top(n_ids) for l in leaves[:j])
            nt = leaves[j].n_top(n_ids)
            sub_names = models[j].get_parameter_names()
            pick = np.arange(nt) if rng.random() < 0.5 else \
                rng.permutation(nt)[:int(rng.integers(1, nt + 1))]
            feats['sub_model_all_fixed'] = len(pick) == nt
            if len(set(sub_names)) == len(sub_names) == nt:
                red_sub = chi.ReducedPopulationModel(models[j])
                red_sub.fix_parameters({
                    sub_names[i]: float(top[off + i]) for i in pick})
                models[j] = red_sub
                free[off + np.asarray(pick)] = False
            model = chi.ComposedPopulationModel(models)
            model.set_n_ids(n_conf)
        else:
            model = GP.build_chi(leaves, n_conf, force_composed=force)
    except Exception as e:      # noqa
        ctx.violation_exc('construction_raises', e, {'case': feats}, feats)
        return
    names = model.get_parameter_names()
    if reduced:
        model = chi.ReducedPopulationModel(model)
        k = int(rng.integers(0, len(top) // 2 + 1))
        fi = rng.permutation(len(top))[:k]
        if len(set(names)) == len(names) and len(fi):
            model.fix_parameters({names[i]: float(top[i]) for i in fi})
            free[fi] = False
            if any(l.kind == 'H' for l in leaves) and rng.random() < 0.5 \
                    and n_conf == n_ids:
                # the model is resized for another number of individuals
                # and back (as a second data set would do): the parameters
                # stay fixed by name at their values
                feats['resized_and_back'] = True
                try:
                    model.compute_log_likelihood(
                        top[free], np.ones((n_ids, h.n_dim)),
                        **({'covariates': cov} if h.n_cov else {}))
                except Exception:   # noqa
                    pass
                model.set_n_ids(n_ids + 1)
                model.set_n_ids(n_ids)
    c = rng.normal(size=(n_ids, h.n_dim)) if upstream else \
        np.zeros((n_ids, h.n_dim))
    kw = {'covariates': cov} if h.n_cov else {}

    def split_eta(z_bottom):
        """(n, n_dim) array with dummies in the special dimensions"""
        eta = np.zeros((n_ids, h.n_dim), dtype=complex)
        zb = np.asarray(z_bottom).reshape(n_ids, h.n_hdim) \
            if h.n_hdim else None
        ib = idim = 0
        for l in leaves:
            if l.n_hdim():
                eta[:, idim:idim + l.n_dim] = zb[:, ib:ib + l.n_dim]
                ib += l.n_dim
            idim += l.n_dim
        return eta

    def F(z):
        zz = np.array(x, dtype=complex)
        m = np.concatenate([np.ones(h.n_bottom, dtype=bool), free])
        zz[m] = z
        s, psi = h.pop_score(zz, cov)
        return s + np.sum(c * psi)
    zfree = np.concatenate([bottom, top[free]])
    g_ref = D.cstep_grad(F, zfree)
    val_ref = float(np.real(h.pop_score(x, cov)[0]))

    # what chi gets as observations: psi for special dims (point mass),
    # eta / psi as in the vector for the others
    _, psi_full = h.split(x, cov)
    eta_full = np.real(split_eta(bottom))
    obs = eta_full.copy()
    idim = 0
    for l in leaves:
        if not l.n_hdim():
            obs[:, idim:idim + l.n_dim] = np.real(
                psi_full[:, idim:idim + l.n_dim])
        idim += l.n_dim
    top_free = top[free]
    try:
        val = model.compute_log_likelihood(top_free, obs, **kw)
        psi = model.compute_individual_parameters(top_free, obs, **kw)
        s_red, g_red = model.compute_sensitivities(
            top_free, obs, dlogp_dpsi=c if upstream else None, reduce=True,
            **kw)
        s_sep, dpsi, dth = model.compute_sensitivities(
            top_free, obs, dlogp_dpsi=c if upstream else None, **kw)
    except Exception as e:      # noqa
        ctx.violation_exc('evaluation_raises', e, {'case': feats}, feats)
        return
    sc = abs(val_ref) + 1
    ctx.count('value_compared')
    ctx.count('composed_cases')
    if not ctx.close(val, val_ref, rtol=1e-10, scale=sc):
        ctx.violation('composed_value_is_sum_of_parts',
                      'composed_value_mismatch',
                      {'chi': val, 'reference': val_ref, 'case': feats},
                      feats)
    ctx.count('psi_compared')
    if not ctx.close(np.asarray(psi, dtype=float), np.real(psi_full),
                     rtol=1e-12):
        ctx.violation('individual_parameter_transform',
                      'composed_psi_mismatch',
                      {'chi': psi, 'reference': np.real(psi_full),
                       'case': feats}, feats)
    for s in (s_red, s_sep):
        if not ctx.close(s, val, rtol=1e-10, scale=sc):
            ctx.violation('s1_score_equals_value', 'composed_s1_score',
                          {'s1': s, 'value': val, 'case': feats}, feats)
    ctx.count('gradient_forms_compared', 2)
    g_red = np.asarray(g_red, dtype=float)
    n_b, n_t = model.n_hierarchical_parameters(n_ids)
    gs = 1.0 + float(np.max(np.abs(g_ref))) if g_ref.size else 1.0
    if g_red.shape != (n_b + n_t,) or g_red.shape != g_ref.shape:
        ctx.violation('gradient_length', 'composed_reduced_length',
                      {'shape': g_red.shape, 'reported': (n_b, n_t),
                       'expected': g_ref.shape, 'case': feats}, feats)
    elif not ctx.close(g_red, g_ref, rtol=1e-8, scale=gs):
        ctx.violation('gradient_vs_complex_step',
                      'composed_reduced_gradient_mismatch',
                      {'chi': g_red, 'reference': g_ref, 'case': feats},
                      feats)
    # separate form: population part must agree with the reduced one for
    # parts with bottom-level parameters; length = n_parameters
    dth = np.asarray(dth, dtype=float)
    if dth.shape != (model.n_parameters(),):
        ctx.violation('gradient_length', 'composed_flattened_length',
                      {'shape': dth.shape,
                       'n_parameters': model.n_parameters(), 'case': feats},
                      feats)
        return
    # regular parts: d/dtheta entries coincide between the forms
    reg = []
    it = 0
    for l in leaves:
        nt = l.n_top(n_ids)
        reg += [bool(l.n_hdim())] * nt
        it += nt
    reg = np.array(reg)[free]
    if not ctx.close(dth[reg], g_ref[h.n_bottom:][reg], rtol=1e-8, scale=gs):
        ctx.violation('gradient_forms_agree',
                      'composed_separate_vs_reduced',
                      {'separate': dth, 'reduced_reference':
                       g_ref[h.n_bottom:], 'case': feats}, feats)
        return
    # parts without bottom-level parameters (pooled, heterogeneous, also
    # under covariate models): the sensitivities w.r.t. their individual
    # parameters, folded back through psi_i = vartheta_i, plus those w.r.t.
    # their population parameters add up to the reduced form - nothing is
    # lost and nothing is counted twice
    if np.any(~reg):
        special = []
        idim = 0
        for l in leaves:
            special += [not l.n_hdim()] * l.n_dim
            idim += l.n_dim
        special = np.array(special)
        dpsi_ = np.asarray(dpsi, dtype=float).reshape(n_ids, h.n_dim)

        def fold(zt):
            zz = np.array(x, dtype=complex)
            m = np.concatenate([np.zeros(h.n_bottom, dtype=bool), free])
            zz[m] = zt
            _, psi_ = h.pop_score(zz, cov)
            return np.sum(dpsi_[:, special] * psi_[:, special])
        total = dth + D.cstep_grad(fold, top_free)
        ctx.count('separate_form_parts_added')
        if not ctx.close(total[~reg], g_ref[h.n_bottom:][~reg], rtol=1e-8,
                         scale=gs):
            ctx.violation('gradient_forms_agree',
                          'composed_separate_parts_do_not_add_up',
                          {'dtheta': dth, 'dpsi': dpsi_,
                           'parts_added': total,
                           'reduced_reference': g_ref[h.n_bottom:],
                           'case': feats}, feats)


def support_case(ctx, rng, idx):
    kind, centered = KINDS[idx % 5]
    n_dim = int(rng.integers(1, 4))
    n_ids = int(rng.integers(1, 5))
    leaf = GP.make_leaf(kind, n_dim, centered, 0, None, n_ids)
    model = GP.build_chi_leaf(leaf, n_ids)
    model.set_n_ids(n_ids)
    theta = GP.leaf_top(rng, leaf, n_ids)
    obs = GP.leaf_bottom(rng, leaf, n_ids)
    what = ['negative_scale', 'negative_obs'][idx // 5 % 2]
    if what == 'negative_obs' and (kind == 'G' or not centered):
        what = 'negative_scale'
    if what == 'negative_scale' and not centered:
        # the density of eta does not depend on sigma; chi may still refuse
        pass
    if what == 'negative_scale':
        if idx // 10 % 3 == 2:
            # every scale negative at once (an even number of signs cancels
            # in a product)
            theta[n_dim:2 * n_dim] *= -1
            what = 'all_scales_negative'
        else:
            theta[n_dim + int(rng.integers(n_dim))] *= -1
    else:
        # (psi < 0; the boundary psi = 0 itself is not generated: the
        # repository's tests pin a finite score there for the truncated
        # Gaussian, the documentation says density 0 - a measure-zero set)
        obs[int(rng.integers(n_ids)), int(rng.integers(n_dim))] *= -1
    feats = {'class': GP.leaf_code(leaf), 'what': what}
    ctx.case(('support', GP.leaf_code(leaf), what), True, sample=dict(
        feats, parameters=theta, observations=obs))
    ctx.count('support_cases')
    try:
        val = model.compute_log_likelihood(theta, obs)
        out = model.compute_sensitivities(theta, obs, reduce=True)
    except Exception as e:      # noqa
        ctx.violation_exc('evaluation_raises', e, {'case': feats}, feats)
        return
    if centered or kind == 'T':
        if val != -np.inf or out[0] != -np.inf:
            ctx.violation('outside_support_scores_minus_inf',
                          'support:%s:%s' % (GP.leaf_code(leaf).rstrip(
                              '0123456789'), what),
                          {'value': val, 's1': out[0], 'parameters': theta,
                           'observations': obs}, feats)
    n_b, n_t = model.n_hierarchical_parameters(n_ids)
    if np.asarray(out[1]).shape != (n_b + n_t,):
        ctx.violation('gradient_length', 'support_reduced_length',
                      {'shape': np.asarray(out[1]).shape}, feats)


DELTAS = [0.0, 1.0, 4.0, 1e3, 1e6, 1e9, 1e12, 1e14]     # in units of ulp


def pointmass_case(ctx, rng, idx):
    """pooled / heterogeneous models are point masses: individual parameters
    that differ from the population value by ANY amount (one unit in the last
    place upwards) score -inf, equal ones score 0; bare, in every layout and as
    a part of a composed model next to a regular part"""
    kind = 'PH'[idx % 2]
    n_dim = int(rng.integers(1, 4))
    n_ids = int(rng.integers(1, 6))
    layout = LAYOUTS[(idx // 2) % 3]
    composed = (idx // 6) % 2 == 1
    leaf = GP.make_leaf(kind, n_dim, True, 0, None, n_ids)
    theta = GP.leaf_top(rng, leaf, n_ids) * float(
        rng.choice([1e-3, 1.0, 1.0, 1e3]))
    arr, th = _layout(theta, leaf, n_ids, layout, rng)
    psi = _obs(rng, leaf, th, n_ids)
    ulps = float(DELTAS[(idx // 12) % len(DELTAS)])
    i, d = int(rng.integers(n_ids)), int(rng.integers(n_dim))
    pert = psi.copy()
    if ulps:
        step = np.spacing(abs(pert[i, d])) * ulps * float(rng.choice([-1, 1]))
        pert[i, d] = pert[i, d] + step
        if pert[i, d] == psi[i, d]:
            ulps = 0.0
    expect = 0.0 if ulps == 0 else -np.inf
    feats = {'kind': kind, 'n_dim': n_dim, 'n_ids': n_ids, 'layout': layout,
             'composed': composed, 'ulps': ulps}
    ctx.case(('pointmass', kind, n_dim, min(n_ids, 3), layout, composed,
              ulps), True, sample=dict(feats, parameters=arr,
                                       observations=pert))
    ctx.count('pointmass_cases')
    try:
        if not composed:
            model = GP.build_chi_leaf(leaf, n_ids)
            model.set_n_ids(n_ids)
            val = model.compute_log_likelihood(arr, pert)
            s_red = model.compute_sensitivities(arr, pert, reduce=True)[0]
            s_sep = model.compute_sensitivities(arr, pert)[0]
            ref = expect
        else:
            g = GP.make_leaf('G', 1, True, 0, None, n_ids)
            first = bool(rng.integers(2))
            leaves = [g, leaf] if first else [leaf, g]
            model = GP.build_chi(leaves, n_ids)
            model.set_n_ids(n_ids)
            gtheta = GP.leaf_top(rng, g, n_ids)
            gobs = GP.leaf_bottom(rng, g, n_ids)
            parts = [gtheta, theta] if first else [theta, gtheta]
            obs = np.hstack([gobs, pert] if first else [pert, gobs])
            vec = np.concatenate(parts)
            val = model.compute_log_likelihood(vec, obs)
            s_red = model.compute_sensitivities(vec, obs, reduce=True)[0]
            s_sep = model.compute_sensitivities(vec, obs)[0]
            gl = float(np.real(g.logp(
                np.broadcast_to(gtheta.reshape(2, 1)[None], (n_ids, 2, 1)),
                gobs)))
            ref = expect + gl
    except Exception as e:      # noqa
        ctx.violation_exc('evaluation_raises', e, {'case': feats}, feats)
        return
    for name, got in (('value', val), ('s1_reduced', s_red),
                      ('s1_separate', s_sep)):
        ok = (got == -np.inf) if ref == -np.inf else ctx.close(
            got, ref, rtol=1e-10, scale=abs(ref) + 1)
        if not ok:
            ctx.violation('point_mass_density',
                          'point_mass:%s:%s' % (kind, name),
                          {'chi': got, 'reference': ref, 'ulps': ulps,
                           'parameters': arr, 'observations': pert}, feats)


def forms_case(ctx, rng, idx):
    """the same parameter values / individual parameters handed over in
    another container or dtype (lists, integer dtypes for integer-valued
    numbers, read-only, non-contiguous, Fortran order) score the same"""
    kind, centered = KINDS[idx % len(KINDS)]
    layout = LAYOUTS[(idx // len(KINDS)) % 3]
    n_dim = int(rng.integers(1, 4))
    n_ids = int(rng.integers(1, 6))
    leaf = GP.make_leaf(kind, n_dim, centered, 0, None, n_ids)
    model = GP.build_chi_leaf(leaf, n_ids)
    model.set_n_ids(n_ids)
    # (population models document np.ndarray inputs: array forms only)
    form = FM.pick(rng, ['readonly', 'strided', 'fortran', 'int64', 'int32',
                         'float32'])
    theta = GP.leaf_top(rng, leaf, n_ids)
    is_int = form in ('int64', 'int32')
    if is_int:
        theta = FM.intify(4 * theta)
        theta[n_dim:2 * n_dim] = np.abs(theta[n_dim:2 * n_dim]) \
            if kind in 'GLT' else theta[n_dim:2 * n_dim]
    if form == 'float32':
        theta = FM.round32(theta)
    arr, th = _layout(theta, leaf, n_ids, layout, rng)
    obs = _obs(rng, leaf, th, n_ids)
    if is_int and kind in 'GLT':
        obs = FM.intify(4 * obs)
    if form == 'float32' and kind in 'GLT':
        obs = FM.round32(obs)
    av, ov = FM.variant(arr, form), FM.variant(obs, form)
    if av is None or ov is None:
        ctx.reject('form not applicable')
        return
    feats = {'kind': kind, 'centered': centered, 'n_dim': n_dim,
             'n_ids': n_ids, 'layout': layout, 'input_form': form}
    ctx.case(('forms', kind, centered, layout, form), True,
             sample=dict(feats, parameters=arr, observations=obs))
    ref = float(np.real(leaf.logp(th, obs) if kind in 'GLT' else 0.0))
    psi_ref = np.real(_psi(leaf, th.astype(complex), obs, n_ids))
    try:
        val = model.compute_log_likelihood(av, ov)
        s_red = model.compute_sensitivities(av, ov, reduce=True)[0]
        out = model.compute_sensitivities(av, ov)
        psi = np.asarray(model.compute_individual_parameters(av, ov),
                         dtype=float)
        base = model.compute_sensitivities(arr.copy(), obs.copy())
    except Exception as e:      # noqa
        ctx.violation_exc('evaluation_raises', e, {'case': feats}, feats)
        return
    ctx.count('input_forms_compared')
    sc = abs(ref) + 1
    bad = []
    if not ctx.close(val, ref, rtol=1e-10, scale=sc):
        bad.append(('value', val, ref))
    if not ctx.close(s_red, ref, rtol=1e-10, scale=sc):
        bad.append(('s1_reduced', s_red, ref))
    if not ctx.close(out[0], ref, rtol=1e-10, scale=sc):
        bad.append(('s1_separate', out[0], ref))
    if psi.shape != psi_ref.shape or not ctx.close(psi, psi_ref,
                                                   rtol=1e-12):
        bad.append(('individual_parameters', psi, psi_ref))
    if np.isfinite(ref) and not FM.same(
            tuple(np.asarray(o, dtype=float) for o in out[1:]),
            tuple(np.asarray(o, dtype=float) for o in base[1:]), 1e-10):
        bad.append(('sensitivities', out[1:], base[1:]))
    if bad:
        ctx.violation('same_numbers_same_result',
                      'input_form:%s:%s:%s' % (kind, form, bad[0][0]),
                      {'what': bad[0][0], 'chi': bad[0][1],
                       'reference': bad[0][2], 'parameters': arr,
                       'observations': obs}, feats)


def forms_composed_case(ctx, rng, idx):
    """composed models: the same whole-numbered parameters / individual
    parameters as float64, integer-typed, read-only, strided or Fortran-
    ordered arrays give the same log-likelihood, individual parameters and
    sensitivities in all three return forms (the float64 evaluation itself
    is compared with the reference by the other families)"""
    n_ids = int(rng.integers(1, 6))
    leaves = GP.random_composition(rng, n_ids, max_parts=4, max_dim=3,
                                   p_cov=0.0, kinds='GLTP')
    if len(leaves) == 1:
        leaves.append(GP.make_leaf('G', 1, True, 0, None, n_ids))
    codes = [GP.leaf_code(l) for l in leaves]
    form = FM.pick(rng, ['readonly', 'strided', 'fortran', 'int64', 'int32'])
    feats = {'leaves': codes, 'n_ids': n_ids, 'input_form': form}
    ctx.case(('forms_composed', '+'.join(codes), form), True, sample=feats)
    model = GP.build_chi(leaves, n_ids, force_composed=True)
    model.set_n_ids(n_ids)
    thetas, cols = [], []
    for l in leaves:
        th = FM.intify(4 * GP.leaf_top(rng, l, n_ids))
        if l.kind in 'GLT':
            th[l.n_dim:] = np.abs(th[l.n_dim:])
            ob = FM.intify(4 * GP.leaf_bottom(rng, l, n_ids))
        else:
            ob = np.broadcast_to(th[None, :], (n_ids, l.n_dim)).copy()
        thetas.append(th)
        cols.append(ob)
    theta = np.concatenate(thetas)
    obs = np.hstack(cols)
    c = np.round(3 * rng.normal(size=obs.shape))
    tv, ov, cv = (FM.variant(a, form) for a in (theta, obs, c))
    if tv is None:
        tv = theta.copy()       # 1-D vector: no Fortran variant
    if ov is None or cv is None:
        ctx.reject('form not applicable')
        return

    def run(t, o, cc):
        return (model.compute_log_likelihood(t, o),
                np.asarray(model.compute_individual_parameters(t, o),
                           dtype=float)) + tuple(
            np.asarray(a, dtype=float) for kw in (
                dict(reduce=False, flattened=False),
                dict(reduce=False, flattened=True), dict(reduce=True))
            for a in model.compute_sensitivities(t, o, dlogp_dpsi=cc, **kw))
    try:
        base = run(theta.copy(), obs.copy(), c.copy())
        got = run(tv, ov, cv)
    except Exception as e:      # noqa
        ctx.violation_exc('evaluation_raises', e, {'case': feats}, feats)
        return
    ctx.count('input_forms_compared')
    if not np.isfinite(base[0]):
        return
    for k, (a, b) in enumerate(zip(got, base)):
        if not FM.same(a, b, 1e-10):
            ctx.violation('same_numbers_same_result',
                          'input_form:composed:%s:%d' % (form, k),
                          {'result_index': k, 'float64': b, form: a,
                           'parameters': theta, 'observations': obs},
                          feats)
            return


def composed_layout_case(ctx, rng, idx):
    """composed models document the matrix (n_param_per_dim, n_dim) and the
    per-individual tensor layout too: for sub-models with the same number of
    parameters per dimension the same values in those layouts score the
    same as the flat vector"""
    n_ids = int(rng.integers(1, 5))
    kinds = 'GLT' if idx % 3 else 'P'
    n_parts = int(rng.integers(2, 4))
    leaves = [GP.make_leaf(kinds[int(rng.integers(len(kinds)))],
                           int(rng.integers(1, 3)), True, 0, None, n_ids)
              for _ in range(n_parts)]
    layout = ['matrix', 'tensor'][idx % 2]
    codes = [GP.leaf_code(l) for l in leaves]
    feats = {'leaves': codes, 'n_ids': n_ids, 'layout': layout,
             'composed': True}
    ctx.case(('composed_layout', '+'.join(codes), min(n_ids, 2), layout),
             True, sample=feats)
    model = GP.build_chi(leaves, n_ids, force_composed=True)
    tops = [GP.leaf_top(rng, l, n_ids) for l in leaves]
    flat = np.concatenate(tops)
    # (n_param_per_dim, total n_dim): column d holds the parameters of
    # dimension d
    mat = np.hstack([t.reshape(-1, l.n_dim) for t, l in zip(tops, leaves)])
    arr = mat if layout == 'matrix' else np.broadcast_to(
        mat[None], (n_ids,) + mat.shape).copy()
    obs = np.hstack([
        GP.leaf_bottom(rng, l, n_ids) if l.kind in 'GLT' else
        np.broadcast_to(t[None, :], (n_ids, l.n_dim))
        for t, l in zip(tops, leaves)])
    ctx.count('composed_layout_cases')
    try:
        v_flat = model.compute_log_likelihood(flat, obs)
    except Exception as e:      # noqa
        ctx.violation_exc('evaluation_raises', e, {'case': feats}, feats)
        return
    try:
        v = model.compute_log_likelihood(arr, obs)
    except Exception as e:      # noqa
        ctx.violation_exc('composed_layout_raises', e,
                          {'case': feats, 'flat_value': v_flat}, feats)
        return
    ctx.count('layout_pairs_compared')
    if not ctx.close(v, v_flat, rtol=1e-12, scale=abs(v_flat) + 1) and not (
            v == v_flat):
        ctx.violation('layout_invariance',
                      'layout_value_differs:composed:' + layout,
                      {'flat': v_flat, layout: v, 'parameters': arr},
                      feats)


FAMILIES = [
    Family('leaf', leaf_case, quick=4200, thorough=84000),
    Family('composed', composed_case, quick=1500, thorough=30000),
    Family('support', support_case, quick=300, thorough=3000),
    Family('pointmass', pointmass_case, quick=768, thorough=7680),
    Family('forms', forms_case, quick=1470, thorough=14700),
    Family('forms_composed', forms_composed_case, quick=800,
           thorough=8000),
    Family('composed_layout', composed_layout_case, quick=240,
           thorough=2400),
]
