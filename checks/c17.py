"""
C17 - parameter counts, names, vector lengths, gradient lengths (and IDs of
hierarchical objects) always agree, in every composition and after every
reconfiguration.  Monitors: the equalities themselves, evaluated after every
step of a reconfiguration history, plus acceptance of a vector of the
reported length by every evaluation entry point.
"""
import itertools

import copy
import numpy as np
import pandas as pd
import pints

from harness.bootstrap import load_chi
from harness.core import Family
from harness import gen_hier as GH
from harness import gen_loglik as GL
from harness import gen_pop as GP
from harness import toys
from harness.oracle import densities as D
from harness.oracle.hierarchy import Hierarchy

chi = load_chi()

PROP = 'C17'
TITLE = 'counts, names, vector lengths and gradient lengths agree'
RULE = (
    'population family: compositions from the C02 alphabet (exhaustive to '
    'total dimension 3) and random deeper ones, optionally inside '
    'ReducedPopulationModel, driven through reconfiguration histories '
    '(set_n_ids, set_dim_names, set_parameter_names, fix / release, '
    'set_population_parameters) of length <=3 (exhaustive family) or <=8 '
    '(random), invariants after every step and on the hierarchical '
    'likelihood / posterior built at the end; individual family: '
    'LogLikelihood / LogPosterior / PredictiveModel under fix histories; '
    'mechanistic family: SBML models under set_outputs / set_administration '
    '/ renaming / fix / sensitivities; controller family; signature = '
    '(object, op sequence); non-trivial = >=1 reconfiguration step')
ASSUMPTIONS = [
    'ReducedPopulationModel.set_parameter_names refuses names over 50 '
    'characters (pinned by the repository\'s tests); composites under long '
    'dimension names publish coefficient names beyond that limit, so a '
    'set_parameter_names that has to pass them down to a nested reduced '
    'wrapper is refused: counted as a rejected input, not as a violation',
    'reconfiguration goes through the public API of the top-level object '
    '(sub-models held by a composite are not reconfigured behind its back)',
    'a vector of the reported length must evaluate without raising; longer '
    'vectors are not required to be refused',
]
ANCHORS = [
    'chi._population_models.ReducedPopulationModel.set_n_ids',
    'chi._population_models.ComposedPopulationModel.set_n_ids',
    'chi._population_models.HeterogeneousModel.set_n_ids',
    'chi._population_models.CovariatePopulationModel.set_population_parameters',
    'chi._log_pdfs.HierarchicalLogLikelihood.get_id',
    'chi._log_pdfs.LogLikelihood.fix_parameters',
    'chi._mechanistic_models.SBMLModel.set_outputs',
    'chi._mechanistic_models.PKPDModel.set_administration',
]
REQUIRED = {'invariant_evaluations': 2000, 'reconfiguration_steps': 500,
            'hierarchical_objects_checked': 100,
            'gradient_lengths_checked': 200}


def _bad(ctx, what, detail, feats):
    ctx.violation('counts_names_lengths_agree', what, detail, feats)


_READERS = ['get_special_dims', 'n_parameters', 'get_parameter_names',
            'n_hierarchical_dim', 'get_dim_names', 'n_dim', 'n_covariates',
            'get_covariate_names', 'n_hierarchical_parameters']


def _reads_order_free(ctx, m, n_ids, feats, what):
    """what a read-only accessor reports straight after a reconfiguration
    equals what it reports once the other accessors have been called (a
    count or table cached by one accessor and refreshed by another shows as
    a difference); each accessor is read first on its own copy of the model"""
    order = _READERS

    def read(obj, a):
        f = getattr(obj, a)
        return repr(f(n_ids) if a == 'n_hierarchical_parameters' else f())
    try:
        # every accessor is the FIRST one called on its own copy
        first = dict((a, read(copy.deepcopy(m), a)) for a in order)
        for a in order:
            read(m, a)
        second = dict((a, read(m, a)) for a in order)
    except Exception as e:      # noqa
        ctx.violation_exc('accessor_raises', e, {'what': what}, feats)
        return False
    ctx.count('accessor_order_passes')
    diff = [(a, first[a], second[a]) for a in order if first[a] != second[a]]
    if diff:
        _bad(ctx, 'accessor_depends_on_call_order',
             {'what': what, 'first_read_order': order,
              'accessor, first read, read again': diff[:3]}, feats)
        return False
    return True


def _other_n_ids(ctx, m, n_ids, feats, what):
    """n_hierarchical_parameters(k) answers for k individuals, whatever
    number the model is configured for: it equals the counts of a copy that
    is configured for k"""
    k = (n_ids % 5) + 1
    try:
        got = tuple(int(v) for v in m.n_hierarchical_parameters(k))
        c = copy.deepcopy(m)
        c.set_n_ids(k)
        want = (int(c.n_hierarchical_parameters(k)[0]), int(c.n_parameters()))
    except Exception as e:      # noqa
        ctx.violation_exc('accessor_raises', e, {'what': what}, feats)
        return False
    ctx.count('counts_for_other_n_ids')
    if got != want:
        _bad(ctx, 'population_counts',
             {'problems': ['%s: n_hierarchical_parameters(%d) = %s, a copy '
                           'configured for %d individuals has %s' % (
                               what, k, got, k, want)]}, feats)
        return False
    return True


# ------------------------------------------------------- population models
class PopState(object):
    """chi population model + the Leaf description that mirrors it"""

    def __init__(self, rng, leaves, n_ids, reduced, nest=None):
        self.leaves = leaves
        self.n_ids = n_ids
        self.nested = nest is not None
        self.model = GP.build_chi(leaves, n_ids, nest=nest)
        self.reduced = reduced
        if reduced:
            self.model = chi.ReducedPopulationModel(self.model)
        self.fixed = set()        # indices into the full parameter vector
        self.ops = []
        self.dim_reset_pending = False

    def relayout(self, n_ids):
        """leaf specs for a new number of individuals"""
        out = []
        for l in self.leaves:
            sel = None
            if l.cov:
                sel = [list(s) for s in l.cov['sel']]
                if l.kind == 'H' and not l.cov['full']:
                    # (the selection of ID-specific parameters is kept for
                    # the individuals that remain; an empty selection
                    # becomes the default selection of all parameters)
                    sel = [s for s in sel if s[0] < n_ids] or None
                    if sel is None:
                        out.append(GP.make_leaf(
                            l.kind, l.n_dim, l.centered, l.cov['n_cov'],
                            None, n_ids))
                        continue
            out.append(GP.make_leaf(l.kind, l.n_dim, l.centered,
                                    l.cov['n_cov'] if l.cov else 0,
                                    sel if l.cov and not l.cov['full']
                                    else None, n_ids))
        self.leaves = out
        self.n_ids = n_ids

    def full_names(self):
        m = self.model
        if self.reduced:
            m = m.get_population_model()
        return m.get_parameter_names()


def check_pop(ctx, st, rng, feats):
    m = st.model
    h = Hierarchy(st.leaves, st.n_ids)
    n_free = h.n_top - len(st.fixed)
    if not _reads_order_free(ctx, m, st.n_ids, feats, st.ops[-3:]):
        return False
    if not _other_n_ids(ctx, m, st.n_ids, feats, st.ops[-3:]):
        return False
    ctx.count('invariant_evaluations')
    names = m.get_parameter_names()
    names2 = m.get_parameter_names(exclude_dim_names=True)
    n = m.n_parameters()
    n_b, n_t = m.n_hierarchical_parameters(st.n_ids)
    prob = []
    if not (n == len(names) == len(names2) == n_t == n_free):
        prob.append('n_parameters=%s names=%s names(no dim)=%s '
                    'n_hierarchical top=%s expected=%s' % (
                        n, len(names), len(names2), n_t, n_free))
    if n_b != st.n_ids * m.n_hierarchical_dim() or n_b != h.n_bottom:
        prob.append('bottom count %s, n_ids*n_hierarchical_dim %s, '
                    'expected %s' % (n_b, st.n_ids * m.n_hierarchical_dim(),
                                     h.n_bottom))
    if m.n_dim() != h.n_dim or len(m.get_dim_names()) != h.n_dim:
        prob.append('n_dim %s / dim names %s / expected %s' % (
            m.n_dim(), len(m.get_dim_names()), h.n_dim))
    if m.n_covariates() != h.n_cov or \
            len(m.get_covariate_names()) != h.n_cov:
        prob.append('covariate count')
    if prob:
        _bad(ctx, 'population_counts', {'problems': prob, 'ops': st.ops,
                                        'leaves': feats['leaves']}, feats)
        return False
    # a vector of the reported length evaluates; gradient has that length
    _, x, cov = GP.hierarchy_vector(rng, st.leaves, st.n_ids)
    top = x[h.n_bottom:]
    full_names = st.full_names()
    if len(full_names) != len(top):
        _bad(ctx, 'population_counts',
             {'problems': ['full names %d vs layout %d' % (
                 len(full_names), len(top))], 'ops': st.ops}, feats)
        return False
    free = np.ones(len(top), dtype=bool)
    free[sorted(st.fixed)] = False
    # fixed values may make point masses inconsistent; only lengths matter
    _, psi = h.split(x, cov)
    obs = np.real(psi)
    ib = 0
    idim = 0
    zb = x[:h.n_bottom].reshape(st.n_ids, h.n_hdim) if h.n_hdim else None
    for l in st.leaves:
        if l.n_hdim():
            obs[:, idim:idim + l.n_dim] = zb[:, ib:ib + l.n_dim]
            ib += l.n_dim
        idim += l.n_dim
    kw = {'covariates': cov} if h.n_cov else {}
    try:
        s, g = m.compute_sensitivities(top[free], obs, reduce=True, **kw)
        s2, dpsi, dth = m.compute_sensitivities(top[free], obs, **kw)
        v = m.compute_log_likelihood(top[free], obs, **kw)
    except Exception as e:      # noqa
        ctx.violation_exc('vector_of_reported_length_evaluates', e,
                          {'ops': st.ops, 'leaves': feats['leaves']}, feats)
        return False
    ctx.count('gradient_lengths_checked')
    if np.asarray(g).shape != (n_b + n_t,) or \
            np.asarray(dth).shape != (n,) or \
            np.asarray(dpsi).shape != (st.n_ids, h.n_dim):
        _bad(ctx, 'population_gradient_length',
             {'reduced': np.asarray(g).shape, 'dtheta': np.asarray(dth).shape,
              'dpsi': np.asarray(dpsi).shape, 'reported': (n_b, n_t, n),
              'ops': st.ops, 'leaves': feats['leaves']}, feats)
        return False
    return True


def pop_op(rng, st, op):
    """applies one reconfiguration step; returns a description"""
    m = st.model
    names = st.full_names()
    unique = len(set(names)) == len(names)
    if op == 'set_n_ids':
        if st.fixed and not unique:
            return None
        k = int(rng.integers(1, 6))
        fixed_names = [names[i] for i in sorted(st.fixed)]
        m.set_n_ids(k)
        st.relayout(k)
        new = st.full_names()
        # fixed parameters are kept by name (entries of a heterogeneous
        # part that no longer exist are dropped)
        st.fixed = set(new.index(a) for a in fixed_names if a in new)
        return 'set_n_ids(%d)' % k
    forced = None
    if op in ('set_dim_names_long', 'set_parameter_names_custom'):
        forced = op
        op = op.rsplit('_', 1)[0]
    if op == 'set_dim_names':
        if forced is None and rng.random() < 0.3:
            m.set_dim_names(None)
            st.dim_reset_pending = True
            return 'set_dim_names(reset)'
        # (sometimes names as long as 'compartment.variable Sigma base')
        stem = 'd%d' if (forced is None and rng.random() < 0.7) else \
            'peripheral_1.drug_concentration Sigma base %d'
        m.set_dim_names([stem % i for i in rng.permutation(m.n_dim())])
        st.dim_reset_pending = False
        return 'set_dim_names(custom)'
    if op == 'set_covariate_names':
        n_c = m.n_covariates()
        if n_c == 0:
            return None
        if rng.random() < 0.3:
            m.set_covariate_names(None)
            return 'set_covariate_names(reset)'
        want = ['covariate %d' % i for i in rng.permutation(n_c)]
        m.set_covariate_names(want)
        got = list(m.get_covariate_names())
        if got != want:
            raise CovariateNames('set %r, published %r' % (want, got))
        return 'set_covariate_names(custom)'
    if op == 'set_parameter_names':
        if forced is None and rng.random() < 0.3:
            m.set_parameter_names(None)
            return 'set_parameter_names(reset)'
        before = list(names)
        m.set_parameter_names(['p%d' % i for i in range(m.n_parameters())])
        after = st.full_names()
        st.renamed_fixed = [
            (before[i], after[i]) for i in sorted(st.fixed)
            if i < len(after) and after[i] != before[i]]
        return 'set_parameter_names(custom)'
    if op == 'fix' and st.reduced:
        if not unique:
            return None
        free = [i for i in range(len(names)) if i not in st.fixed]
        if len(free) <= 1:
            return None
        k = int(rng.integers(1, len(free)))
        pick = [free[i] for i in rng.permutation(len(free))[:k]]
        m.fix_parameters({names[i]: 0.4 for i in pick})
        st.fixed.update(pick)
        return 'fix(%d)' % k
    if op == 'fix_all' and st.reduced:
        if not unique:
            return None
        free = [i for i in range(len(names)) if i not in st.fixed]
        if not free:
            return None
        m.fix_parameters({names[i]: 0.4 for i in free})
        st.fixed.update(free)
        return 'fix_all(%d)' % len(free)
    if op == 'release' and st.reduced and st.fixed:
        if not unique:
            return None
        pick = sorted(st.fixed)[:int(rng.integers(1, len(st.fixed) + 1))]
        m.fix_parameters({names[i]: None for i in pick})
        st.fixed.difference_update(pick)
        return 'release(%d)' % len(pick)
    if op == 'set_population_parameters' and len(st.leaves) == 1 and \
            not st.nested and \
            st.leaves[0].cov and not st.reduced and st.leaves[0].kind != 'H':
        l = st.leaves[0]
        npd = GP.n_per_dim(l, st.n_ids)
        full = [(p, d) for p in range(npd) for d in range(l.n_dim)]
        k = int(rng.integers(1, len(full) + 1))
        sel = [list(full[i]) for i in rng.permutation(len(full))[:k]]
        m.set_population_parameters(sel)
        st.leaves = [GP.make_leaf(l.kind, l.n_dim, l.centered,
                                  l.cov['n_cov'], sel, st.n_ids)]
        return 'set_population_parameters(%d)' % k
    return None


POP_OPS = ['set_n_ids', 'set_dim_names', 'set_parameter_names', 'fix',
           'release', 'set_population_parameters', 'set_covariate_names',
           'fix_all']


class CovariateNames(Exception):
    pass


def _finish_hierarchical(ctx, rng, st, feats):
    """build the hierarchical objects on the reconfigured model"""
    h = Hierarchy(st.leaves, st.n_ids)
    n_dim = h.n_dim
    if n_dim not in (3, 4):
        return
    cases = [GL.LLCase(rng, n_out=1, allow_empty=False,
                       em_classes=['GaussianErrorModel'])
             for _ in range(st.n_ids)]
    lls = []
    for c in cases:
        ll = c.build()
        if n_dim == 3:
            ll.fix_parameters({'Sigma': 0.3})
        lls.append(ll)
    _, x, cov = GP.hierarchy_vector(rng, st.leaves, st.n_ids)
    try:
        hl = chi.HierarchicalLogLikelihood(lls, st.model, covariates=cov)
    except Exception as e:      # noqa
        ctx.violation_exc('hierarchical_object_constructible', e,
                          {'ops': st.ops, 'leaves': feats['leaves']}, feats)
        return
    n_top_free = h.n_top - len(st.fixed)
    objs = [hl]
    try:
        if n_top_free > 0:
            bounded = rng.random() < 0.5
            prior = pints.ComposedLogPrior(*[
                pints.UniformLogPrior(-60.0, 60.0) if bounded
                else pints.GaussianLogPrior(0.3, 2.0)
                for _ in range(n_top_free)])
            objs.append(chi.HierarchicalLogPosterior(hl, prior))
    except Exception as e:      # noqa
        ctx.violation_exc('hierarchical_object_constructible', e,
                          {'ops': st.ops, 'leaves': feats['leaves'],
                           'what': 'posterior'}, feats)
    free = np.ones(h.n_top, dtype=bool)
    free[sorted(st.fixed)] = False
    xv = np.concatenate([x[:h.n_bottom], x[h.n_bottom:][free]])
    for obj in objs:
        ctx.count('hierarchical_objects_checked')
        n = obj.n_parameters()
        names = obj.get_parameter_names()
        names_id = obj.get_parameter_names(include_ids=True)
        ids = obj.get_id()
        n_top = obj.n_parameters(exclude_bottom_level=True)
        prob = []
        if not (n == len(names) == len(names_id) == len(ids) == len(xv)):
            prob.append('n=%s names=%s ids=%s vector=%s' % (
                n, len(names), len(ids), len(xv)))
        elif [i is not None for i in ids] != \
                [True] * h.n_bottom + [False] * (n - h.n_bottom):
            prob.append('ids do not mark exactly the bottom-level entries')
        if n_top != n_top_free or len(obj.get_parameter_names(
                exclude_bottom_level=True)) != n_top_free:
            prob.append('top-level count %s expected %s' % (
                n_top, n_top_free))
        prob += GH.flag_combinations_agree(obj)
        default_names = not any(
            o == 'set_parameter_names(custom)' for o in st.ops)
        if default_names and len(set(names_id)) != len(names_id):
            prob.append('duplicate names with ids under default naming')
            feats['dim_names_reset_pending'] = st.dim_reset_pending
            feats['n_leaves'] = len(st.leaves)
        if prob:
            _bad(ctx, 'hierarchical_counts',
                 {'problems': prob, 'ops': st.ops, 'names': names_id,
                  'leaves': feats['leaves']}, feats)
            continue
        try:
            v = obj(xv)
            s, g = obj.evaluateS1(xv)
        except Exception as e:      # noqa
            ctx.violation_exc('vector_of_reported_length_evaluates', e,
                              {'ops': st.ops, 'leaves': feats['leaves']},
                              feats)
            continue
        ctx.count('gradient_lengths_checked')
        if np.asarray(g).shape != (n,):
            _bad(ctx, 'hierarchical_gradient_length',
                 {'shape': np.asarray(g).shape, 'n_parameters': n,
                  'ops': st.ops}, feats)
        # points the object rejects (score -inf: a negative scale, a value
        # outside a bounded prior) go through early returns of their own;
        # the gradient reported there has the same length
        for what, top in (('negative top level', -1.0),
                          ('outside a bounded prior', 1e3)):
            if n_top_free == 0:
                break
            xr = xv.copy()
            xr[h.n_bottom:] = top
            try:
                sr, gr = obj.evaluateS1(xr)
            except Exception:       # noqa
                ctx.count('rejected_points_raising')
                continue
            ctx.count('gradient_lengths_checked_at_rejected_points')
            if not np.isfinite(sr):
                ctx.count('gradient_lengths_checked_at_score_minus_inf')
            if np.asarray(gr).shape != (n,):
                _bad(ctx, 'hierarchical_gradient_length',
                     {'shape': np.asarray(gr).shape, 'n_parameters': n,
                      'at': what, 'score': float(sr), 'ops': st.ops}, feats)
    # the likelihood works on its own copy of the population model: a
    # parameter of that copy is fixed through get_population_model() (the
    # only way to fix a population parameter of an existing likelihood)
    pm_in = hl.get_population_model()
    if isinstance(pm_in, chi.ReducedPopulationModel) and \
            pm_in.n_parameters() > 1:
        nm = pm_in.get_parameter_names()
        if len(set(nm)) == len(nm):
            try:
                pm_in.fix_parameters({nm[-1]: 0.45})
                n = hl.n_parameters()
                names = hl.get_parameter_names()
                ids = hl.get_id()
                ctx.count('hierarchical_objects_checked')
                if not (n == len(names) == len(ids)):
                    _bad(ctx, 'hierarchical_counts',
                         {'problems': ['after fixing %r through '
                                       'get_population_model(): n=%s '
                                       'names=%s ids=%s' % (
                                           nm[-1], n, len(names), len(ids))],
                          'ops': st.ops}, feats)
                    return
                s, g = hl.evaluateS1(np.full(len(names), 0.7))
                if np.asarray(g).shape != (n,):
                    _bad(ctx, 'hierarchical_gradient_length',
                         {'shape': np.asarray(g).shape, 'n_parameters': n,
                          'ops': st.ops}, feats)
            except Exception as e:      # noqa
                ctx.violation_exc('vector_of_reported_length_evaluates', e,
                                  {'ops': st.ops, 'what': 'fixed through '
                                   'get_population_model()'}, feats)


def _pop_history(ctx, rng, leaves, n_ids, reduced, ops, tag, nest=None):
    codes = [GP.leaf_code(l) for l in leaves]
    feats = {'leaves': codes, 'kinds': sorted(set(l.kind for l in leaves)),
             'reduced': reduced, 'n_ids0': n_ids,
             'nested_wrappers': nest is not None}
    try:
        st = PopState(rng, leaves, n_ids, reduced, nest=nest)
    except Exception as e:      # noqa
        ctx.violation_exc('construction_raises', e, {'leaves': codes}, feats)
        return
    if not check_pop(ctx, st, rng, feats):
        return
    for op in ops:
        try:
            d = pop_op(rng, st, op)
        except Exception as e:      # noqa
            if 'cannot exceed 50 characters' in str(e) and any(
                    'set_dim_names(custom)' == o_ for o_ in st.ops) and \
                    op.startswith('set_parameter_names'):
                # the documented 50-character limit of ReducedPopulationModel
                # names: composites with long dimension names carry
                # coefficient names beyond it, which a wrapper below refuses
                # when the names are passed down (see ASSUMPTIONS)
                ctx.reject('names over the 50-character limit')
                return
            ctx.violation_exc('reconfiguration_raises', e,
                              {'ops': st.ops + [op], 'leaves': codes}, feats)
            return
        if d is None:
            continue
        if getattr(st, 'renamed_fixed', None):
            # naming the free parameters leaves the fixed ones alone (they
            # stay addressable by the names they were fixed under)
            _bad(ctx, 'fixed_parameter_renamed',
                 {'renamed': st.renamed_fixed, 'ops': st.ops + [d],
                  'leaves': codes}, feats)
            return
        st.ops.append(d)
        feats['ops'] = [o.split('(')[0] for o in st.ops]
        ctx.count('reconfiguration_steps')
        if not check_pop(ctx, st, rng, feats):
            return
    _finish_hierarchical(ctx, rng, st, feats)


def pop_random_case(ctx, rng, idx):
    n_ids = int(rng.integers(1, 5))
    total = [3, 4, None][idx % 3]
    leaves = GP.random_composition(rng, n_ids, total_dim=total,
                                   p_cov=0.3, cov_kinds='GLTPH')
    reduced = rng.random() < 0.5
    ops = [POP_OPS[int(rng.integers(len(POP_OPS)))]
           for _ in range(int(rng.integers(1, 9)))]
    if idx % 8 == 5:
        # names longer than 50 characters, some parameters fixed, the free
        # ones renamed: the fixed ones keep the names they were fixed under
        reduced = True
        ops = ['set_dim_names_long', 'fix',
               'set_parameter_names_custom'] + ops[:4]
    # sub-models hidden behind wrappers (nested composites, reduced models)
    nest = GP.random_nest(rng) if idx % 2 == 0 else None
    ctx.case(('+'.join(GP.leaf_code(l) for l in leaves), reduced,
              tuple(ops), nest is not None), True,
             sample={'leaves': [GP.leaf_code(l) for l in leaves],
                     'n_ids': n_ids, 'reduced': reduced, 'ops': ops,
                     'nested_wrappers': nest is not None})
    _pop_history(ctx, rng, leaves, n_ids, reduced, ops, 'random', nest=nest)


_COMPS3 = GP.enumerate_compositions(3)
_HIST3 = [h for n in (1, 2, 3)
          for h in itertools.product(POP_OPS[:5], repeat=n)]


def pop_exhaustive_case(ctx, rng, idx):
    """all op-sequences of length <=3 (5-letter alphabet) over the
    enumerated compositions (composition advances with the index)"""
    ops = _HIST3[idx % len(_HIST3)]
    seq = _COMPS3[(idx * 7 + idx // len(_HIST3)) % len(_COMPS3)]
    n_ids = [1, 2, 3][idx % 3]
    leaves = GP.leaves_from_alphabet(seq, n_ids)
    reduced = any(o in ('fix', 'release') for o in ops) or idx % 2 == 0
    ctx.case(('exh', '+'.join(GP.leaf_code(l) for l in leaves), reduced, ops),
             True, sample={'leaves': [GP.leaf_code(l) for l in leaves],
                           'n_ids': n_ids, 'reduced': reduced, 'ops': ops})
    _pop_history(ctx, rng, leaves, n_ids, reduced, list(ops), 'exhaustive')


# ------------------------------------- sub-models reconfigured in a composite
def _counts_agree(ctx, m, n_ids, feats, what):
    """n_parameters == names == hierarchical top count; gradients of the
    reported lengths; returns False after reporting a problem"""
    untouched = copy.deepcopy(m)    # no accessor called on it yet
    if not _reads_order_free(ctx, m, n_ids, feats, what):
        return False
    if not _other_n_ids(ctx, m, n_ids, feats, what):
        return False
    names = m.get_parameter_names()
    n = m.n_parameters()
    n_b, n_t = m.n_hierarchical_parameters(n_ids)
    ctx.count('invariant_evaluations')
    if not (n == len(names) == n_t):
        _bad(ctx, 'population_counts',
             {'problems': ['%s: n_parameters=%s names=%s hierarchical top=%s'
                           % (what, n, len(names), n_t)], 'names': names},
             feats)
        return False
    # evaluate at a vector of the reported length (values only need to be
    # accepted; the lengths of what comes back are compared)
    top = np.full(n, 0.7)
    obs = np.full((n_ids, m.n_dim()), 0.7)
    kw = {}
    if m.n_covariates():
        kw['covariates'] = np.full((n_ids, m.n_covariates()), 0.1)
    try:
        s, g = m.compute_sensitivities(top, obs, reduce=True, **kw)
        s2, dpsi, dth = m.compute_sensitivities(top, obs, **kw)
        m.compute_log_likelihood(top, obs, **kw)
    except Exception as e:      # noqa
        ctx.violation_exc('vector_of_reported_length_evaluates', e,
                          {'what': what, 'names': names}, feats)
        return False
    ctx.count('gradient_lengths_checked')
    # a list of names of the reported length is accepted and read back
    try:
        given = ['q%d' % i for i in range(n)]
        untouched.set_parameter_names(given)
        m.set_parameter_names(given)
        back = m.get_parameter_names(exclude_dim_names=True)
        m.set_parameter_names(None)
    except Exception as e:      # noqa
        ctx.violation_exc('names_of_reported_length_refused', e,
                          {'what': what, 'names': names}, feats)
        return False
    if len(back) != n:
        _bad(ctx, 'population_counts',
             {'problems': ['%s: %d names set, %d read back' % (
                 what, n, len(back))]}, feats)
        return False
    if np.asarray(g).shape != (n_b + n_t,) or np.asarray(dth).shape != (n,):
        _bad(ctx, 'population_gradient_length',
             {'what': what, 'reduced': np.asarray(g).shape,
              'dtheta': np.asarray(dth).shape, 'reported': (n_b, n_t, n)},
             feats)
        return False
    return True


def _same_object_case(ctx, rng, n_ids):
    """one population model object reachable through several sub-models of
    a composite - listed k times, once bare and once under a reduced
    wrapper, under two reduced wrappers with different fixed values, or
    once more inside a nested composite - still means separate sub-models
    with their own dimensions and names: everything equals the composite
    built from separate objects"""
    k = int(rng.integers(2, 4))
    cls = [chi.LogNormalModel, chi.GaussianModel, chi.PooledModel,
           chi.TruncatedGaussianModel, chi.HeterogeneousModel][
        int(rng.integers(5))]
    shape = ['listed', 'under_reduced', 'two_reduced', 'nested'][
        int(rng.integers(4))]
    feats = {'mode': 'same_object', 'class': cls.__name__, 'k': k,
             'n_ids': n_ids, 'shape': shape}
    ctx.case(('submodel', 'same_object', cls.__name__, k, shape), True,
             sample=feats)

    def build(new):
        """new(): the model object for the next occurrence"""
        if shape == 'listed':
            return chi.ComposedPopulationModel([new() for _ in range(k)])
        if shape == 'under_reduced':
            subs = [chi.ReducedPopulationModel(new()), new()]
            return chi.ComposedPopulationModel(
                subs if k == 2 else subs[::-1])
        if shape == 'two_reduced':
            subs = []
            for v in (0.3, 0.5):
                r = chi.ReducedPopulationModel(new())
                nm = r.get_parameter_names()
                if len(nm) > 1:
                    r.fix_parameters({nm[-1]: v})
                subs.append(r)
            return chi.ComposedPopulationModel(subs)
        return chi.ComposedPopulationModel([
            new(), chi.ComposedPopulationModel([new(), chi.PooledModel()])])
    try:
        one = cls()
        pop = build(lambda: one)
        pop.set_n_ids(n_ids)
        ref = build(cls)
        ref.set_n_ids(n_ids)
    except Exception as e:      # noqa
        ctx.violation_exc('construction_raises', e, {'case': feats}, feats)
        return
    ctx.count('invariant_evaluations')
    names, want = pop.get_parameter_names(), ref.get_parameter_names()
    if names != want or len(set(names)) != len(names):
        _bad(ctx, 'population_counts',
             {'problems': ['one object reachable through several '
                           'sub-models: names %s, separate objects: %s' % (
                               names, want)]}, feats)
        return
    dims = ['d%d' % i for i in range(pop.n_dim())]
    pop.set_dim_names(dims)
    ref.set_dim_names(dims)
    if pop.get_dim_names() != dims or \
            pop.get_parameter_names() != ref.get_parameter_names():
        _bad(ctx, 'population_counts',
             {'problems': ['dimension names %s after set_dim_names(%s)' % (
                 pop.get_dim_names(), dims)]}, feats)
        return
    _counts_agree(ctx, pop, n_ids, feats, 'shared object, ' + shape)


def _reduced_inner_select_case(ctx, rng, n_ids):
    """ReducedPopulationModel around a covariate model whose transformed
    parameters are selected afterwards through get_population_model()
    (the call exists only on the wrapped class); optionally a parameter is
    fixed before, which stays fixed by name"""
    n_dim = int(rng.integers(1, 3))
    n_cov = int(rng.integers(1, 3))
    base = [chi.GaussianModel, chi.LogNormalModel][int(rng.integers(2))](
        n_dim=n_dim)
    cpm = chi.CovariatePopulationModel(
        base, chi.LinearCovariateModel(n_cov=n_cov))
    red = chi.ReducedPopulationModel(cpm)
    composed = rng.random() < 0.5
    prefix = rng.random() < 0.5
    feats = {'mode': 'reduced_inner_select', 'n_ids': n_ids, 'n_dim': n_dim,
             'n_cov': n_cov, 'composed': composed, 'fixed_before': prefix,
             'base': type(base).__name__}
    ctx.case(('submodel', 'reduced_inner_select', n_dim, n_cov, composed,
              prefix, feats['base']), True, sample=feats)
    pop = chi.ComposedPopulationModel([red, chi.PooledModel()]) \
        if composed else red
    try:
        pop.set_n_ids(n_ids)
        if not _counts_agree(ctx, pop, n_ids, feats, 'before selecting'):
            return
        kept = None
        if prefix:
            # the first parameter exists under every selection
            kept = red.get_parameter_names()[0]
            red.fix_parameters({kept: 0.6})
        full = [[p_, d] for p_ in range(2) for d in range(n_dim)]
        k = int(rng.integers(1, len(full) + 1))
        sel = [full[i] for i in rng.permutation(len(full))[:k]]
        feats['selected'] = k
        red.get_population_model().set_population_parameters(sel)
        ctx.count('reconfiguration_steps')
        want = 2 * n_dim + k * n_cov - int(prefix) + int(composed)
        if not _counts_agree(ctx, pop, n_ids, feats,
                             'after selecting through the wrapper'):
            return
        if pop.n_parameters() != want or (
                kept is not None and kept in red.get_parameter_names()):
            _bad(ctx, 'population_counts',
                 {'problems': ['%d parameters, expected %d; fixed name %r '
                               'still listed: %s' % (
                                   pop.n_parameters(), want, kept,
                                   kept in red.get_parameter_names())]},
                 feats)
    except Exception as e:      # noqa
        ctx.violation_exc('reconfiguration_raises', e, {'case': feats},
                          feats)


def submodel_case(ctx, rng, idx):
    """a composite whose sub-model is reconfigured AFTER composing (the
    calls exist only on the sub-model classes), and wrapped heterogeneous
    sub-models that were created for another number of individuals"""
    mode = ['sub_fix', 'sub_select', 'wrapped_heterogeneous',
            'same_object', 'reduced_inner_select'][idx % 5]
    n_ids = int(rng.integers(1, 5))
    if mode == 'same_object':
        _same_object_case(ctx, rng, n_ids)
        return
    if mode == 'reduced_inner_select':
        _reduced_inner_select_case(ctx, rng, n_ids)
        return
    other = [chi.PooledModel(), chi.GaussianModel(),
             chi.LogNormalModel(n_dim=2)][int(rng.integers(3))]
    first = bool(rng.integers(2))
    feats = {'mode': mode, 'n_ids': n_ids, 'other': type(other).__name__,
             'wrapped_first': first}
    ctx.case(('submodel', mode, n_ids, feats['other'], first), True,
             sample=feats)
    try:
        if mode == 'sub_fix':
            base = [chi.GaussianModel, chi.LogNormalModel,
                    chi.TruncatedGaussianModel][int(rng.integers(3))](
                n_dim=int(rng.integers(1, 3)))
            sub = chi.ReducedPopulationModel(base)
        elif mode == 'sub_select':
            base = [chi.GaussianModel, chi.LogNormalModel][
                int(rng.integers(2))](n_dim=int(rng.integers(1, 3)))
            sub = chi.CovariatePopulationModel(
                base, chi.LinearCovariateModel(n_cov=int(rng.integers(1, 3))))
        else:
            n_made = int(rng.integers(1, 5))
            feats['n_ids_at_construction'] = n_made
            het = chi.HeterogeneousModel(n_dim=int(rng.integers(1, 3)),
                                         n_ids=n_made)
            sub = chi.ReducedPopulationModel(het) if rng.random() < 0.5 \
                else chi.CovariatePopulationModel(
                    het, chi.LinearCovariateModel())
            feats['wrapper'] = type(sub).__name__
        pop = chi.ComposedPopulationModel(
            [sub, other] if first else [other, sub])
        if mode == 'wrapped_heterogeneous' and rng.random() < 0.5:
            # used as composed, for the number of individuals the wrapped
            # model was created for
            n_ids = n_made
            feats['n_ids'] = n_ids
            feats['set_n_ids_after_composing'] = False
        else:
            pop.set_n_ids(n_ids)
    except Exception as e:      # noqa
        ctx.violation_exc('construction_raises', e, {'case': feats}, feats)
        return
    if not _counts_agree(ctx, pop, n_ids, feats, 'after composing'):
        return
    inner = pop.get_population_models()[0 if first else 1]
    try:
        if mode == 'sub_fix':
            nm = inner.get_parameter_names()
            inner.fix_parameters({nm[int(rng.integers(len(nm)))]: 0.6})
        elif mode == 'sub_select':
            inner.set_population_parameters(
                [[int(rng.integers(2)), int(rng.integers(inner.n_dim()))]])
        else:
            k = int(rng.integers(1, 5))
            feats['set_n_ids'] = k
            pop.set_n_ids(k)
            n_ids = k
    except Exception as e:      # noqa
        ctx.violation_exc('reconfiguration_raises', e, {'case': feats},
                          feats)
        return
    ctx.count('reconfiguration_steps')
    if not _counts_agree(ctx, pop, n_ids, feats,
                         'after reconfiguring the sub-model'):
        return
    # a hierarchical likelihood over the reconfigured composite
    n_dim = pop.n_dim()
    if n_dim > 4:
        return
    lls = []
    for _ in range(n_ids):
        c = GL.LLCase(rng, n_out=max(1, n_dim - 3), allow_empty=False,
                      em_classes=['GaussianErrorModel'])
        ll = c.build()
        names_ll = ll.get_parameter_names()
        drop = len(names_ll) - n_dim
        if drop < 0:
            return
        if drop:
            ll.fix_parameters({nm_: 0.4 for nm_ in names_ll[-drop:]})
        lls.append(ll)
    kw = {}
    if pop.n_covariates():
        kw['covariates'] = np.full((n_ids, pop.n_covariates()), 0.1)
    try:
        hl = chi.HierarchicalLogLikelihood(lls, pop, **kw)
        n = hl.n_parameters()
        names = hl.get_parameter_names()
        ids = hl.get_id()
        ctx.count('hierarchical_objects_checked')
        if not (n == len(names) == len(ids)):
            _bad(ctx, 'hierarchical_counts',
                 {'problems': ['n=%s names=%s ids=%s' % (
                     n, len(names), len(ids))], 'case': feats}, feats)
            return
        x = np.full(n, 0.7)
        hl(x)
        s, g = hl.evaluateS1(x)
        if np.asarray(g).shape != (n,):
            _bad(ctx, 'hierarchical_gradient_length',
                 {'shape': np.asarray(g).shape, 'n_parameters': n}, feats)
    except Exception as e:      # noqa
        ctx.violation_exc('vector_of_reported_length_evaluates', e,
                          {'case': feats, 'what': 'hierarchical'}, feats)


# ------------------------------------------------- individual-level objects
def individual_case(ctx, rng, idx):
    case = GL.LLCase(rng, allow_empty=False)
    case.mech_wrapper = ['none', 'reduced', 'reduced_released'][idx % 3]
    feats = {'object': 'LogLikelihood', 'n_outputs': case.n_out,
             'error_models': case.em_names,
             'user_mechanistic_model': case.mech_wrapper}
    # the SAME user model is handed to the likelihood and to the predictive
    # model (both document that they copy it)
    user_model = case.mechanistic_model()
    user_names = list(user_model.parameters())
    ems = [getattr(chi, e)() for e in case.em_names]
    times = [t.copy() for t in case.times]
    obs = [y.copy() for y in case.obs]
    ll = chi.LogLikelihood(user_model, ems, obs, times)
    pm = chi.PredictiveModel(user_model, ems)
    ll2 = chi.LogLikelihood(user_model, ems, obs, times)
    if list(user_model.parameters()) != user_names or \
            ll2.get_parameter_names() != ll.get_parameter_names() or \
            user_model.n_parameters() != len(user_names):
        _bad(ctx, 'user_model_names_changed',
             {'before': user_names, 'after': list(user_model.parameters()),
              'second_likelihood': ll2.get_parameter_names()}, feats)
        return
    full = case.full_names()
    x_full = case.point(rng)
    fixed = {}
    n_steps = int(rng.integers(0, 5))
    ops = []
    ctx.case(('indiv', case.n_out, tuple(e[:3] for e in case.em_names),
              n_steps, case.mech_wrapper), n_steps > 0,
             sample=dict(feats, steps=n_steps))
    for step in range(n_steps + 1):
        if step > 0:
            free = [n for n in full if n not in fixed]
            if rng.random() < 0.6 and len(free) > 1:
                k = int(rng.integers(1, len(free)))
                pick = [free[i] for i in rng.permutation(len(free))[:k]]
                d = {n: float(x_full[full.index(n)]) for n in pick}
                fixed.update(d)
            elif fixed:
                pick = sorted(fixed)[:int(rng.integers(1, len(fixed) + 1))]
                d = {n: None for n in pick}
                for n in pick:
                    fixed.pop(n)
            else:
                d = {}
            ll.fix_parameters(d)
            pm.fix_parameters(d)
            ops.append(sorted(d))
            ctx.count('reconfiguration_steps')
        want = [n for n in full if n not in fixed]
        x = np.array([x_full[full.index(n)] for n in want])
        ctx.count('invariant_evaluations')
        for name, obj in (('LogLikelihood', ll), ('PredictiveModel', pm)):
            if obj.n_parameters() != len(obj.get_parameter_names()) or \
                    obj.get_parameter_names() != want:
                _bad(ctx, 'individual_counts:' + name,
                     {'n_parameters': obj.n_parameters(),
                      'names': obj.get_parameter_names(), 'expected': want,
                      'ops': ops}, feats)
                return
        if not want:
            continue
        # documented order: mechanistic parameters, then error models
        try:
            v = ll(x)
            s, g = ll.evaluateS1(x)
            pw = ll.compute_pointwise_ll(x)
            smp = pm.sample(x, [0.5, 1.0], n_samples=2, seed=1,
                            return_df=False)
            post = chi.LogPosterior(ll, pints.ComposedLogPrior(*[
                pints.LogNormalLogPrior(0, 1) for _ in want]))
            sp, gp = post.evaluateS1(x)
        except Exception as e:      # noqa
            ctx.violation_exc('vector_of_reported_length_evaluates', e,
                              {'ops': ops, 'case': case.describe()}, feats)
            return
        ctx.count('gradient_lengths_checked', 2)
        if np.asarray(g).shape != (len(want),) or \
                np.asarray(gp).shape != (len(want),) or \
                post.n_parameters() != len(want) or \
                len(post.get_parameter_names()) != len(want) or \
                len(pw) != sum(ll.n_observations()) or \
                smp.shape != (case.n_out, 2, 2):
            _bad(ctx, 'individual_lengths',
                 {'gradient': np.asarray(g).shape,
                  'posterior_gradient': np.asarray(gp).shape,
                  'expected': len(want), 'ops': ops}, feats)
            return
        # a vector of the reported length outside the support of an error
        # parameter (a proposal of a gradient-based sampler) is still
        # answered with a gradient of the reported length
        try:
            sn, gn = post.evaluateS1(-np.abs(np.array(x, dtype=float)) - 0.1)
            ctx.count('gradient_lengths_checked_at_rejected_points')
            if np.asarray(gn).shape != (len(want),):
                _bad(ctx, 'individual_lengths',
                     {'posterior gradient outside the prior support':
                      np.asarray(gn).shape, 'expected': len(want),
                      'ops': ops}, feats)
                return
        except Exception:           # noqa
            ctx.count('rejected_points_raising')
        err_free = [i for i, n in enumerate(want)
                    if full.index(n) >= case.n_mech]
        if err_free:
            xb = np.array(x)
            xb[err_free[int(rng.integers(len(err_free)))]] = \
                [0.0, -0.3][int(rng.integers(2))]
            try:
                sb, gb = ll.evaluateS1(xb)
            except Exception as e:      # noqa
                ctx.violation_exc('vector_of_reported_length_evaluates', e,
                                  {'ops': ops, 'case': case.describe(),
                                   'outside the support': xb}, feats)
                return
            ctx.count('gradient_lengths_checked')
            if np.asarray(gb).shape != (len(want),):
                _bad(ctx, 'individual_lengths',
                     {'gradient outside the support': np.asarray(gb).shape,
                      'expected': len(want), 'ops': ops}, feats)
                return


# ------------------------------------------------------ mechanistic models
def mech_case(ctx, rng, idx):
    from chi.library import ModelLibrary
    lib = ModelLibrary()
    which = idx % 3
    if which == 0:
        m = lib.one_compartment_pk_model()
    elif which == 1:
        m = lib.erlotinib_tumour_growth_inhibition_model()
    else:
        m = lib.tumour_growth_inhibition_model_koch()
    feats = {'object': type(m).__name__, 'model': which}
    red = None
    ops = []
    n_steps = int(rng.integers(1, 7))
    ctx.case(('mech', which, n_steps, idx % 7), True,
             sample=dict(feats, steps=n_steps))
    times = np.array([0.5, 1.0, 2.0])

    def check():
        obj = red if red is not None else m
        ctx.count('invariant_evaluations')
        names = obj.parameters()
        outs = obj.outputs()
        if obj.n_parameters() != len(names) or \
                obj.n_outputs() != len(outs) or \
                len(set(names)) != len(names):
            _bad(ctx, 'mechanistic_counts',
                 {'n_parameters': obj.n_parameters(), 'names': names,
                  'n_outputs': obj.n_outputs(), 'outputs': outs,
                  'ops': ops}, feats)
            return False
        x = rng.uniform(0.3, 1.5, obj.n_parameters())
        try:
            y = obj.simulate(x, times)
        except Exception as e:      # noqa
            ctx.violation_exc('vector_of_reported_length_evaluates', e,
                              {'ops': ops}, feats)
            return False
        if obj.has_sensitivities():
            y, s = y
            ctx.count('gradient_lengths_checked')
            if s.shape != (len(times), obj.n_outputs(), obj.n_parameters()):
                _bad(ctx, 'mechanistic_sensitivity_shape',
                     {'shape': s.shape, 'expected': (
                         len(times), obj.n_outputs(), obj.n_parameters()),
                      'ops': ops}, feats)
                return False
        if np.asarray(y).shape != (obj.n_outputs(), len(times)):
            _bad(ctx, 'mechanistic_output_shape',
                 {'shape': np.asarray(y).shape, 'ops': ops}, feats)
            return False
        return True
    if not check():
        return
    # (every seventh history starts with: wrap, sensitivities on, EVERY
    # parameter fixed, one released)
    forced = ['wrap', 'sens_on', 'fix_all', 'release'] if idx % 7 == 3 \
        else []
    for step_ in range(n_steps + len(forced)):
        obj = red if red is not None else m
        op = ['set_outputs', 'set_administration', 'rename', 'fix',
              'release', 'sens_on', 'sens_off', 'wrap',
              'fix_all'][int(rng.integers(9))]
        if step_ < len(forced):
            op = forced[step_]
        try:
            if op == 'set_outputs':
                states = [v.qname() for v in m._simulator._model.states()] \
                    if False else None
                base = m.parameters()[:m._n_states] if False else None
                cands = [n for n in m.parameters()
                         if n.endswith('drug_amount')
                         or n.endswith('tumour_volume')
                         or n.endswith('drug_concentration')]
                pool = cands + (['central.drug_concentration']
                                if which in (0, 1) else [])
                pool = sorted(set(pool))
                if not pool:
                    continue
                k = int(rng.integers(1, len(pool) + 1))
                try:
                    obj.set_outputs([pool[i] for i in
                                     rng.permutation(len(pool))[:k]])
                except (ValueError, KeyError) as e:
                    ctx.reject('set_outputs: ' + str(e)[:40])
                    continue
            elif op == 'set_administration':
                if which == 2 or red is not None:
                    continue
                m.set_administration('central',
                                     direct=bool(rng.integers(2)))
            elif op == 'rename':
                if red is not None:
                    continue
                nm = m.parameters()
                j = int(rng.integers(len(nm)))
                m.set_parameter_names({nm[j]: 'renamed %d' % len(ops)})
            elif op == 'wrap':
                if red is None:
                    red = chi.ReducedMechanisticModel(m)
            elif op == 'fix':
                if red is None:
                    continue
                nm = red.parameters()
                if len(nm) <= 1:
                    continue
                red.fix_parameters({nm[int(rng.integers(len(nm)))]: 0.7})
            elif op == 'fix_all':
                if red is None:
                    continue
                red.fix_parameters({n_: 0.6 for n_ in red.parameters()})
            elif op == 'release':
                if red is None:
                    continue
                all_names = red.mechanistic_model().parameters()
                red.fix_parameters(
                    {all_names[int(rng.integers(len(all_names)))]: None})
            elif op == 'sens_on':
                obj.enable_sensitivities(True)
            elif op == 'sens_off':
                obj.enable_sensitivities(False)
        except Exception as e:      # noqa
            ctx.violation_exc('reconfiguration_raises', e,
                              {'ops': ops + [op]}, feats)
            return
        ops.append(op)
        feats['ops'] = list(ops)
        ctx.count('reconfiguration_steps')
        if not check():
            return


# ------------------------------------------------------------- controller
_EM_DEFAULTS = {
    'GaussianErrorModel': ['Sigma'],
    'MultiplicativeGaussianErrorModel': ['Sigma rel.'],
    'ConstantAndMultiplicativeGaussianErrorModel':
        ['Sigma base', 'Sigma rel.'],
    'LogNormalErrorModel': ['Sigma log']}


def controller_case(ctx, rng, idx):
    n_out = int(rng.integers(1, 3))
    ems = [sorted(D.ERROR_MODELS)[int(rng.integers(4))]
           for _ in range(n_out)]
    n_ids = int(rng.integers(1, 4))
    rows = []
    # (one individual may have lost every sample: it is in the dataset with
    # a missing value and stays an individual of the population)
    lost = int(rng.integers(n_ids)) if (
        n_ids >= 2 and rng.random() < 0.25) else None
    for i in range(n_ids):
        if i == lost:
            rows.append({'ID': i + 1, 'Time': 1.5, 'Observable': 'Out 1',
                         'Value': np.nan})
            continue
        for o in range(n_out):
            for tt in np.sort(rng.choice(GL.POOL[1:], size=2,
                                         replace=False)):
                rows.append({'ID': i + 1, 'Time': tt,
                             'Observable': 'Out %d' % (o + 1),
                             'Value': float(rng.uniform(1, 4))})
    data = pd.DataFrame(rows)
    feats = {'object': 'ProblemModellingController', 'n_outputs': n_out,
             'error_models': ems, 'n_ids': n_ids,
             'individual_without_measurements': lost is not None}
    pop = bool(rng.integers(2))
    ctx.case(('controller', n_out, tuple(e[:3] for e in ems), n_ids, pop),
             True, sample=dict(feats, population=pop))
    user_model = toys.ToyMulti(n_out)
    wrapper = ['none', 'reduced', 'reduced_released'][idx % 3]
    if wrapper != 'none':
        user_model = chi.ReducedMechanisticModel(user_model)
        if wrapper == 'reduced_released':
            user_model.fix_parameters({'k': 0.3})
            user_model.fix_parameters({'k': None})
    feats['user_mechanistic_model'] = wrapper
    # how the caller came by the error-model objects: fresh ones, one
    # instance serving every output, or instances another controller (with
    # another output layout) was given before
    em_source = ['separate', 'shared', 'reused', 'separate'][(idx // 3) % 4]
    if em_source == 'shared' and n_out > 1:
        ems = [ems[0]] * n_out
        em_objs = [getattr(chi, ems[0])()] * n_out
    else:
        em_objs = [getattr(chi, e)() for e in ems]
    feats['error_models'] = ems
    feats['error_model_objects'] = em_source
    other = None
    if em_source == 'reused':
        other = chi.ProblemModellingController(
            toys.ToyMulti(n_out + 1),
            em_objs + [chi.GaussianErrorModel()])
    c = chi.ProblemModellingController(user_model, em_objs)
    c.set_data(data)
    n_ind = c.get_n_parameters()
    first = c.get_parameter_names()
    ctx.count('controller_name_forms_checked')
    want = ['a%d' % (o + 1) for o in range(n_out)] + ['k', 'b']
    for o, e in enumerate(ems):
        for d in _EM_DEFAULTS[e]:
            want.append(('Out %d ' % (o + 1) + d) if n_out > 1 else d)
    if list(first) != want:
        _bad(ctx, 'controller_names_documented_form',
             {'names': list(first), 'expected': want}, feats)
        return
    if other is not None:
        # the controller built earlier still reports its own documented names
        want_o = ['a%d' % (o + 1) for o in range(n_out + 1)] + ['k', 'b']
        for o, e in enumerate(ems + ['GaussianErrorModel']):
            for d in _EM_DEFAULTS[e]:
                want_o.append('Out %d ' % (o + 1) + d)
        if list(other.get_parameter_names()) != want_o:
            _bad(ctx, 'controller_names_documented_form',
                 {'names': list(other.get_parameter_names()),
                  'expected': want_o, 'who': 'controller built earlier from '
                  'the same error-model objects'}, feats)
            return
    if c.get_parameter_names() != first or len(first) != n_ind:
        _bad(ctx, 'controller_counts',
             {'first': first, 'second': c.get_parameter_names(),
              'n_parameters': n_ind}, feats)
        return
    ops = []
    if pop:
        leaves = GP.random_composition(rng, n_ids, total_dim=n_ind,
                                       p_cov=0.0)
        try:
            c.set_population_model(GP.build_chi(leaves, n_ids))
        except Exception as e:      # noqa
            ctx.violation_exc('reconfiguration_raises', e,
                              {'leaves': [GP.leaf_code(l) for l in leaves]},
                              feats)
            return
        feats['leaves'] = [GP.leaf_code(l) for l in leaves]
        ops.append('set_population_model')
    for step in range(int(rng.integers(0, 3)) + 1):
        ctx.count('invariant_evaluations')
        names = c.get_parameter_names()
        n = c.get_n_parameters()
        if n != len(names):
            _bad(ctx, 'controller_counts',
                 {'n_parameters': n, 'names': names, 'ops': ops}, feats)
            return
        try:
            c.set_log_prior(pints.ComposedLogPrior(*[
                pints.GaussianLogPrior(0.5, 2) for _ in range(n)]))
            post = c.get_log_posterior()
            pm = c.get_predictive_model()
        except Exception as e:      # noqa
            ctx.violation_exc('vector_of_reported_length_evaluates', e,
                              {'ops': ops, 'feats': feats}, feats)
            return
        ctx.count('hierarchical_objects_checked')
        np_ = post.n_parameters()
        if len(post.get_parameter_names()) != np_ or \
                (pop and post.n_parameters(exclude_bottom_level=True) != n) \
                or (not pop and np_ != n) or pm.n_parameters() != n or \
                len(pm.get_parameter_names()) != n:
            _bad(ctx, 'controller_posterior_counts',
                 {'controller': n, 'posterior': np_,
                  'posterior_names': len(post.get_parameter_names()),
                  'predictive': pm.n_parameters(), 'ops': ops}, feats)
            return
        if not pop and list(post.get_parameter_names()) != list(names):
            _bad(ctx, 'controller_vs_posterior_names',
                 {'controller': list(names),
                  'posterior': list(post.get_parameter_names()),
                  'ops': ops}, feats)
            return
        if pop and len(post.get_id()) != np_:
            _bad(ctx, 'controller_posterior_ids',
                 {'ids': len(post.get_id()), 'n': np_}, feats)
            return
        # fix / release something
        if len(set(names)) == len(names) and len(names) > 1:
            pick = names[int(rng.integers(len(names)))]
            c.fix_parameters({pick: 0.5})
            ops.append('fix')
            ctx.count('reconfiguration_steps')


def filter_posterior_case(ctx, rng, idx):
    """PopulationFilterLogPosterior: count, names, per-parameter IDs, a
    point of the published layout and the gradient have one length; the IDs
    follow the published layout (population level: None; then n_hdim
    entries per simulated individual; then n_observables * n_times noise
    entries per simulated individual)"""
    from checks import c13
    try:
        case = c13.FPCase(rng, idx)
        post = case.build()
    except c13.Rejected as e:
        ctx.reject(str(e))
        return
    except Exception as e:      # noqa
        ctx.violation_exc('construction_raises', e, {})
        return
    feats = {'family': 'filter_posterior', 'filter': case.fname,
             'n_outputs': case.n_out, 'n_times': case.n_times,
             'n_simulated': case.n_s, 'sigma_free': case.sigma_free,
             'mode': case.mode, 'leaves': [GP.leaf_code(l)
                                           for l in case.leaves]}
    ctx.case(('filter_posterior', case.fname, case.n_out, case.sigma_free,
              case.mode), True, sample=feats)
    ctx.count('reconfiguration_steps')
    ctx.count('invariant_evaluations')
    ctx.count('hierarchical_objects_checked')
    try:
        n = post.n_parameters()
        names = post.get_parameter_names()
        top_names = post.get_parameter_names(exclude_bottom_level=True)
        ids = post.get_id()
        uniq = post.get_id(unique=True)
    except Exception as e:      # noqa
        ctx.violation_exc('accessor_raises', e, {'case': feats}, feats)
        return
    try:
        with_ids = post.get_parameter_names(include_ids=True)
    except Exception as e:      # noqa
        with_ids = []
        if len(ids) == len(names):
            ctx.violation_exc('accessor_raises', e, {'case': feats}, feats)
            return
    h = case.h
    n_noise = case.n_out * case.n_times
    want_n = case.n_top + case.n_s * (h.n_bottom // case.n_s + n_noise)
    prob = []
    if not (n == len(names) == len(ids) == len(with_ids) == want_n):
        prob.append('n_parameters=%s names=%s ids=%s names with ids=%s '
                    'layout=%s' % (n, len(names), len(ids), len(with_ids),
                                   want_n))
    if len(top_names) != case.n_top:
        prob.append('top-level names %d, expected %d' % (
            len(top_names), case.n_top))
    if len(uniq) != case.n_s:
        prob.append('unique ids %d, simulated individuals %d' % (
            len(uniq), case.n_s))
    if not prob:
        hd = h.n_bottom // case.n_s
        want_ids = [None] * case.n_top
        for u in uniq:
            want_ids += [u] * hd
        for u in uniq:
            want_ids += [u] * n_noise
        if list(ids) != want_ids:
            prob.append('ids do not follow the published layout')
        for k, (nm, i_, w) in enumerate(zip(names, ids, with_ids)):
            if w != (nm if i_ is None else '%s %s' % (i_, nm)):
                prob.append('name with id at %d: %r' % (k, w))
                break
    if prob:
        _bad(ctx, 'filter_posterior_counts', {'problems': prob,
                                              'case': feats}, feats)
        return
    try:
        x = np.real(case.point(rng))
        if len(x) != n:
            _bad(ctx, 'filter_posterior_counts',
                 {'problems': ['vector of the published layout has %d '
                               'entries, n_parameters=%d' % (len(x), n)]},
                 feats)
            return
        v = post(x)
        s, g = post.evaluateS1(x)
        ctx.count('gradient_lengths_checked')
        if np.shape(g) != (n,):
            _bad(ctx, 'gradient_length',
                 {'shape': np.shape(g), 'expected': n}, feats)
    except Exception as e:      # noqa
        ctx.violation_exc('evaluation_raises', e, {'case': feats}, feats)
        return
    # rejected points (every entry negative / far outside any bounded
    # prior): the early returns report a gradient of the same length
    for what, val in (('all negative', -1.0), ('all large', 1e6)):
        try:
            sr, gr = post.evaluateS1(np.full(n, val))
        except Exception:           # noqa
            ctx.count('rejected_points_raising')
            continue
        ctx.count('gradient_lengths_checked_at_rejected_points')
        if np.shape(gr) != (n,):
            _bad(ctx, 'gradient_length',
                 {'shape': np.shape(gr), 'expected': n, 'at': what}, feats)


def constructor_n_ids_case(ctx, rng, idx):
    """a composite built from sub-models that were created for different
    numbers of individuals (default 1 next to one already sized for n): its
    count, names and hierarchical counts describe ONE number of individuals,
    the same as after an explicit set_n_ids(n_ids())"""
    n = int(rng.integers(2, 5))
    k = int(rng.integers(2, 5))
    sized = int(rng.integers(k))
    subs = []
    for j in range(k):
        kind = 'HHGP'[int(rng.integers(4))] if j != sized else 'H'
        if kind == 'H':
            mdl = chi.HeterogeneousModel(
                n_dim=int(rng.integers(1, 3)),
                n_ids=n if j == sized else 1)
        elif kind == 'G':
            mdl = chi.GaussianModel()
        else:
            mdl = chi.PooledModel()
        w = rng.random()
        if w < 0.2:
            mdl = chi.ReducedPopulationModel(mdl)
        elif w < 0.35:
            mdl = chi.ComposedPopulationModel([mdl, chi.PooledModel()])
        subs.append(mdl)
    feats = {'family': 'constructor_n_ids', 'n_ids': n,
             'position_of_the_sized_sub_model': sized, 'n_sub_models': k}
    ctx.case(('constructor_n_ids', k, sized, n), True, sample=feats)
    try:
        m = chi.ComposedPopulationModel(subs)
        ctx.count('reconfiguration_steps')
        ctx.count('invariant_evaluations')
        n_now = m.n_ids()
        got = (m.n_parameters(), len(m.get_parameter_names()),
               tuple(m.n_hierarchical_parameters(n_now)))
        twin = copy.deepcopy(m)
        twin.set_n_ids(n_now)
        want = (twin.n_parameters(), len(twin.get_parameter_names()),
                tuple(twin.n_hierarchical_parameters(n_now)))
    except Exception as e:      # noqa
        ctx.violation_exc('construction_raises', e, {'case': feats}, feats)
        return
    prob = []
    if got[0] != got[1] or got[0] != got[2][1]:
        prob.append('n_parameters %d, names %d, n_hierarchical top %d' % (
            got[0], got[1], got[2][1]))
    if got != want:
        prob.append('as constructed %r, after set_n_ids(%d) %r' % (
            got, n_now, want))
    if n_now != n:
        prob.append('n_ids() = %d, a sub-model was sized for %d' % (
            n_now, n))
    if prob:
        _bad(ctx, 'population_counts', {'problems': prob, 'case': feats},
             feats)


def constructor_names_case(ctx, rng, idx):
    """names given to the constructors (dim_names, cov_names) are what the
    setters would have set: a model built with names equals, name for name
    and count for count, a twin built without them and named afterwards"""
    kind = 'GLTPH'[idx % 5]
    n_dim = int(rng.integers(1, 4))
    n_ids = int(rng.integers(1, 4))
    n_cov = int(rng.integers(0, 3))
    centered = bool(rng.integers(2))
    dims = ['dim %s' % c for c in rng.permutation(list('abcdefg'))[:n_dim]]
    covs = ['cov %s' % c for c in rng.permutation(list('uvwxyz'))[:n_cov]]
    wrap_names = bool(rng.integers(2))
    feats = {'family': 'constructor_names', 'kind': kind, 'n_dim': n_dim,
             'n_cov': n_cov, 'names_to_wrapper': wrap_names}
    ctx.case(('constructor_names', kind, n_dim, n_cov, wrap_names), True,
             sample=dict(feats, dim_names=dims, cov_names=covs))

    def base(names):
        kw = {} if names is None else {'dim_names': list(names)}
        if kind == 'G':
            return chi.GaussianModel(n_dim=n_dim, centered=centered, **kw)
        if kind == 'L':
            return chi.LogNormalModel(n_dim=n_dim, centered=centered, **kw)
        if kind == 'T':
            return chi.TruncatedGaussianModel(n_dim=n_dim, **kw)
        if kind == 'P':
            return chi.PooledModel(n_dim=n_dim, **kw)
        return chi.HeterogeneousModel(n_dim=n_dim, n_ids=n_ids, **kw)

    try:
        if n_cov:
            if wrap_names:
                a = chi.CovariatePopulationModel(
                    base(None), chi.LinearCovariateModel(
                        n_cov=n_cov, cov_names=list(covs)),
                    dim_names=list(dims))
            else:
                a = chi.CovariatePopulationModel(
                    base(dims), chi.LinearCovariateModel(
                        n_cov=n_cov, cov_names=list(covs)))
            b = chi.CovariatePopulationModel(
                base(None), chi.LinearCovariateModel(n_cov=n_cov))
            b.set_dim_names(list(dims))
            b.set_covariate_names(list(covs))
        else:
            a = base(dims)
            b = base(None)
            b.set_dim_names(list(dims))
        for m in (a, b):
            m.set_n_ids(n_ids)
        ctx.count('reconfiguration_steps')
        ctx.count('invariant_evaluations')
        prob = []
        for acc in ('get_dim_names', 'get_covariate_names',
                    'get_parameter_names', 'n_parameters', 'n_dim',
                    'n_covariates'):
            va, vb = getattr(a, acc)(), getattr(b, acc)()
            if va != vb:
                prob.append('%s: constructor %r, setters %r' % (acc, va, vb))
        if list(a.get_dim_names()) != list(dims):
            prob.append('dimension names %r, given %r' % (
                a.get_dim_names(), dims))
        if n_cov and list(a.get_covariate_names()) != list(covs):
            prob.append('covariate names %r, given %r' % (
                a.get_covariate_names(), covs))
        if len(a.get_parameter_names()) != a.n_parameters():
            prob.append('names / count')
    except Exception as e:      # noqa
        ctx.violation_exc('accessor_raises', e, {'case': feats}, feats)
        return
    if prob:
        _bad(ctx, 'constructor_names', {'problems': prob, 'case': feats},
             feats)


FAMILIES = [
    Family('constructor_n_ids', constructor_n_ids_case, quick=120,
           thorough=1200),
    Family('constructor_names', constructor_names_case, quick=120,
           thorough=1200),
    Family('filter_posterior', filter_posterior_case, quick=150,
           thorough=1500),
    Family('pop_random', pop_random_case, quick=1500, thorough=25000),
    Family('pop_exhaustive', pop_exhaustive_case, quick=len(_HIST3) * 6,
           thorough=len(_HIST3) * 120),
    Family('individual', individual_case, quick=400, thorough=6000),
    Family('mechanistic', mech_case, quick=160, thorough=2000),
    Family('controller', controller_case, quick=300, thorough=4000),
    Family('submodel', submodel_case, quick=480, thorough=4800),
]
